"""C14 - imports stay inside the import root, run once, and keep their own globals.

Stage A (texts): import statements spelled from the lexer's alphabet (identifier, quoted path with every
escape form, from-import dotted/quoted, grouped, aliased; hostile path values) are parsed by the real parser
and by the extracted parser model, the resulting import nodes are run by the real VM inside a temp tree
with sentinel files outside the root, and by the extracted Importer model.
Stage B (module trees): abstract programs (imports in all spellings, repeated/aliased/transitive imports,
failing bodies, retries under try(), cyclic and self imports, observations through aliases, writes to
same-named globals) are rendered to risor source, run through three importer configurations and through the
extracted model; the event traces (body starts/ends with import depth, importer requests, files opened,
observed values, module identities) must agree exactly.
The oracle (independent of the model) judges the implementation's observations: confinement of every file
opened / every name requested, no sentinel executed, at most one run of a module body (a start is allowed
only when every earlier start of the same module had failed; an import cycle must be an error), one module object per name, same-named globals
of different modules and of the importer never alias.
Stage B also holds (a) trees with near-duplicate module names (letter case, Unicode folding / compatibility forms): different files are
different modules; (b) histories of evaluations in one process under different import roots whose trees share module
names: every evaluation resolves inside ITS root (a body of another root's file running is an escape)."""
import json
import os
import shutil
import subprocess
import tempfile
from concurrent.futures import ThreadPoolExecutor

from lib import common as C
from lib import core

PROP = "C14"
LEVEL = "proof"

EXTS = [b".risor", b".rsr"]
ROOT = "outer/root"

# ------------------------------------------------------------------ known findings


def load_known():
    out = []
    for fn in ("known_findings.e.jsonl", "known_findings.jsonl"):
        p = os.path.join(C.VERIF, fn)
        if not os.path.exists(p):
            continue
        for line in open(p):
            line = line.strip()
            if not line or line.startswith("#"):
                continue
            j = json.loads(line)
            if j.get("property") == PROP and not j.get("fixed"):
                out.append(j)
        if out:
            break
    # the per-agent files known_findings.<agent>.jsonl
    import glob
    for p in sorted(glob.glob(os.path.join(C.VERIF, "known_findings.*.jsonl"))):
        if os.path.basename(p) == "known_findings.e.jsonl":
            continue
        for line in open(p):
            line = line.strip()
            if line and not line.startswith("#"):
                j = json.loads(line)
                if j.get("property") == PROP and not j.get("fixed"):
                    out.append(j)
    return out


# ------------------------------------------------------------------ abstract programs
# actions: ("I", path, alias|None, hint) ("F", parents, [(name, alias|None)], hint) ("S", var, int)
#          ("C", path_list, var, int) ("O", path_list, sid) ("Q", p, q, sid) ("X",) ("T", body) ("R", k, body)
# Spellings of the SAME abstract action through the module's own FUNCTIONS (the model does not tell them apart: a module
# has one set of globals, whoever reads or writes it):
#          ("SC", var, int)            S by the module's own setter: `set_x(v)` in the module's body
#          ("OG", path_list, sid)      O of <module>.<var> through the module's getter: `obs(m.get_x(), sid)`
#          ("TH", body)                a block of statements run in a thread the program starts and waits for:
#                                      `spawn(func() { ... }).wait()`; the body IMPORTS modules the program has already
#                                      imported (any spelling, a new alias) and observes them through the new binding
#          ("CT", path_list, var, int) C from a thread the program starts and waits for: `spawn(func() { m.set_x(v) }).wait()`

def hx(b):
    return b.hex() if b else "-"


def enc_actions(acts, out):
    for a in acts:
        k = a[0]
        if k == "I":
            out += ["I", hx(a[1]), hx(a[2]) if a[2] is not None else "_"]
        elif k == "F":
            out += ["F", str(len(a[1]))] + [hx(p) for p in a[1]] + [str(len(a[2]))]
            for n, al in a[2]:
                out += [hx(n), hx(al) if al is not None else "_"]
        elif k in ("S", "SC"):
            out += ["S", hx(a[1]), str(a[2])]
        elif k == "D":
            out += ["D", hx(a[1])]
        elif k in ("C", "CT"):
            out += ["C", str(len(a[1]))] + [hx(p) for p in a[1]] + [hx(a[2]), str(a[3])]
        elif k in ("O", "OG"):
            out += ["O", str(len(a[1]))] + [hx(p) for p in a[1]]
        elif k == "Q":
            out += ["Q", str(len(a[1]))] + [hx(p) for p in a[1]] + [str(len(a[2]))] + [hx(p) for p in a[2]]
        elif k == "X":
            out.append("X")
        elif k in ("T", "TH"):
            # (TH: the body runs in a thread the program starts and waits for; it holds only statements that cannot fail, so
            # for the model - one module table per evaluation, whoever imports - it is the same block)
            out += ["T", str(len(a[1]))]
            enc_actions(a[1], out)
        elif k == "R":
            out += ["R", str(a[1]), str(len(a[2]))]
            enc_actions(a[2], out)
        else:
            raise ValueError(k)


def enc_case(rootarg, mods, main):
    out = ["CASE", hx(rootarg.encode()), str(len(mods))]
    for m in mods:
        out += [hx(m["name"]), hx(m["ext"])]
        if m["bad"]:
            out.append("B")
        else:
            out += ["M", str(len(m["body"]))]
            enc_actions(m["body"], out)
    out += ["MAIN", str(len(main))]
    enc_actions(main, out)
    return " ".join(out)


# ---- rendering to risor source

def lit(rng, b, plain=False):
    """a double-quoted risor string literal whose VALUE is the byte string b"""
    try:
        text = b.decode("utf-8")
        utf_ok = True
    except UnicodeDecodeError:
        utf_ok = False
    out = ['"']
    if utf_ok:
        for ch in text:
            o = ord(ch)
            simple = 32 <= o < 127 and ch not in '"\\{}'
            r = 0 if plain else rng.below(10)
            if o < 128 and (not simple or r == 0):
                out.append("\\%03o" % o)
            elif o < 128 and r == 1:
                out.append("\\x%02x" % o)
            elif o < 128 and r == 2:
                out.append("\\u%04x" % o)
            elif o >= 128 and o < 0x10000 and r < 3:
                out.append("\\u%04x" % o)
            elif o >= 128 and o < 256 and r == 3:
                out.append("\\x%02x" % o)
            else:
                out.append(ch)
    else:
        for o in b:
            if 32 <= o < 127 and chr(o) not in '"\\{}':
                out.append(chr(o))
            else:
                out.append("\\%03o" % o)
    out.append('"')
    return "".join(out)


def is_ident(b):
    try:
        s = b.decode("utf-8")
    except UnicodeDecodeError:
        return False
    return s.isidentifier() and all(c.isalpha() or c.isdigit() or c == "_" for c in s)


def is_ascii_ident(b):
    return is_ident(b) and all(c < 128 for c in b)


def render(rng, acts, ind, sid_of):
    lines = []
    pad = "  " * ind
    for a in acts:
        k = a[0]
        if k == "I":
            hint = a[3]
            if hint == "ident":
                s = "import " + a[1].decode()
            else:
                s = "import " + lit(rng, a[1])
            if a[2] is not None:
                s += " as " + a[2].decode()
            lines.append(pad + s)
        elif k == "F":
            hint = a[3]
            if hint.get("quoted"):
                s = "from " + lit(rng, a[1][0]) + " import "
            else:
                s = "from " + ".".join(p.decode() for p in a[1]) + " import "
            items = [n.decode() + ((" as " + al.decode()) if al is not None else "") for n, al in a[2]]
            if hint.get("grouped"):
                nl = "\n" + pad + "  " if hint.get("nl") else ""
                s += "(" + nl + ("," + (nl or " ")).join(items) + ("," if hint.get("trail") else "") + \
                     ("\n" + pad if hint.get("nl") and hint.get("trail") else "") + ")"
            else:
                s += ", ".join(items)
            lines.append(pad + s)
        elif k == "S":
            lines.append(pad + "%s = %d" % (a[1].decode(), a[2]))
        elif k == "SC":
            lines.append(pad + "set_%s(%d)" % (a[1].decode(), a[2]))
        elif k == "D":
            lines.append(pad + "func set_%s(v) { %s = v }" % (a[1].decode(), a[1].decode()))
            lines.append(pad + "func get_%s() { return %s }" % (a[1].decode(), a[1].decode()))
        elif k == "C":
            lines.append(pad + "%s.set_%s(%d)" % (".".join(p.decode() for p in a[1]), a[2].decode(), a[3]))
        elif k == "CT":
            lines.append(pad + "spawn(func() { %s.set_%s(%d) }).wait()" % (".".join(p.decode() for p in a[1]), a[2].decode(), a[3]))
        elif k == "O":
            lines.append(pad + "obs(%s, %d)" % (".".join(p.decode() for p in a[1]), sid_of(a)))
        elif k == "OG":
            lines.append(pad + "obs(%s.get_%s(), %d)" % (".".join(p.decode() for p in a[1][:-1]), a[1][-1].decode(), sid_of(a)))
        elif k == "Q":
            lines.append(pad + "obs(%s == %s, %d)" % (".".join(p.decode() for p in a[1]),
                                                      ".".join(p.decode() for p in a[2]), sid_of(a)))
        elif k == "X":
            lines.append(pad + 'error("boom")')
        elif k == "TH":
            lines.append(pad + "spawn(func() {")
            lines += render(rng, a[1], ind + 1, sid_of)
            lines.append(pad + "}).wait()")
        elif k == "T":
            lines.append(pad + "try(func() {")
            lines += render(rng, a[1], ind + 1, sid_of)
            lines.append(pad + "})")
        elif k == "R":
            lines.append(pad + "if __n == %d {" % a[1])
            lines += render(rng, a[2], ind + 1, sid_of)
            lines.append(pad + "}")
    return lines


def with_prologue(m):
    """module dict whose body starts with one `x = init` per variable -> body with `x := init; func set_x` per variable"""
    if m["bad"] or m.get("_pro"):
        return m
    nv = len(m["vars"])
    pro = []
    for (v, init) in m["vars"]:
        pro += [("S", v, init), ("D", v)]
    m["body"] = pro + m["body"][nv:]
    m["_pro"] = True
    return m


def render_module(rng, m, idx):
    if m["bad"]:
        return "tick(%d, 0)\nx0 := := 1\n" % idx
    lines = ["__n := tick(%d, 0)" % idx]
    body = m["body"]
    nv = 2 * len(m["vars"])
    for (v, init) in m["vars"]:
        lines.append("%s := %d" % (v.decode(), init))
        lines.append("func set_%s(v) { %s = v }" % (v.decode(), v.decode()))
        lines.append("func get_%s() { return %s }" % (v.decode(), v.decode()))
    assert all(a[0] in ("S", "D") for a in body[:nv]), body[:nv]
    lines += render(rng, body[nv:], 0, lambda a: -1)
    lines.append("tick(%d, 1)" % idx)
    return "\n".join(lines) + "\n"


def render_main(rng, main, mainvars):
    lines = []
    for (v, init) in mainvars:
        lines.append("%s := %d" % (v.decode(), init))
    lines += render(rng, main[len(mainvars):], 0, lambda a: a[-1])
    return "\n".join(lines) + "\n"


# ---- generation

POOL = [b"a", b"b", b"c", b"d", b"pkg", b"pkg/a", b"pkg/b", b"pkg/sub", b"pkg/sub/a", b"lib/util", b"lib/a",
        b"pkg/x0", "\u00e9".encode(), b'"q"', b"a/b", b"pkg/sub/x1", b"_u1"]
MISSING = [b"nope", b"pkg/nope", b"zz/a", b"a/nope"]
VARS = [b"x0", b"x1"]


TWIN_INIT = 100000

FOLD_ALIKE = {"s": "\u017f", "k": "\u212a", "a": "\uff41", "b": "\uff42", "i": "\u0131", "u": "\uff55", "l": "\uff4c"}


def near_duplicate(rng, name):
    """a different module name that equals `name` after some normalisation a cache or a file system might apply:
    letter case of one or all components, Unicode case folding (long s, Kelvin sign, dotless i), compatibility
    forms (full-width letters).  Every component stays an identifier, so the name can be written in an import."""
    parts = [p.decode() for p in name.split(b"/")]
    for _ in range(8):
        q = list(parts)
        r = rng.below(6)
        j = rng.below(len(q))
        if r == 0:
            q[j] = q[j].upper()
        elif r == 1:
            q[j] = q[j][0].upper() + q[j][1:]
        elif r == 2:
            q = [x.upper() for x in q]
        elif r == 3:
            k = rng.below(len(q[j]))
            q[j] = q[j][:k] + q[j][k].swapcase() + q[j][k + 1:]
        elif r == 4:
            if len(q) > 1:
                continue      # the parser admits non-ASCII identifiers only in `from <ident> import ...` with one component
            k = rng.below(len(q[j]))
            alt = FOLD_ALIKE.get(q[j][k].lower())
            if alt is None:
                continue
            q[j] = q[j][:k] + alt + q[j][k + 1:]
        else:
            q[-1] = q[-1].capitalize() if q[-1] != q[-1].capitalize() else q[-1].upper()
        if q != parts and all(x.isidentifier() for x in q):
            return "/".join(q).encode()
    return None


class Gen:
    def __init__(self, rng):
        self.rng = rng
        self.n_alias = 0
        self.sid = 0

    def fresh(self):
        self.n_alias += 1
        return ("al%d" % self.n_alias).encode()

    def next_sid(self):
        self.sid += 1
        return self.sid

    def import_action(self, target, scope, force_alias=False, avoid_parent=None):
        """an import statement naming module `target` in a random applicable spelling; records bindings in scope"""
        rng = self.rng
        forms = []
        if b"/" not in target and is_ascii_ident(target):
            forms += ["ii", "iq", "fsym"]
        elif b"/" in target and all(is_ident(p) for p in target.split(b"/")):
            forms += ["iq", "iq", "fd", "fq"]
            if not all(is_ascii_ident(p) for p in target.split(b"/")):
                forms = ["fd"]
        elif is_ident(target):
            forms += ["fsym"]          # non-ASCII identifier: only `from <ident> import ...`
        else:
            forms += ["iq"]
        f = rng.choice(forms)
        if avoid_parent is not None and f in ("fd", "fq") and b"/".join(target.split(b"/")[:-1]) == avoid_parent:
            f = "iq"      # `from <this module> import ...` falls back to importing the module itself: a cycle
        if f in ("ii", "iq"):
            alias = self.fresh() if (force_alias or rng.chance(1, 2)) else None
            if alias is None and target.split(b"/")[-1] in VARS:
                alias = self.fresh()      # `import "pkg/x0"` would bind the name of a variable the program assigns later
            bound = alias if alias is not None else target.split(b"/")[-1]
            if is_ascii_ident(bound):
                scope[bound] = ("mod", target)
            return ("I", target, alias, "ident" if f == "ii" else "quoted")
        if f == "fsym":
            parents = [target]
            names = [rng.choice(VARS)]
            if rng.chance(1, 3):
                names.append(rng.choice(VARS + VARS + VARS + [b"nosuch"]))
            quoted = is_ascii_ident(target) and rng.chance(1, 3)
        else:
            parts = target.split(b"/")
            names = [parts[-1]]
            if f == "fd":
                parents = parts[:-1]
                quoted = False
            else:
                parents = [b"/".join(parts[:-1])]
                quoted = True
            parent_exists = b"/".join(parts[:-1]) in getattr(self, "names", set())
            if parent_exists and rng.chance(1, 3):
                names.append(rng.choice([b"x0", b"x0", b"x1", b"a", b"b", b"sub", b"nosuch"]))
            elif rng.chance(1, 30):
                names.append(b"nosuch")
            if rng.chance(1, 8):
                names.append(names[0])
        imports = []
        for n in names:
            alias = self.fresh() if (force_alias or rng.chance(2, 3)) else None
            imports.append((n, alias))
        if rng.chance(1, 2):
            imports.reverse()
        # compileFromImport keeps ONE alias per imported name (the last entry wins); only that one is defined
        last = {}
        for n, alias in imports:
            last[n] = alias if alias is not None else n
        for bound in last.values():
            scope[bound] = ("unk",)
        hint = {"quoted": quoted, "grouped": rng.chance(2, 5), "nl": rng.chance(1, 2), "trail": rng.chance(1, 2)}
        if hint["trail"] and not hint["grouped"]:
            hint["trail"] = False
        return ("F", parents, imports, hint)

    def observe(self, scope, acts, main):
        rng = self.rng
        mods = [(al, info[1]) for al, info in scope.items() if info[0] == "mod"]
        unk = [al for al, info in scope.items() if info[0] == "unk"]
        r = rng.below(6)
        if mods and r <= 2:
            al, _ = rng.choice(mods)
            p = [al] if r == 0 else [al, rng.choice(VARS)]
            acts.append(("O", p, self.next_sid() if main else -1))
        elif mods and r == 3:
            al, _ = rng.choice(mods)
            acts.append(("C", [al], rng.choice(VARS), rng.below(90) + 10))
        elif unk and r == 4:
            acts.append(("O", [rng.choice(unk)], self.next_sid() if main else -1))
        elif len(mods) >= 2:
            a1, _ = rng.choice(mods)
            a2, _ = rng.choice(mods)
            acts.append(("Q", [a1], [a2], self.next_sid() if main else -1))

    def module(self, name, earlier, later, flavour):
        rng = self.rng
        vars_ = [(b"x0", 100 + rng.below(800))]
        if rng.chance(1, 2):
            vars_.append((b"x1", 100 + rng.below(800)))
        body = [("S", v, i) for v, i in vars_]
        scope = {}
        for _ in range(rng.below(4)):
            if earlier and rng.chance(9, 10):
                t = rng.choice(earlier)
            elif rng.chance(1, 2):
                t = rng.choice(MISSING)
            else:
                continue
            avoid = name if flavour == "dag" else None
            if t in MISSING and rng.chance(19, 20):
                sc2 = {}
                body.append(("T", [self.import_action(t, sc2, avoid_parent=avoid)]))
            else:
                body.append(self.import_action(t, scope, avoid_parent=avoid))
            if rng.chance(1, 2):
                self.observe(scope, body, False)
        if flavour == "cyclic" and later and rng.chance(1, 2):
            body.append(self.import_action(rng.choice(later + [name]), scope))
        if flavour == "selfonce" and rng.chance(1, 2) and is_ascii_ident(name.split(b"/")[-1]) and name != b'"q"':
            sc2 = {}
            inner = [("I", name, self.fresh(), "quoted")]
            al = inner[0][2]
            inner.append(("O", [al, b"x0"], -1))
            body.append(("R", 1, inner))
        if rng.chance(1, 20):
            body.append(("X",))
        return with_prologue({"name": name, "ext": rng.choice([b".risor", b".risor", b".rsr"]), "bad": rng.chance(1, 30),
                              "vars": vars_, "body": body})

    def flaky_module(self, name, earlier):
        """A module that FAILS at its first start(s) and loads when imported again: its body calls the module's own
        functions (so their code is loaded during the failed attempt), imports, then fails on start 1 (or 1 and 2) - by
        error() or by an import that fails -, and goes on (more calls of its own functions) only at the start that succeeds."""
        rng = self.rng
        vars_ = [(b"x0", 100 + rng.below(800)), (b"x1", 100 + rng.below(800))]
        body = [("S", v, i) for v, i in vars_]
        scope = {}

        def own(n):
            for _ in range(n):
                v = rng.choice(VARS)
                body.append((rng.choice(["SC", "SC", "S"]), v, 2000 + rng.below(7000)))
        own(1 + rng.below(3))
        if earlier and rng.chance(1, 2):
            body.append(self.import_action(rng.choice(earlier), scope, avoid_parent=name))
            if rng.chance(1, 2):
                self.observe(scope, body, False)
        nfail = 1 if rng.chance(3, 4) else 2
        for k in range(1, nfail + 1):
            if rng.chance(3, 4):
                body.append(("R", k, [("X",)]))
            else:
                # (the statement may bind x0 / x1 - a second declaration of a module variable, inside a block: the module's
                # attribute stays the variable of the top-level scope; repaired finding module-attribute-inner-block-slot)
                body.append(("R", k, [self.import_action(rng.choice(MISSING), {}, avoid_parent=name)]))
            if k < nfail or rng.chance(1, 2):
                own(1)
        own(rng.below(3))
        m = with_prologue({"name": name, "ext": rng.choice([b".risor", b".risor", b".rsr"]), "bad": False,
                           "vars": vars_, "body": body})
        m["flaky"] = nfail
        return m

    def retry_module(self, name, target):
        """a module whose body catches the failing import(s) of a flaky module and imports it again itself"""
        rng = self.rng
        vars_ = [(b"x0", 100 + rng.below(800))]
        body = [("S", v, i) for v, i in vars_]
        for _ in range(target["flaky"] if rng.chance(3, 4) else 1):
            body.append(("T", [("I", target["name"], self.fresh(), "quoted")]))
        al = self.fresh()
        body.append(("T", [("I", target["name"], al, "quoted"), ("O", [al, b"x0"], -1), ("OG", [al, b"x1"], -1),
                           ("C", [al], b"x0", 10 + rng.below(80)), ("O", [al, b"x0"], -1)]))
        return with_prologue({"name": name, "ext": b".risor", "bad": False, "vars": vars_, "body": body})

    def flaky_prefix(self, mods, scope, acts, expect):
        """main program: the failing import(s) of a flaky module are caught (try), then the module is imported again - by main
        or by another module -; every view of the module's globals must be the same one: attribute, getter function,
        setter function (called by main, by a thread), a second alias"""
        rng = self.rng
        flaky = [m for m in mods if m.get("flaky")]
        retriers = [m for m in mods if m.get("retries")]
        rng_order = list(flaky)
        for m in rng_order[:1 + rng.below(2)]:
            name = m["name"]
            via = [r for r in retriers if r["retries"] == name]
            if via and rng.chance(1, 3):
                acts.append(("T", [("I", via[0]["name"], self.fresh(), "quoted")]))        # the other module does the retrying
            else:
                for _ in range(m["flaky"] if rng.chance(4, 5) else rng.below(m["flaky"])):
                    acts.append(("T", [("I", name, self.fresh(), "quoted")]))
            a1 = self.fresh()
            # (an import that still fails ends the program: then nothing below is observed)
            acts.append(("I", name, a1, "quoted"))
            scope[a1] = ("mod", name)
            for v in VARS:
                s1, s2 = self.next_sid(), self.next_sid()
                acts += [("O", [a1, v], s1), ("OG", [a1, v], s2)]
                expect.append(("equal", s1, s2, "module %r imported again after a failed first import: the attribute %s and the "
                               "module's own function get_%s() show different values (the module's globals exist twice)"
                               % (name, v.decode(), v.decode())))
            v = rng.choice(VARS)
            w = 20000 + rng.below(9000)
            s3, s4 = self.next_sid(), self.next_sid()
            acts += [(rng.choice(["C", "C", "CT"]), [a1], v, w), ("O", [a1, v], s3), ("OG", [a1, v], s4)]
            expect += [("is", s3, "i:%d" % w, "module %r imported again after a failed first import: %s does not read back "
                        "through the attribute after set_%s" % (name, v.decode(), v.decode())),
                       ("is", s4, "i:%d" % w, "module %r imported again after a failed first import: %s does not read back "
                        "through get_%s() after set_%s" % (name, v.decode(), v.decode(), v.decode()))]
            a2 = self.fresh()
            s5, s6 = self.next_sid(), self.next_sid()
            acts += [("I", name, a2, "quoted"), ("O", [a2, v], s5), ("Q", [a1], [a2], s6)]
            scope[a2] = ("mod", name)
            expect += [("is", s5, "i:%d" % w, "a second alias of module %r does not show the value written through the first" % name),
                       ("is", s6, "b:true", "two aliases of module %r compare unequal" % name)]

    def tree(self, flavour, seed_names=None, twins=0):
        """seed_names: names that must be in the tree (module trees of several import roots share names);
        twins: number of near-duplicate names to add - names that become equal to a name of the tree under some
        normalisation (letter case, Unicode case folding / compatibility forms) and are nevertheless different
        files, hence different modules"""
        rng = self.rng
        k = 3 + rng.below(7)
        names = []
        for n in (seed_names or []):
            if n not in names:
                names.append(n)
        while len(names) < k:
            n = rng.choice(POOL)
            if n not in names:
                names.append(n)
        self.twin_pairs = []
        for _ in range(twins):
            cands = [n for n in names if all(is_ascii_ident(p) for p in n.split(b"/"))]
            if not cands:
                break
            n = rng.choice(cands)
            v = near_duplicate(rng, n)
            if v is None or v in names:
                continue
            # the twin is imported after (or before) the original: place it at a random position
            names.insert(rng.below(len(names) + 1), v)
            self.twin_pairs.append((n, v))
        mods = []
        self.names = set(names)
        twin_names = {x for pr in self.twin_pairs for x in pr}
        flaky_at = {}
        if flavour == "flaky":
            # one or two flaky modules, each possibly followed by a module that does the retrying itself
            cands = [i for i, n in enumerate(names) if all(is_ascii_ident(p) for p in n.split(b"/")) and n.split(b"/")[-1] not in VARS]
            for _ in range(1 + rng.below(2)):
                if cands:
                    i = cands.pop(rng.below(len(cands)))
                    flaky_at[i] = "flaky"
            for i in sorted(flaky_at):
                later = [j for j in cands if j > i]
                if later and rng.chance(1, 2):
                    j = later[rng.below(len(later))]
                    cands.remove(j)
                    flaky_at[j] = ("retry", i)
        made = {}
        for i, n in enumerate(names):
            if flaky_at.get(i) == "flaky":
                m = self.flaky_module(n, [x for k2, x in enumerate(names[:i]) if k2 not in flaky_at])
            elif isinstance(flaky_at.get(i), tuple):
                m = self.retry_module(n, made[flaky_at[i][1]])
                m["retries"] = made[flaky_at[i][1]]["name"]
            else:
                m = self.module(n, [x for k2, x in enumerate(names[:i]) if k2 not in flaky_at] if flaky_at else names[:i],
                                names[i + 1:], "dag" if flavour == "flaky" else flavour)
            made[i] = m
            if n in twin_names:
                # twins are plain, working modules with different initial values
                m["bad"] = False
                with_prologue(m)          # (a module generated as broken had been left without its prologue)
                init = TWIN_INIT + 1000 * i       # distinct per module; no other value of a program is that large
                m["vars"] = [(v, init + j) for j, (v, _) in enumerate(m["vars"])]
                nv = len(m["vars"])
                # nothing in the body of such a module touches its variables (a from-import of x0 would rebind it)
                m["body"] = [x for (v, iv) in m["vars"] for x in (("S", v, iv), ("D", v))]
            mods.append(m)
        # occasionally both extensions exist: the .risor file wins, the .rsr one must never be read
        extra = []
        for m in mods:
            if m["ext"] == b".risor" and rng.chance(1, 10):
                extra.append({"name": m["name"], "ext": b".rsr", "bad": True, "vars": [], "body": []})
        return mods + extra

    def main(self, mods):
        rng = self.rng
        self.sid = 0
        expect = []
        names = [m["name"] for m in mods if m["ext"] != b".rsr" or not m["bad"]]
        mainvars = [(b"x0", 1), (b"x1", 2)]
        acts = [("S", v, i) for v, i in mainvars]
        scope = {}
        n_stmts = 2 + rng.below(7)
        if any(m.get("flaky") for m in mods):
            self.flaky_prefix(mods, scope, acts, expect)
            if rng.chance(1, 3):
                return acts, mainvars, expect        # (a short program: the retry history and its probes only)
        for _ in range(n_stmts):
            r = rng.below(10)
            if r <= 5:
                t = rng.choice(names) if rng.chance(19, 20) else rng.choice(MISSING)
                if rng.chance(1, 5) or (t in MISSING and rng.chance(3, 4)):
                    sc2 = dict(scope)
                    body = [self.import_action(t, sc2, force_alias=True)]
                    for _ in range(rng.below(3)):
                        self.observe(sc2, body, True)
                    acts.append(("T", body))
                else:
                    acts.append(self.import_action(t, scope))
            elif r <= 7:
                self.observe(scope, acts, True)
            elif r == 8:
                self.probe_identity(scope, acts, expect)
            else:
                self.probe_globals(scope, acts, expect)
        if rng.chance(1, 2):
            self.probe_identity(scope, acts, expect)
        if rng.chance(1, 2):
            self.probe_globals(scope, acts, expect)
        if rng.chance(1, 3):
            self.probe_from(mods, scope, acts, expect)
        if rng.chance(1, 2):
            self.probe_thread(scope, acts, expect)
        for pr in getattr(self, "twin_pairs", []):
            if rng.chance(3, 4):
                self.probe_twins(pr, scope, acts, expect)
        for t in getattr(self, "foreign_names", []):
            # a module that exists under ANOTHER import root of the same process, not under this one
            sc2 = {}        # placed anywhere in the program: only its own binding is in scope for certain
            body = [self.import_action(t, sc2, force_alias=True)]
            for _ in range(1 + rng.below(2)):
                self.observe(sc2, body, True)
            acts.insert(len(mainvars) + rng.below(len(acts) - len(mainvars) + 1), ("T", body))
        return acts, mainvars, expect

    def probe_twins(self, pair, scope, acts, expect):
        """two module files whose names differ only by letter case / Unicode form are two modules: each runs its own
        code once and keeps its own x0"""
        rng = self.rng
        n, v = pair if rng.chance(1, 2) else (pair[1], pair[0])
        als = []
        for t in (n, v):
            if all(is_ascii_ident(p) for p in t.split(b"/")):
                al = self.fresh()
                acts.append(("I", t, al, "quoted"))
                scope[al] = ("mod", t)
                als.append((t, al, True))
            else:
                # a non-ASCII name can only be written in dotted from-import form: bind the module's x0
                parts = t.split(b"/")
                al = self.fresh()
                if len(parts) == 1:
                    acts.append(("F", [t], [(b"x0", al)], {"quoted": False, "grouped": False, "nl": False, "trail": False}))
                    scope[al] = ("unk",)
                    als.append((t, al, False))
                else:
                    acts.append(("F", parts[:-1], [(parts[-1], al)], {"quoted": False, "grouped": False, "nl": False, "trail": False}))
                    scope[al] = ("mod", t)
                    als.append((t, al, True))
        (t1, a1, m1), (t2, a2, m2) = als
        p1 = [a1, b"x0"] if m1 else [a1]
        p2 = [a2, b"x0"] if m2 else [a2]
        s1, s2 = self.next_sid(), self.next_sid()
        acts += [("O", p1, s1), ("O", p2, s2)]
        expect.append(("differ-init", s1, s2, "modules %r and %r (different files) show the same initial x0: one module's code ran for both" % (t1, t2)))
        if m1 and m2:
            w = 5000 + rng.below(1000)
            s3, s4 = self.next_sid(), self.next_sid()
            acts += [("C", [a1], b"x0", w), ("O", p1, s3), ("O", p2, s4)]
            expect += [("is", s3, "i:%d" % w, "x0 of module %r does not read back after set_x0" % t1),
                       ("equal", s2, s4, "set_x0 of module %r changed x0 of module %r (a different file)" % (t1, t2))]

    def probe_identity(self, scope, acts, expect):
        rng = self.rng
        mods = [(al, info[1]) for al, info in scope.items() if info[0] == "mod"]
        if not mods:
            return
        al, name = rng.choice(mods)
        same = [a for a, n in mods if n == name and a != al]
        if not same:
            # import the same module again under a new alias
            a2 = self.fresh()
            acts.append(("I", name, a2, "quoted"))
            scope[a2] = ("mod", name)
            same = [a2]
        a2 = rng.choice(same)
        s1, s2, s3, s4 = self.next_sid(), self.next_sid(), self.next_sid(), self.next_sid()
        acts += [("O", [al], s1), ("O", [a2], s2), ("Q", [al], [a2], s3), ("Q", [al, b"x0"], [a2, b"x0"], s4)]
        expect += [("equal", s1, s2, "two aliases of module %r denote different module objects" % name),
                   ("is", s3, "b:true", "two aliases of module %r compare unequal" % name),
                   ("is", s4, "b:true", "two aliases of module %r show different values of x0" % name)]

    def probe_thread(self, scope, acts, expect):
        """a module the program has imported is imported AGAIN by a function running in a spawned thread (any spelling, a new
        alias): within the evaluation that is the same module - no second run of its code (the generic run-once oracle), the
        same module object, the state the program left in it - and what the thread writes through its binding is what
        the program reads afterwards"""
        rng = self.rng
        mods = [(al, info[1]) for al, info in scope.items() if info[0] == "mod"
                and all(is_ascii_ident(p) for p in info[1].split(b"/")) and info[1].split(b"/")[-1] not in VARS]
        if not mods:
            return
        al, name = rng.choice(mods)
        v = b"x0"
        w = 40000 + rng.below(9000)
        w2 = 50000 + rng.below(9000)
        s0, s1, s2, s3, s4, s5, s6 = [self.next_sid() for _ in range(7)]
        c = self.fresh()
        hint = "ident" if (b"/" not in name and rng.chance(1, 2)) else "quoted"
        body = [("I", name, c, hint), ("O", [c], s1), ("Q", [c], [al], s2), ("O", [c, v], s3), ("OG", [c, v], s4)]
        if rng.chance(1, 2):
            c2 = self.fresh()
            body.append(("I", name, c2, "quoted"))
        body += [("C", [c], v, w2)]
        acts += [("C", [al], v, w), ("O", [al], s0), ("TH", body), ("O", [al, v], s5), ("OG", [al, v], s6)]
        what = "module %r, imported by the program, imported again inside a spawned thread: " % name
        expect += [("equal", s0, s1, what + "the thread's binding denotes a different module object"),
                   ("is", s2, "b:true", what + "the thread's binding and the program's compare unequal"),
                   ("is", s3, "i:%d" % w, what + "the thread does not see the value the program wrote (attribute)"),
                   ("is", s4, "i:%d" % w, what + "the thread does not see the value the program wrote (the module's getter)"),
                   ("is", s5, "i:%d" % w2, what + "the program does not see the value the thread wrote (attribute)"),
                   ("is", s6, "i:%d" % w2, what + "the program does not see the value the thread wrote (the module's getter)")]

    def probe_from(self, mods, scope, acts, expect):
        """the same (package, name) imported by a one-name and by a several-name from-import must denote one thing"""
        rng = self.rng
        have = {m["name"] for m in mods}
        # (a module that fails at its first start and completes at a later one is bound by the SECOND statement only: the first
        # falls back to the parent's attribute - by design, the model says the same; no expectation for such modules)
        shaky = unstable_names(mods)
        cands = [m["name"] for m in mods if b"/" in m["name"] and all(is_ascii_ident(p) for p in m["name"].split(b"/"))
                 and b"/".join(m["name"].split(b"/")[:-1]) in have and m["name"] not in shaky
                 and b"/".join(m["name"].split(b"/")[:-1]) not in shaky]
        if not cands:
            return
        t = rng.choice(cands)
        parts = t.split(b"/")
        parents, nm = parts[:-1], parts[-1]
        u, v, w = self.fresh(), self.fresh(), self.fresh()
        other = rng.choice([o for o in (b"x0", b"x1", b"sub", b"a") if o != nm])
        multi = [(other, w), (nm, v)]
        if rng.chance(1, 2):
            multi.reverse()
        single = ("F", parents, [(nm, u)], {"quoted": False, "grouped": rng.chance(1, 2), "nl": False, "trail": False})
        several = ("F", parents, multi, {"quoted": False, "grouped": rng.chance(1, 2), "nl": False, "trail": False})
        first, second = (single, several) if rng.chance(1, 2) else (several, single)
        s1, s2 = self.next_sid(), self.next_sid()
        acts += [first, second, ("O", [u], s1), ("O", [v], s2)]
        scope[u] = ("unk",)
        scope[v] = ("unk",)
        scope[w] = ("unk",)
        expect.append(("equal-from", s1, s2, "`from %s import %s` bound different things in a one-name and in a several-name statement"
                       % (b".".join(parents).decode(), nm.decode())))

    def probe_globals(self, scope, acts, expect):
        rng = self.rng
        mods = [(al, info[1]) for al, info in scope.items() if info[0] == "mod"]
        if not mods:
            return
        al, name = rng.choice(mods)
        others = [a for a, n in mods if n != name]
        al2 = rng.choice(others) if others else None
        v = 1000 + rng.below(1000)
        w = 3000 + rng.below(1000)

        def reads():
            ids = [self.next_sid(), self.next_sid()]
            acts.append(("O", [al, b"x0"], ids[0]))
            acts.append(("O", [b"x0"], ids[1]))
            if al2 is not None:
                ids.append(self.next_sid())
                acts.append(("O", [al2, b"x0"], ids[2]))
            return ids
        r0 = reads()
        acts.append(("S", b"x0", v))
        r1 = reads()
        acts.append(("C", [al], b"x0", w))
        r2 = reads()
        expect += [("equal", r0[0], r1[0], "assigning the importer's x0 changed x0 of module %r" % name),
                   ("is", r1[1], "i:%d" % v, "the importer's own x0 does not read back"),
                   ("is", r2[0], "i:%d" % w, "x0 of module %r does not read back after set_x0" % name),
                   ("is", r2[1], "i:%d" % v, "set_x0 of module %r changed the importer's x0" % name)]
        if al2 is not None:
            expect += [("equal", r0[2], r1[2], "assigning the importer's x0 changed x0 of another module"),
                       ("equal", r1[2], r2[2], "set_x0 of module %r changed x0 of another module" % name)]


# ---- sentinels: files outside the import root that must never be read or run

def sentinel_files(mods):
    files = {}
    sid = 0
    labels = {}
    cands = set()
    for m in mods:
        n = m["name"].decode("utf-8", "replace")
        cands.add(n)
        cands.add(n.split("/")[-1])
    cands |= {"esc", "a", "x0", "pkg/a"}
    for n in sorted(cands):
        for up in ("outer", "", "outer/other"):
            for ext in (".risor", ".rsr"):
                sid += 1
                rel = os.path.normpath(os.path.join(up, n + ext))
                labels[sid] = rel
                files[rel] = ("tick(-1, %d)\nx0 := 666\n" % sid).encode()
    return files, labels


# ------------------------------------------------------------------ stage A: texts

HOSTILE_VALUES = [b"../esc", b"..", b".", b"a/..", b"a/../esc", b"../a", b"../../esc", b"pkg/../../esc", b"/esc",
                  b"//esc", b"a//b", b"a/", b"/a", b"", b"./a", b"a/./b", b"a\x00", b"a b", b"a.b", b"a..b", b"...",
                  b"a\nb", b"a\\b", b"..\\esc", b"~/a", b"%2e%2e/esc", b"a/%2e%2e/esc", "a/\u2215../esc".encode(),
                  "\uff0e\uff0e/esc".encode(), b'"a"', b'"../esc"', b'"/esc', b'a/"', b'""', b'"', b'"a/b"',
                  b'""a""', b'a"b', b'"a"/b', b"C:/esc", b"a:b", b"@CASEDIR@/esc", b"@CASEDIR@/outer/esc",
                  b"outer/esc", b"a\xffb", b"\xc0\xae\xc0\xae/esc", b"a/..a", b"..a", b"a..", b"a/b/c/d/e/f/g/h",
                  b"pkg/a", b"pkg/sub/a", b"a", b"_", b"_1", b"9a", b"a9", b"A/B", b"a-b", b"a+b", b"a/b.risor",
                  b"a.risor", b"pkg/a.rsr", b"esc", b"x" * 300, b"a/" * 40 + b"a", b"../" * 40 + b"esc", b"a\r", b"a\t",
                  b" a", b"a ", b"\x01", b"{a}", b"a{1}", b"$a", b"\xe9", "\u00e9".encode(), "pkg/\u00e9".encode()]

RAW_TEXTS = [
    "import a.b", "import a/b", "import ../a", "import .a", "import a.", "import", "import 1", "import a as",
    "import a as 1", "import a as \"b\"", "import 'a'", "import `a`", "import `../esc`", "import '../esc'",
    "from a import", "from a", "from import a", "from a.b", "from a..b import c", "from .a import b", "from a. import b",
    "from a.b/c import d", "from a/b import c", "from ../a import b", "from a import ../b", "from a import \"b\"",
    "from a import b.c", "from a import (b", "from a import (b,", "from a import ()", "from a import (,)",
    "from a import (x0,)", "from a import (\nx0,\nx1\n)", "from a import (\n\n x0 as y ,\n)", "from a import x0,",
    "from a import x0 as", "from a import x0 as y as z", "from \"a\" import x0", "from \"../esc\" import x0",
    "from \"pkg\" import a", "from \"pkg\".sub import a", "from pkg.\"sub\" import a", "from 'pkg' import a",
    "from pkg.sub.a import x0", "from pkg.sub import a as q, a as r", "from pkg import (a, b, sub)",
    "from pkg import a\nfrom pkg import a as z\nimport \"pkg/a\" as w", "import a; import a as b2; import \"a\" as c2",
    "import a as a", "import \u00e9", "from \u00e9 import x0", "from pkg.\u00e9 import x0", "from a\u00e9 import x0",
    "import a\u00e9", "from as import x0", "from a.as import x0", "import as", "import a as as",
    "from a import as", "import import", "from from import a", "from a import import", "import \"a\" \"b\"",
    "import \"a\", \"b\"", "import (a)", "import \"a\\", "import \"a", "from \"a import x0", "import \"\\q\"",
    "import \"\\x2e\\x2e/esc\"", "import \"\\u002e\\u002e/esc\"", "import \"\\056\\056\\057esc\"", "import \"a\\057b\"",
    "import \"\\057esc\"", "import \"a\\000\"", "import \"pkg\\x2fa\"", "import \"pkg/\\141\"", "import \"\\\"a\\\"\"",
    "import \"\\\"\\\"q\\\"\"", "import \"\\\"q\\\"\" as qq", "func f() { import a }; f()", "func f() { from pkg import a }; f()",
    "if true { import a }", "for i := 0; i < 2; i++ { import a }", "x := import a", "import a + 1",
]


VALID_VALUES = [b"a", b"b", b"pkg", b"pkg/a", b"pkg/b", b"pkg/sub", b"pkg/sub/a", b"pkg/x0", b"A/B", b"_", b'"q"', b'"a"',
                b"bad", b"nope", b"pkg/nope", b"a/b", b"zz/y/x", b"pkg/sub/a/x0", b"a1/b2/c3", b"__a__", b"Z9"]


def hostile_texts(rng, n):
    out = list(RAW_TEXTS)
    for v in VALID_VALUES:
        out.append("import " + lit(rng, v, plain=True))
        out.append("from " + lit(rng, v, plain=True) + " import x0")
    for v in HOSTILE_VALUES:
        out.append("import " + lit(rng, v, plain=True))
        out.append("from " + lit(rng, v, plain=True) + " import x0")
    while len(out) < n:
        v = rng.choice(VALID_VALUES) if rng.chance(2, 5) else rng.choice(HOSTILE_VALUES)
        if rng.chance(1, 4):
            # mutate: splice two values / insert a dangerous piece
            w = rng.choice(HOSTILE_VALUES)
            k = rng.below(len(v) + 1)
            v = v[:k] + rng.choice([b"/", b"..", b"/../", b".", b"\"", b"", b"\x00", b"//"]) + w[rng.below(len(w) + 1):]
        f = rng.below(8)
        if f == 0:
            t = "import " + lit(rng, v)
        elif f == 1:
            t = "import " + lit(rng, v) + " as zz"
        elif f == 2:
            t = "from " + lit(rng, v) + " import x0"
        elif f == 3:
            t = "from " + lit(rng, v) + " import (x0 as y,\n a)"
        elif f == 4:
            # dotted spelling from the raw bytes when they can be written at all
            try:
                parts = [p.decode("utf-8") for p in v.split(b"/")]
                t = "from " + ".".join(parts) + " import x0"
            except UnicodeDecodeError:
                t = "import " + lit(rng, v)
        elif f == 5:
            try:
                t = "import " + v.decode("utf-8")
            except UnicodeDecodeError:
                t = "import " + lit(rng, v)
        elif f == 6:
            try:
                t = "from pkg import " + v.decode("utf-8")
            except UnicodeDecodeError:
                t = "from pkg import a"
        else:
            t = "from a import x0\nimport " + lit(rng, v) + "\nimport b"
        if "\n" in t and f not in (3, 7):
            t = t.replace("\n", " ")
        out.append(t)
    return out[:n]


FIXED_TREE = [
    {"name": b"a", "ext": b".risor", "bad": False, "vars": [(b"x0", 10), (b"x1", 11)], "body": [("S", b"x0", 10), ("S", b"x1", 11)]},
    {"name": b"b", "ext": b".rsr", "bad": False, "vars": [(b"x0", 20)], "body": [("S", b"x0", 20), ("I", b"a", None, "ident")]},
    {"name": b"pkg", "ext": b".risor", "bad": False, "vars": [(b"x0", 30), (b"x1", 31)], "body": [("S", b"x0", 30), ("S", b"x1", 31)]},
    {"name": b"pkg/a", "ext": b".risor", "bad": False, "vars": [(b"x0", 40)], "body": [("S", b"x0", 40)]},
    {"name": b"pkg/b", "ext": b".risor", "bad": False, "vars": [(b"x0", 50)], "body": [("S", b"x0", 50), ("X",)]},
    {"name": b"pkg/sub", "ext": b".risor", "bad": False, "vars": [(b"x0", 60)], "body": [("S", b"x0", 60)]},
    {"name": b"pkg/sub/a", "ext": b".risor", "bad": False, "vars": [(b"x0", 70)], "body": [("S", b"x0", 70)]},
    {"name": b"pkg/x0", "ext": b".risor", "bad": False, "vars": [(b"x0", 80)], "body": [("S", b"x0", 80)]},
    {"name": b"A/B", "ext": b".risor", "bad": False, "vars": [(b"x0", 90)], "body": [("S", b"x0", 90)]},
    {"name": "\u00e9".encode(), "ext": b".risor", "bad": False, "vars": [(b"x0", 95)], "body": [("S", b"x0", 95)]},
    {"name": b'"q"', "ext": b".risor", "bad": False, "vars": [(b"x0", 96)], "body": [("S", b"x0", 96)]},
    {"name": b'"a"', "ext": b".risor", "bad": False, "vars": [(b"x0", 97)], "body": [("S", b"x0", 97)]},
    {"name": b"_", "ext": b".risor", "bad": False, "vars": [(b"x0", 98)], "body": [("S", b"x0", 98)]},
    {"name": b"bad", "ext": b".risor", "bad": True, "vars": [], "body": []},
]


for _m in FIXED_TREE:
    with_prologue(_m)


def unh(tok):
    assert tok.startswith("h:")
    return bytes.fromhex(tok[2:])


def ast_to_actions(sx):
    """(prog stmt...) as produced by astobs / the parser model -> abstract actions; None if it has other statements"""
    from lib import sexp
    try:
        t = sexp.parse_sexp(sx)
    except Exception:
        return None
    if not isinstance(t, list) or not t or t[0] != "prog":
        return None
    acts = []
    for st in t[1:]:
        if not isinstance(st, list) or not st:
            return None
        if st[0] == "import":
            acts.append(("I", unh(st[1]), None if st[2] == "_" else unh(st[2]), "quoted"))
        elif st[0] == "fromimport":
            parents = [unh(x) for x in st[1][1:]]
            imports = [(unh(i[0]), None if i[1] == "_" else unh(i[1])) for i in st[2][1:]]
            acts.append(("F", parents, imports, {}))
        else:
            return None
    return acts


# ------------------------------------------------------------------ running

def tree_files(rng, mods, with_sentinels=True, root=ROOT, idx_base=0):
    files = {}
    idx = {}
    for i, m in enumerate(mods):
        idx[idx_base + i] = m["name"]
        rel = root + "/" + m["name"].decode("utf-8", "surrogateescape") + m["ext"].decode()
        files[rel] = render_module(rng, m, idx_base + i).encode()
    labels = {}
    if with_sentinels:
        sf, labels = sentinel_files(mods)
        for k, v in sf.items():
            if not k.startswith(root + "/"):
                files[k] = v
    return files, idx, labels


def run_go(obs, cases, work, tag):
    """cases: list of dict(files, root, rootarg, mains[text bytes]) -> list of list of outputs (one per main).
    The work is cut into small jobs (a few main programs each) scheduled dynamically over the cores, because
    a runaway import cycle costs a thousand times more than an ordinary program."""
    units = []
    for ci, c in enumerate(cases):
        step = len(c["mains"]) if c.get("whole") else 3      # a history of evaluations in ONE process stays in one piece
        for lo in range(0, len(c["mains"]), max(step, 1)):
            units.append((ci, lo, min(len(c["mains"]), lo + step)))
    per_job = max(1, len(units) // (C.NCPU * 8))
    jobs = [units[i:i + per_job] for i in range(0, len(units), per_job)]

    def one(k):
        fin = os.path.join(work, "%s_go_%d.in" % (tag, k))
        with open(fin, "w") as f:
            for ci, lo, hi in jobs[k]:
                c = cases[ci]
                j = {"files": {p: b.hex() for p, b in c["files"].items()}, "root": c["root"],
                     "rootarg": c.get("rootarg", ""), "mains": [m.hex() for m in c["mains"][lo:hi]]}
                if c.get("roots"):
                    j.update({"roots": c["roots"], "mainroot": c["mainroot"][lo:hi],
                              "mainrootarg": c.get("mainrootarg", [""] * len(c["mains"]))[lo:hi],
                              "sharelocal": bool(c.get("sharelocal"))})
                f.write(json.dumps(j) + "\n")
        env = dict(os.environ)
        env["TMPDIR"] = work
        with open(fin, "rb") as i:
            p = subprocess.run([obs], stdin=i, stdout=subprocess.PIPE, stderr=subprocess.PIPE, env=env, timeout=3000)
        os.unlink(fin)
        if p.returncode != 0:
            raise RuntimeError("c14obs failed: " + p.stderr.decode("utf-8", "replace")[-2000:])
        lines = p.stdout.decode("utf-8", "replace").splitlines()
        outs = []
        pos = 0
        for ci, lo, hi in jobs[k]:
            outs.append((ci, lo, [json.loads(x) for x in lines[pos:pos + hi - lo]]))
            pos += hi - lo
        return outs

    with ThreadPoolExecutor(max_workers=C.NCPU) as ex:
        res = list(ex.map(one, range(len(jobs))))
    out = [[None] * len(c["mains"]) for c in cases]
    for part in res:
        for ci, lo, outs in part:
            for j, o in enumerate(outs):
                out[ci][lo + j] = o
    return out


def run_model(model, lines, work, tag):
    shards = max(1, min(C.NCPU, len(lines) // 50 + 1))
    bounds = [(i * len(lines) // shards, (i + 1) * len(lines) // shards) for i in range(shards)]

    def one(b):
        lo, hi = b
        if lo == hi:
            return []
        p = subprocess.run([model], input=("\n".join(lines[lo:hi]) + "\n").encode(), stdout=subprocess.PIPE,
                           stderr=subprocess.PIPE, timeout=1500)
        if p.returncode != 0:
            raise RuntimeError("model_importer failed: " + p.stderr.decode("utf-8", "replace")[-2000:])
        return p.stdout.decode().splitlines()

    with ThreadPoolExecutor(max_workers=shards) as ex:
        parts = list(ex.map(one, bounds))
    out = []
    for p in parts:
        out += p
    return out


# ------------------------------------------------------------------ canonical events

def parse_real(events, idx, foreign=None):
    """real events -> canonical tuples; module object ordinals renumbered by first appearance.
    foreign: tick index -> file label of the module files under the OTHER import roots of the same process; a body of
    such a file running in this evaluation is an escape from the import root"""
    out = []
    for e in events:
        if foreign and e[:2] in ("S:", "D:") and int(e[2:].split("@")[0].split(":")[0]) in foreign:
            if e.startswith("S:"):
                out.append(("ESC", "module file " + foreign[int(e[2:].split("@")[0].split(":")[0])] +
                            " of another import root (used by another evaluation of the same process)"))
            continue
        if e.startswith("S:"):
            body, d = e[2:].split("@")
            i, k = body.split(":")
            out.append(("S", idx.get(int(i), b"?%d" % int(i)), int(k), int(d)))
        elif e.startswith("D:"):
            i, d = e[2:].split("@")
            out.append(("D", idx.get(int(i), b"?"), int(d)))
        elif e.startswith("O:"):
            v, rest = e[2:].rsplit("@", 1)
            d, sid = rest.split("#")
            out.append(("O", v, int(d), int(sid)))
        elif e.startswith("R:"):
            f = e[2:].split(":")
            out.append(("R", bytes.fromhex(f[0]), f[1], bytes.fromhex(f[2]) if len(f) > 2 else b""))
        elif e.startswith("F:"):
            f = e[2:].split(":")
            out.append(("F", bytes.fromhex(f[0]), f[1]))
        elif e.startswith("ESC:"):
            out.append(("ESC", int(e[4:])))
        else:
            out.append(("?", e))
    return out


def parse_model(line):
    f = line.split(" | ")
    outcome = f[0].strip()
    evs = []
    for e in (f[1].split() if len(f) > 1 else []):
        if e.startswith("S:"):
            body, d = e[2:].split("@")
            n, k = body.split(":")
            evs.append(("S", unhx(n), int(k), int(d)))
        elif e.startswith("D:"):
            n, d = e[2:].split("@")
            evs.append(("D", unhx(n), int(d)))
        elif e.startswith("O:"):
            v, d = e[2:].rsplit("@", 1)
            evs.append(("O", v, int(d)))
        elif e.startswith("R:"):
            g = e[2:].split(":")
            if g[1] == "found":
                evs.append(("R", unhx(g[0]), "found", unhx(g[2]), g[3] == "1", unhx(g[4])))
            elif g[1] == "bad":
                evs.append(("R", unhx(g[0]), "bad", unhx(g[2])))
            else:
                evs.append(("R", unhx(g[0]), "notfound"))
    counters = {}
    for c in (f[2].split() if len(f) > 2 else []):
        g = c.split(":")
        counters[unhx(g[0])] = tuple(int(x) for x in g[1:])
    flags = (f[3].strip() if len(f) > 3 else "").split()
    acc = flags[0] if flags else ""
    if "fuzzy=1" in flags:
        outcome = "FUZZY"
    return outcome, evs, counters, acc


def unhx(s):
    return b"" if s == "-" else bytes.fromhex(s)


def renumber(vals):
    """m:<name>#<id> -> ids by first appearance"""
    seen = {}
    out = []
    for v in vals:
        if v.startswith("m:"):
            nm, _, i = v.rpartition("#")
            key = (nm, i)
            if key not in seen:
                seen[key] = len(seen)
            out.append("%s#%d" % (nm, seen[key]))
        else:
            out.append(v)
    return out


ERRMAP_REAL = {"parse": "compile", "compile": "compile"}
ERRMAP_MODEL = {"notmodule": "attr"}


def expected_views(mevs, ext_order=EXTS):
    """from the model's events: the expected event lists of the three routes (without module-id renumbering)"""
    plain, local, fsr = [], [], []
    for e in mevs:
        if e[0] in ("S", "D"):
            plain.append(e)
            local.append(e)
            fsr.append(e)
        elif e[0] == "O":
            plain.append(e)
            local.append(e)
            fsr.append(e)
        elif e[0] == "R":
            n = e[1]
            if e[2] == "found":
                ext, fresh, lf = e[3], e[4], e[5]
                local.append(("R", n, "found", lf))
                if fresh:
                    for x in ext_order:
                        if x == ext:
                            fsr.append(("F", n + x, "ok"))
                            break
                        fsr.append(("F", n + x, "miss"))
                fsr.append(("R", n, "found", n + ext))
            elif e[2] == "bad":
                ext = e[3]
                local.append(("R", n, "bad", b""))
                for x in ext_order:
                    if x == ext:
                        fsr.append(("F", n + x, "ok"))
                        break
                    fsr.append(("F", n + x, "miss"))
                fsr.append(("R", n, "bad", b""))
            else:
                local.append(("R", n, "notfound", b""))
                for x in ext_order:
                    fsr.append(("F", n + x, "miss"))
                fsr.append(("R", n, "notfound", b""))
    return plain, local, fsr


def strip_sid(evs):
    return [e[:3] if e[0] == "O" else e for e in evs]


def strip_depth(evs):
    out = []
    for e in evs:
        if e[0] == "S":
            out.append(e[:3])
        elif e[0] == "D":
            out.append(e[:2])
        elif e[0] == "O":
            out.append(e[:2])
        else:
            out.append(e)
    return out


def canon(evs):
    vals = renumber([e[1] for e in evs if e[0] == "O"])
    out = []
    k = 0
    for e in evs:
        if e[0] == "O":
            out.append(("O", vals[k]) + tuple(e[2:]))
            k += 1
        else:
            out.append(e)
    return out


# ------------------------------------------------------------------ the oracle (on real observations only)

def comps_ok(b):
    parts = b.split(b"/")
    return all(p not in (b"", b".", b"..") and b"\x00" not in p for p in parts)


def unstable_names(mods):
    """names of modules whose body may fail at one start and complete at a later one (a block that depends on the ordinal of
    the start - `if __n == k` -, directly or in a module they import): what an import statement of such a module binds
    depends on how often the import was attempted before"""
    def walk(acts, reqs, flag):
        for a in acts:
            if a[0] == "I":
                reqs.add(a[1])
            elif a[0] == "F":
                par = b"/".join(a[1])
                reqs.add(par)
                for n, _ in a[2]:
                    reqs.add(par + b"/" + n)
            elif a[0] in ("T", "TH"):
                walk(a[1], reqs, flag)
            elif a[0] == "R":
                flag.append(True)
                walk(a[2], reqs, flag)
    g, bad = {}, set()
    for m in mods:
        if m["bad"]:
            continue
        reqs, flag = set(), []
        walk(m["body"], reqs, flag)
        g.setdefault(m["name"], set()).update(reqs)
        if flag:
            bad.add(m["name"])
    changed = True
    while changed:
        changed = False
        for n, rs in g.items():
            if n not in bad and rs & bad:
                bad.add(n)
                changed = True
    return bad


def static_cycle_names(mods):
    """names of modules that lie on a cycle of the static import graph (class predicate of the known finding)"""
    def reqs(acts, out):
        for a in acts:
            if a[0] == "I":
                out.add(a[1])
            elif a[0] == "F":
                par = b"/".join(a[1])
                out.add(par)
                for n, _ in a[2]:
                    out.add(par + b"/" + n)
            elif a[0] in ("T", "TH"):
                reqs(a[1], out)
            elif a[0] == "R":
                reqs(a[2], out)
    g = {}
    for m in mods:
        if m["bad"]:
            continue
        s = set()
        reqs(m["body"], s)
        g.setdefault(m["name"], set()).update(s)
    cyc = set()
    for n in g:
        seen = set()
        stack = list(g[n])
        while stack:
            x = stack.pop()
            if x == n:
                cyc.add(n)
                break
            if x in seen:
                continue
            seen.add(x)
            stack += list(g.get(x, ()))
    return cyc


def oracle(route, evs, err, labels, expect, cyc_names, root=ROOT):
    """returns list of (kind, why, known_class or None)"""
    viol = []
    root_parts = root.split("/")
    stack = []          # module bodies in progress (names), index = import depth - 1
    completed = set()
    failed_or_done = {}
    ids = {}
    depth_ok = True
    main_obs = {}
    reentered = set()
    for e in evs:
        if e[0] == "ESC":
            viol.append(("confinement", "a file outside the import root was executed: %s" % labels.get(e[1], e[1]), None))
        elif e[0] == "R":
            if not comps_ok(e[1]):
                viol.append(("confinement", "module name %r handed to the importer has an empty/dot component" % e[1], None))
            if e[2] == "found" and route == "local":
                parts = e[3].decode("utf-8", "surrogateescape").split("/")
                if parts[:len(root_parts)] != root_parts or ".." in parts or e[3].startswith(b"/"):
                    viol.append(("confinement", "module code was read from %r, outside the import root" % e[3], None))
        elif e[0] == "F":
            nm = e[1]
            if nm.startswith(b"/") or not comps_ok(nm):
                viol.append(("confinement", "the importer opened %r on the source filesystem" % nm, None))
        elif e[0] == "S":
            _, n, k, d = e
            if d <= 0:
                depth_ok = False      # the harness could not determine import depths (marker function not found)
            if depth_ok:
                del stack[max(d - 1, 0):]
                if n in stack:
                    reentered.add(n)
                    viol.append(("once", "the body of module %r was started again while it was still running" % n,
                                 None))
                elif n in completed:
                    viol.append(("once", "the body of module %r was run again after it had completed" % n,
                                 None))
                stack.append(n)
            elif n in completed:
                viol.append(("once", "the body of module %r was run again after it had completed" % n,
                             None))
        elif e[0] == "D":
            _, n, d = e
            if depth_ok:
                del stack[d:]
                if stack and stack[-1] == n:
                    stack.pop()
            if n in completed:
                viol.append(("once", "the body of module %r completed twice" % n,
                             None))
            completed.add(n)
        elif e[0] == "O":
            v, d, sid = e[1], e[2], e[3]
            if depth_ok:
                del stack[d:]
            if v.startswith("m:"):
                nm, _, i = v.rpartition("#")
                if nm in ids and ids[nm] != i:
                    n = bytes.fromhex(nm[2:]) if nm[2:] != "" else b""
                    viol.append(("same-object", "module %r was observed as two different module objects" % n,
                                 None))
                ids.setdefault(nm, i)
            if sid > 0:
                main_obs[sid] = v
    for ex in expect:
        if ex[0] == "equal":
            if ex[1] in main_obs and ex[2] in main_obs and main_obs[ex[1]] != main_obs[ex[2]]:
                viol.append(("state", "%s (%s vs %s)" % (ex[3], main_obs[ex[1]], main_obs[ex[2]]), None))
        elif ex[0] == "equal-from":
            if ex[1] in main_obs and ex[2] in main_obs and main_obs[ex[1]] != main_obs[ex[2]]:
                viol.append(("from-binding", "%s (%s vs %s)" % (ex[3], main_obs[ex[1]], main_obs[ex[2]]), None))
        elif ex[0] == "differ-init":
            # both values are initial values of near-duplicate modules (each module of such a pair starts from its own
            # value >= TWIN_INIT; nothing else in a program is that large): equal means one code object ran for both
            a, b = main_obs.get(ex[1], ""), main_obs.get(ex[2], "")
            if a == b and a.startswith("i:") and int(a[2:]) >= TWIN_INIT:
                viol.append(("state", "%s (both %s)" % (ex[3], a), None))
        elif ex[0] == "is":
            if ex[1] in main_obs and main_obs[ex[1]] != ex[2]:
                viol.append(("state", "%s (observed %s, expected %s)" % (ex[3], main_obs[ex[1]], ex[2]), None))
    if err in ("GOPANIC", "panic-other", "timeout"):
        viol.append(("crash", "evaluation ended with %s" % err, None))
    return viol, depth_ok


# other import roots used beside ROOT by the histories of evaluations in one process: a sibling whose name extends
# ROOT's name, a sibling directory, a directory elsewhere (none inside another)
MULTI_ROOTS = [["outer/rootb", "outer/root2", "outer/other/root"], ["tenants/b", "srv/imports", "outer/root.bak"]]


def fs_case_sensitive(work):
    p = os.path.join(work, "CaseProbe")
    try:
        open(p, "w").close()
        return not os.path.exists(os.path.join(work, "caseprobe"))
    except OSError:
        return True
    finally:
        try:
            os.unlink(p)
        except OSError:
            pass


# ------------------------------------------------------------------ witnesses: a module variable declared again in a block
# (finding module-attribute-resolves-to-inner-block-slot, repaired in /repo 28c8679: all six programs are strict cases; should
# the class ever be listed as open again in a known_findings file, the in-class ones are reported as KNOWN-FINDING)

SHADOW_CLASS = "module-attribute-inner-block-slot"


def block_redeclares(src):
    """Class predicate of the recorded finding, decided on a module's source text: a name the module declares at the top level
    of its code (`name :=`, a from-import / import binding) is declared AGAIN inside a nested block of that top-level code
    (if / for body; function bodies are locals and do not count)."""
    import re
    top, inner = set(), set()
    stack = []      # kinds of the open braces: "func" or "block"
    for line in src.split("\n"):
        t = line.strip()
        names = re.findall(r"^([A-Za-z_][A-Za-z0-9_]*)\s*:=", t)
        m = re.match(r"^from\s+\S+\s+import\s+\(?(.*?)\)?$", t)
        if m:
            for it in m.group(1).split(","):
                it = it.strip()
                if it:
                    names.append(it.split(" as ")[-1].strip())
        m = re.match(r"^import\s+(\S+)(?:\s+as\s+(\S+))?$", t)
        if m:
            names.append(m.group(2) or m.group(1).strip('"').split("/")[-1])
        m = re.match(r"^for\s+([A-Za-z_][A-Za-z0-9_]*)\s*:=", t)
        where = inner if ("block" in stack and "func" not in stack) else (top if not stack else None)
        if where is not None:
            where.update(names)
        for ch in t:
            if ch == "{":
                stack.append("func" if re.search(r"\bfunc\b", t) else "block")
            elif ch == "}" and stack:
                stack.pop()
    return bool(top & inner)


def shadow_witnesses():
    """-> list of (module files {name: text}, main text, expectations); three programs of the class and three controls"""
    head = "__n := tick(%d, 0)\nx1 := 5\nfunc set_x1(v) { x1 = v }\nfunc get_x1() { return x1 }\n"
    main = "import %s as m\nobs(m.x1, 1)\nobs(m.get_x1(), 2)\nm.set_x1(41)\nobs(m.x1, 3)\nobs(m.get_x1(), 4)\n"
    exp = lambda n: [("equal", 1, 2, "module %r: the attribute x1 and the module's own function get_x1() show different values" % n),
                     ("is", 3, "i:41", "module %r: x1 does not read back through the attribute after set_x1" % n),
                     ("is", 4, "i:41", "module %r: x1 does not read back through get_x1() after set_x1" % n)]
    other = "__n := tick(9, 0)\nx1 := 77\ntick(9, 1)\n"
    bodies = [
        ("shadowa", "if false {\n  x1 := 7\n}\n"),                         # the block does not run: the attribute is a Go nil
        ("shadowb", "if true {\n  x1 := 7\n}\n"),                          # it runs: attribute 7, function 5
        ("shadowc", "if __n == 2 {\n  from other import (x1)\n}\n"),      # a from-import inside the block
        ("plaina", "if false {\n  y1 := 7\n}\n"),                          # controls: another name / no block / a function body
        ("plainb", "y1 := 7\n"),
        ("plainc", "func f() {\n  x1 := 7\n  return x1\n}\nf()\n"),
    ]
    out = []
    for i, (n, b) in enumerate(bodies):
        out.append(({n + ".risor": head % i + b + "tick(%d, 1)\n" % i, "other.risor": other}, main % n, exp(n), n))
    return out


# ------------------------------------------------------------------ the check

def build_all(res):
    obs, err = C.go_build("c14obs")
    if not obs:
        res.violation({"property": PROP, "kind": "harness-build-failed", "stage": "go build c14obs", "log": err[-3000:]},
                      nofail=True, tag="build")
        return None
    tools = core.build(res, PROP, go_tools=["astobs"], models=[("parser", "ExtractParser.v", "parser_driver.ml")])
    if tools is None:
        return None
    tools["c14obs"] = obs
    return tools


def run(res):
    tools = build_all(res)
    if tools is None:
        return
    proved = C.prove(res, PROP)
    if proved and res.tier == "thorough":
        if not C.coqchk(res, PROP):
            proved = False
            res.broken = {"log_tail": "coqchk rejected the .vo closure: " + res.coverage.get("coqchk", {}).get("tail", ""), "errors": []}
    model, err = C.build_extracted("importer", "ExtractImporter.v", "importer_driver.ml")
    if not model:
        res.violation({"property": PROP, "kind": "model-build-failed", "stage": "extraction", "log": err[-3000:],
                       "broken": getattr(res, "broken", None)}, nofail=True, tag="extract")
        return
    tools["model_importer"] = model
    os.makedirs(C.WORK, exist_ok=True)
    work = tempfile.mkdtemp(prefix="c14-", dir=C.WORK)
    try:
        body(res, tools, work, proved)
    finally:
        shutil.rmtree(work, ignore_errors=True)


def witness_cases():
    """corpus: the witnesses of C14_cycle_rejected / C14_from_binding_example (the two repaired defects), the retry
    example and the probes of the design round"""
    selfi = {"name": b"selfi", "ext": b".risor", "bad": False, "vars": [(b"x0", 5)],
             "body": [("S", b"x0", 5), ("R", 1, [("I", b"selfi", b"inner", "ident"), ("O", [b"inner", b"x0"], -1)])]}
    cyc1 = {"name": b"cyc1", "ext": b".risor", "bad": False, "vars": [(b"x0", 1)], "body": [("S", b"x0", 1), ("I", b"cyc2", None, "ident")]}
    cyc2 = {"name": b"cyc2", "ext": b".risor", "bad": False, "vars": [(b"x0", 2)], "body": [("S", b"x0", 2), ("I", b"cyc1", None, "ident")]}
    badm = {"name": b"bad", "ext": b".risor", "bad": False, "vars": [(b"x0", 3)], "body": [("S", b"x0", 3), ("X",)]}
    pkg = {"name": b"pkg", "ext": b".risor", "bad": False, "vars": [(b"x0", 4), (b"x1", 5)],
           "body": [("S", b"x0", 4), ("S", b"x1", 5)]}
    pbad = {"name": b"pkg/x0", "ext": b".risor", "bad": False, "vars": [(b"x0", 6)], "body": [("S", b"x0", 6), ("X",)]}
    a = {"name": b"a", "ext": b".risor", "bad": False, "vars": [(b"x0", 10)], "body": [("S", b"x0", 10)]}
    pb = {"name": b"pkg/b", "ext": b".risor", "bad": False, "vars": [(b"x0", 50)], "body": [("S", b"x0", 50)]}
    mods = [with_prologue(m) for m in (selfi, cyc1, cyc2, badm, pkg, pbad, a, pb)]
    mv = [(b"x0", 1), (b"x1", 2)]
    pre = [("S", b"x0", 1), ("S", b"x1", 2)]
    mains = [
        (pre + [("I", b"selfi", None, "ident"), ("O", [b"selfi"], 1), ("O", [b"selfi", b"x0"], 2)], mv, []),
        (pre + [("I", b"cyc1", None, "ident")], mv, []),
        (pre + [("T", [("I", b"bad", b"u", "ident")]), ("T", [("I", b"bad", b"v", "ident")])], mv, []),
        (pre + [("F", [b"pkg"], [(b"x0", b"y")], {}), ("O", [b"y"], 1), ("F", [b"pkg"], [(b"x0", b"z")], {}), ("O", [b"z"], 2)], mv, []),
        (pre + [("I", b"a", None, "ident"), ("I", b"a", b"a2", "quoted"), ("F", [b"a"], [(b"x0", b"ax")], {}),
                ("O", [b"a"], 1), ("O", [b"a2"], 2), ("Q", [b"a"], [b"a2"], 3), ("O", [b"ax"], 4)], mv,
         [("equal", 1, 2, "two aliases of module b'a' denote different module objects"), ("is", 3, "b:true", "aliases unequal")]),
        (pre + [("F", [b"pkg"], [(b"b", b"w")], {}), ("F", [b"pkg"], [(b"x1", b"u"), (b"b", b"v")], {"grouped": True}),
                ("O", [b"w"], 1), ("O", [b"v"], 2)], mv,
         [("equal-from", 1, 2, "`from pkg import b` bound different things in a one-name and in a several-name statement")]),
    ]
    return mods, mains


def body(res, tools, work, proved):
    tier = res.tier
    rng = C.Rng(res.seed)
    cov = res.coverage
    n_texts = 700 if tier == "quick" else 30000
    n_trees = 120 if tier == "quick" else 1000
    mains_per_tree = 6 if tier == "quick" else 10
    known = load_known()
    known_classes = {k.get("class"): k for k in known if k.get("class")}

    corr_diffs = []
    oracle_viol = []
    known_hits = {}
    samples = []
    stats = {"texts": 0, "texts_parsed": 0, "texts_rejected": 0, "texts_model_unsupported": 0, "text_ast_diffs": 0,
             "programs": 0, "routes": 0, "model_fuel": 0, "model_unbound": 0, "model_fuzzy": 0, "no_depth": 0,
             "err_classes": {}, "spellings": {}, "cycle_cases": 0, "retry_cases": 0}
    nontrivial = set()
    evals = 0

    def note_viol(route, v, case):
        kind, why, cls = v
        if cls is not None and cls in known_classes:
            known_hits.setdefault(cls, {}).setdefault(why, 0)
            known_hits[cls][why] += 1
        else:
            d = dict(case)
            d.update({"property": PROP, "kind": "oracle-violation", "route": route, "aspect": kind, "why": why})
            oracle_viol.append(d)

    C.log("C14: proofs and tools ready")
    # ---------------- stage A: texts
    texts = hostile_texts(rng, n_texts)
    stats["texts"] = len(texts)
    st = core.stages(texts, tools, os.path.join(work, "stA"), want=("past",))
    if st["_problems"]:
        res.notes.append("parser stage problems: %s" % st["_problems"][:3])
    fixed_files, fixed_idx, fixed_labels = tree_files(rng, FIXED_TREE)
    fixed_cyc = static_cycle_names(FIXED_TREE)
    srcs = [t.encode("utf-8", "surrogateescape") for t in texts]
    chunks = [srcs[i:i + 200] for i in range(0, len(srcs), 200)]
    go_out = run_go(tools["c14obs"], [{"files": fixed_files, "root": ROOT, "mains": ch} for ch in chunks], work, "stA")
    go_flat = [o for ch in go_out for o in ch]
    model_lines = []
    model_for = {}
    for i, t in enumerate(texts):
        pg, pm = st["past_go"][i], st["past_mo"][i]
        if core.skipped(pm):
            stats["texts_model_unsupported"] += 1
        elif pg.split(" ")[0] == "ERR" and pm.split(" ")[0] == "ERR":
            if pg != pm:
                stats["text_ast_diffs"] += 1
                corr_diffs.append({"stage": "parse", "input": t, "impl": pg, "model": pm})
        elif pg != pm:
            stats["text_ast_diffs"] += 1
            corr_diffs.append({"stage": "parse", "input": t, "impl": pg, "model": pm})
        # the importer model runs on the import nodes of the REAL parser's AST
        acts = ast_to_actions(pg) if pg.startswith("(prog") else None
        if pg.startswith("ERR"):
            stats["texts_rejected"] += 1
        if acts is not None:
            stats["texts_parsed"] += 1
            model_for[i] = len(model_lines)
            model_lines.append(enc_case(ROOT, FIXED_TREE, acts))
    mo_out = run_model(tools["model_importer"], model_lines, work, "stA")
    for i, t in enumerate(texts):
        o = go_flat[i]
        evals += 1
        case = {"stage": "text", "input": t, "tree": "fixed"}
        parsed = st["past_go"][i].startswith("(prog")
        for route in ("plain", "local", "fs"):
            r = o[route]
            evs = parse_real(r["events"], fixed_idx)
            if not parsed and st["past_go"][i].startswith("ERR") and any(e[0] in ("R", "F", "S", "ESC") for e in evs):
                oracle_viol.append(dict(case, property=PROP, kind="oracle-violation", route=route, aspect="confinement",
                                        why="a text the parser rejects reached the importer: %r" % (evs[:3],)))
            viol, _ = oracle(route, evs, r["err"], fixed_labels, [], fixed_cyc)
            for v in viol:
                note_viol(route, v, case)
        if i in model_for:
            mline = mo_out[model_for[i]]
            outcome, mevs, counters, acc = parse_model(mline)
            if outcome in ("FUEL", "UNBOUND", "FUZZY") or mline.startswith("BADINPUT"):
                stats["model_fuel"] += 1
                continue
            if acc != "acc=1":
                corr_diffs.append({"stage": "accepted", "input": t, "impl": st["past_go"][i],
                                   "model": "the parser produced an import node the model does not accept"})
            compare_routes(o, mevs, outcome, fixed_idx, case, corr_diffs, stats)
            if any(e[0] == "R" for e in mevs):
                nontrivial.add(("text", t))
        if len(samples) < 6 and i % max(1, len(texts) // 6) == 0:
            samples.append({"stage": "text", "input": t, "impl_ast": st["past_go"][i][:200], "impl_err": o["plain"]["err"],
                            "impl_events": o["local"]["events"][:8]})

    C.log("C14: stage A done (%d texts)" % len(texts))
    # ---------------- stage B: module trees
    cases = []
    wm, wmains = witness_cases()
    wf, widx, wlabels = tree_files(rng, wm)
    cases.append({"mods": wm, "files": wf, "idx": widx, "labels": wlabels, "rootarg": "",
                  "progs": wmains, "flavour": "witness"})
    flavours = ["dag"] * 18 + ["cyclic"] * 4 + ["selfonce"] * 2 + ["flaky"] * 8
    rootargs = ["", "", "", ROOT + "/", "outer/./root", "outer/other/../root", ROOT + "//"]
    case_sensitive = fs_case_sensitive(work)
    if not case_sensitive:
        res.notes.append("the scratch file system folds letter case: near-duplicate module names differing by case are not generated")
    for ti in range(n_trees):
        g = Gen(rng)
        fl = rng.choice(flavours)
        # every third tree holds near-duplicate names (equal after case folding / Unicode normalisation, different files)
        mods = g.tree(fl, twins=(1 + rng.below(2)) if (ti % 3 == 0 and case_sensitive) else 0)
        files, idx, labels = tree_files(rng, mods)
        progs = [g.main(mods) for _ in range(mains_per_tree)]
        stats["twin_trees"] = stats.get("twin_trees", 0) + (1 if g.twin_pairs else 0)
        cases.append({"mods": mods, "files": files, "idx": idx, "labels": labels, "rootarg": rng.choice(rootargs),
                      "progs": progs, "flavour": fl, "twins": list(g.twin_pairs)})
    # ---- histories of evaluations in ONE process with DIFFERENT import roots: module trees that share names (with
    # different contents), modules that exist under one root only; each evaluation must stay inside its own root
    n_multi = 60 if tier == "quick" else 600
    for ti in range(n_multi):
        nroots = 2 + rng.below(2)
        roots = [ROOT] + [rng.choice(MULTI_ROOTS[k]) for k in range(nroots - 1)]
        gens, trees = [], []
        shared_names = []
        for ri, root in enumerate(roots):
            g = Gen(rng)
            seed = [n for n in shared_names if rng.chance(2, 3)]
            mods = g.tree(rng.choice(["dag"] * 5 + ["cyclic"]), seed_names=seed,
                          twins=1 if (case_sensitive and rng.chance(1, 6)) else 0)
            for m in mods:
                if m["name"] not in shared_names:
                    shared_names.append(m["name"])
            gens.append(g)
            trees.append(mods)
        files, idxs, labels = {}, [], {}
        for ri, root in enumerate(roots):
            f, idx, lab = tree_files(rng, trees[ri], with_sentinels=(ri == 0), root=root, idx_base=1000 * ri)
            files.update(f)
            idxs.append(idx)
            if ri == 0:
                labels = lab
        # sentinels lie outside EVERY root and never overwrite a module file
        for f in [f for f in files if any(f.startswith(r + "/") for r in roots[1:])]:
            del files[f]
        for ri, root in enumerate(roots):
            for m in trees[ri]:
                rel = root + "/" + m["name"].decode("utf-8", "surrogateescape") + m["ext"].decode()
                files[rel] = render_module(rng, m, 1000 * ri + trees[ri].index(m)).encode()
        foreign = []
        for ri, root in enumerate(roots):
            fo = {}
            for rj, other in enumerate(roots):
                if rj != ri:
                    for i, m in enumerate(trees[rj]):
                        fo[1000 * rj + i] = other + "/" + m["name"].decode("utf-8", "replace") + m["ext"].decode()
            foreign.append(fo)
        n_ev = 4 + rng.below(4)
        order = [0, 1] if rng.chance(1, 2) else [1, 0]
        while len(order) < n_ev:
            order.append(rng.below(nroots))
        progs, mainroot, mainrootarg = [], [], []
        for ri in order:
            g = gens[ri]
            have = {m["name"] for m in trees[ri]}
            others = sorted({m["name"] for rj in range(nroots) if rj != ri for m in trees[rj]
                             if not m["bad"]} - have)
            g.foreign_names = [rng.choice(others)] if (others and rng.chance(2, 3)) else []
            progs.append(g.main(trees[ri]))
            g.foreign_names = []
            mainroot.append(ri)
            mainrootarg.append(rng.choice(["", "", roots[ri] + "/", roots[ri].replace("/", "/./", 1)]))
        cases.append({"mods": trees[0], "files": files, "idx": idxs[0], "labels": labels, "rootarg": "", "progs": progs,
                      "flavour": "multiroot", "roots": roots, "trees": trees, "idxs": idxs, "foreign": foreign,
                      "mainroot": mainroot, "mainrootarg": mainrootarg, "sharelocal": rng.chance(1, 2), "whole": True})
    go_cases = []
    model_lines = []
    for c in cases:
        mains_txt = [render_main(rng, p[0], p[1]).encode() for p in c["progs"]]
        c["texts"] = mains_txt
        gc = {"files": c["files"], "root": ROOT, "rootarg": c["rootarg"], "mains": mains_txt}
        for k in ("roots", "mainroot", "mainrootarg", "sharelocal", "whole"):
            if k in c:
                gc[k] = c[k]
        go_cases.append(gc)
        for pi, p in enumerate(c["progs"]):
            if c.get("roots"):
                ri = c["mainroot"][pi]
                model_lines.append(enc_case(c["mainrootarg"][pi] or c["roots"][ri], c["trees"][ri], p[0]))
            else:
                model_lines.append(enc_case(c["rootarg"] or ROOT, c["mods"], p[0]))
    C.log("C14: stage B generated (%d programs)" % len(model_lines))
    go_out = run_go(tools["c14obs"], go_cases, work, "stB")
    C.log("C14: stage B implementation runs done")
    mo_out = run_model(tools["model_importer"], model_lines, work, "stB")
    C.log("C14: stage B model runs done")
    k = 0
    for ci, c in enumerate(cases):
        cyc = static_cycle_names(c["mods"])
        multi = bool(c.get("roots"))
        for pi, p in enumerate(c["progs"]):
            o = go_out[ci][pi]
            mline = mo_out[k]
            k += 1
            evals += 1
            stats["programs"] += 1
            if multi:
                ri = c["mainroot"][pi]
                my_root, my_mods, my_idx, my_foreign = c["roots"][ri], c["trees"][ri], c["idxs"][ri], c["foreign"][ri]
                cyc = static_cycle_names(my_mods)
                stats["multiroot_evaluations"] = stats.get("multiroot_evaluations", 0) + 1
                case = {"stage": "multiroot", "flavour": c["flavour"], "roots": c["roots"], "evaluation": pi,
                        "import_root_of_this_evaluation": my_root, "sharelocal": c["sharelocal"],
                        "history": [{"root": c["roots"][c["mainroot"][q]], "rootarg": c["mainrootarg"][q],
                                     "main": c["texts"][q].decode("utf-8", "replace")} for q in range(pi + 1)],
                        "mainroot": c["mainroot"][:pi + 1], "mainrootarg": c["mainrootarg"][:pi + 1],
                        "files": {f: b.decode("utf-8", "replace") for f, b in c["files"].items()
                                  if any(f.startswith(r + "/") for r in c["roots"])}}
            else:
                my_root, my_mods, my_idx, my_foreign = ROOT, c["mods"], c["idx"], None
                case = {"stage": "tree", "flavour": c["flavour"], "rootarg": c["rootarg"],
                        "main": c["texts"][pi].decode("utf-8", "replace"),
                        "modules": {m["name"].decode("utf-8", "replace") + m["ext"].decode():
                                    c["files"][ROOT + "/" + m["name"].decode("utf-8", "surrogateescape") + m["ext"].decode()].decode("utf-8", "replace")
                                    for m in c["mods"]}}
                if c.get("twins"):
                    case["near_duplicate_names"] = [[a.decode("utf-8", "replace"), b.decode("utf-8", "replace")] for a, b in c["twins"]]
            for route in ("plain", "local", "fs"):
                r = o[route]
                evs = parse_real(r["events"], my_idx, my_foreign)
                viol, depth_ok = oracle(route, evs, r["err"], c["labels"], p[2], cyc, root=my_root)
                if not depth_ok:
                    stats["no_depth"] += 1
                for v in viol:
                    note_viol(route, v, case)
                stats["routes"] += 1
            stats["err_classes"][o["plain"]["err"]] = stats["err_classes"].get(o["plain"]["err"], 0) + 1
            # the same program statement by statement on one VM whose code grows (REPL style): the modules loaded by
            # earlier statements must keep their own globals across the Runs - same events, same outcome as in one piece
            # (a program the compiler rejects as a whole has no piecewise counterpart)
            inc = o.get("incr")
            if inc is not None and o["plain"]["err"] not in ("parse", "compile", "timeout") and inc["err"] != "timeout":
                stats["incremental"] = stats.get("incremental", 0) + 1
                pe = [e for e in parse_real(o["plain"]["events"], my_idx)]
                ie = [e for e in parse_real(inc["events"], my_idx)]
                pe, ie = strip_depth(canon(strip_sid(pe))), strip_depth(canon(strip_sid(ie)))
                if pe != ie or o["plain"]["err"] != inc["err"]:
                    j = 0
                    while j < min(len(pe), len(ie)) and pe[j] == ie[j]:
                        j += 1
                    note_viol("incr", ("piecewise", "evaluated statement by statement on one VM (growing main code) the program "
                                       "observes different module state than evaluated in one piece: first difference at event %d: "
                                       "%r (one piece) vs %r (piecewise); outcome %s vs %s"
                                       % (j, pe[j] if j < len(pe) else None, ie[j] if j < len(ie) else None, o["plain"]["err"], inc["err"]), None), case)
            outcome, mevs, counters, acc = parse_model(mline)
            if mline.startswith("BADINPUT") or outcome in ("FUEL", "UNBOUND", "FUZZY"):
                stats["model_fuzzy" if outcome == "FUZZY" else ("model_fuel" if outcome == "FUEL" else "model_unbound")] += 1
                continue
            if acc != "acc=1":
                corr_diffs.append({"stage": "accepted", "case": case, "model": "generated program not accepted by the model"})
            compare_routes(o, mevs, outcome, my_idx, case, corr_diffs, stats)
            if any(v[3] > 0 for v in counters.values()):
                stats["cycle_cases"] += 1
            if any(v[2] > 0 and v[0] > 1 for v in counters.values()):
                stats["retry_cases"] += 1
            if sum(1 for e in mevs if e[0] == "S") >= 2:
                nontrivial.add(("tree", ci, pi))
            if len(samples) < 12 and (ci * 7 + pi) % 97 == 0:
                samples.append({"stage": "tree", "flavour": c["flavour"], "main": case["main"][:300],
                                "impl_events": o["local"]["events"][:10], "impl_err": o["local"]["err"], "model": mline[:300]})

    # ---------------- witnesses of the recorded finding (a module variable declared again inside a block) and their controls
    sw = shadow_witnesses()
    sw_cases = [{"files": {ROOT + "/" + k: v.encode() for k, v in files.items()}, "root": ROOT, "rootarg": "", "mains": [m.encode()]}
                for files, m, _, _ in sw]
    sw_out = run_go(tools["c14obs"], sw_cases, work, "stW")
    stats["shadow_witnesses"] = {"in_class": 0, "controls": 0, "reproduced": 0}
    for (files, m, exp, n), o in zip(sw, sw_out):
        in_class = any(block_redeclares(t) for t in files.values())
        stats["shadow_witnesses"]["in_class" if in_class else "controls"] += 1
        evals += 1
        case = {"stage": "tree", "flavour": "shadow-witness", "rootarg": "", "main": m, "modules": files}
        hit = False
        for route in ("plain", "local", "fs"):
            r = o[0][route]
            viol, _ = oracle(route, parse_real(r["events"], {}), r["err"], {}, exp, set())
            if r["err"] not in ("ok", "") and not viol:
                viol = [("state", "evaluation ended with %s" % r["err"], None)]
            for kind, why, _ in viol:
                hit = True
                note_viol(route, (kind, why, SHADOW_CLASS if in_class else None), case)
        if in_class and hit:
            stats["shadow_witnesses"]["reproduced"] += 1
        elif in_class and SHADOW_CLASS in known_classes:
            res.notes.append("the recorded finding %s no longer reproduces on witness module %s" % (SHADOW_CLASS, n))

    # ---------------- stage C: how the import root is configured (none / empty / relative / "." / unclean absolute), from a
    # scratch working directory that holds module files of the imported names at every level
    rc_, o_, e_ = C.run([tools["c14obs"], "rootcfg"], timeout=600)
    rootcfg = {"evaluations": 0}
    summ = [l for l in o_.splitlines() if l.startswith("SUMMARY")]
    if rc_ != 0 or not summ:
        res.violation({"property": PROP, "kind": "harness-run-failed", "stage": "c14obs rootcfg", "log": (o_ + e_)[-1500:]},
                      nofail=True, tag="rootcfg")
        return
    for kv in summ[0].split("\t")[1:]:
        k_, _, v_ = kv.partition("=")
        rootcfg[k_] = int(v_)
    rootcfg["evaluations"] = rootcfg.pop("evals")
    evals += rootcfg["evaluations"]
    for line in o_.splitlines():
        f = line.split("\t")
        if f[0] == "VIOL" and len(f) >= 8:
            oracle_viol.append({"property": PROP, "kind": "oracle-violation", "stage": "rootcfg", "aspect": "confinement",
                                "config": f[1], "working_directory": "<scratch>/" + f[2], "import_root_argument": f[3],
                                "main": f[4], "module_files_run": f[5].split(",") if f[5] else [], "status": f[6],
                                "call": "chdir(<scratch>/%s); risor.Eval(%r%s)" % (
                                    f[2], f[4], "" if f[3].startswith("<no ") else ", risor.WithLocalImporter(%r)" % f[3]),
                                "why": "%s, but the code of these module files ran: %s (evaluation: %s)" % (f[7], f[5], f[6])
                                       if f[5] else "%s (evaluation: %s)" % (f[7], f[6])})
    if rootcfg.get("module_bodies_run"):
        nontrivial.add(("rootcfg", rootcfg["module_bodies_run"]))
    cov["import_root_configurations"] = rootcfg

    cov["evaluations"] = evals
    cov["distinct_nontrivial"] = len(nontrivial)
    cov["rule"] = ("stage C: %d evaluations of every import spelling under %d configurations of the import root (no importer, the "
                   "empty path, relative spellings, '.', 'sub/..', unclean absolute paths) from a scratch working directory "
                   "holding module files of the imported names at every level: without a root no module code runs, with a root "
                   "only files under the directory the host named; programs of stage B also import, inside spawned threads, "
                   "modules the program has already imported (same object, same state, no second run); " % (
                       rootcfg["evaluations"], rootcfg.get("configs", 0)) +
                   "stage A: %d import texts (every escape form of the lexer, hostile path values x 4 statement spellings, "
                   "raw malformed statements) parsed by parser.Parse and by the extracted parser model, then evaluated by "
                   "risor.Eval in a temp tree with sentinel files outside the import root under three importer routes "
                   "(WithLocalImporter, recording wrapper around LocalImporter, FSImporter over a recording fs.FS) and by the "
                   "extracted Importer model on the import nodes of the real AST; stage B: %d module trees (shared names, both "
                   "extensions, broken and failing modules, transitive/cyclic/self imports) x %d main programs rendered from "
                   "abstract actions, traces of body starts/ends (with import depth read off the Go call stack), importer "
                   "requests, files opened, observed values and module identities compared event by event with the model; every program also runs statement by statement on one VM whose main code grows (REPL style) and must give the same events and outcome as in one piece; "
                   "every third tree holds near-duplicate module names (equal after letter-case folding, Unicode case folding or "
                   "compatibility forms; different files) with probes that each such module runs its own code once and keeps its own "
                   "x0; trees with FLAKY modules (the body calls the module's own functions, then fails at its first one or two "
                   "starts - error() or a failing import - and loads when imported again) and modules that catch the failure and "
                   "retry the import themselves: the failed imports are caught with try, the module is imported again from main or "
                   "from the other module, and attribute, getter function, setter function (called by main or from a thread the "
                   "program waits for) and a second alias must all show ONE set of globals; "
                   "%d histories of 4-7 evaluations in ONE process with 2-3 different import roots (trees that share names with "
                   "different contents, modules present under one root only, root spellings, optionally one LocalImporter per root "
                   "reused across the evaluations): a module file of another root running in an evaluation is an escape; "
                   "independent oracle on the observations. Non-trivial = texts whose import reached the importer, "
                   "programs with at least two module body starts." % (len(texts), len(cases), mains_per_tree, n_multi))
    cov["samples"] = samples
    cov["correspondence"] = {"differences": len(corr_diffs), "stats": stats}
    cov["input_distribution"] = {"texts": len(texts), "trees": len(cases), "programs": stats["programs"],
                                 "flavours": {f: sum(1 for c in cases if c["flavour"] == f) for f in set(flavours) | {"witness"}},
                                 "error_classes": stats["err_classes"]}
    res.assumptions += [
        "filepath.Join/Clean, regexp matching and os.ReadFile are modelled (Unix semantics), validated by the comparison of file names",
        "symlinks inside the import root are outside the property (path strings only)",
        "a body that fails is run again when imported again (by design): C14_once bounds the starts by 1 + failures",
        "cloned VMs (spawn/go) snapshot the module cache: two goroutines may each run a NOT-YET-cached module (stated, not proved away); imports inside threads of modules the program has ALREADY imported are generated and judged (probe_thread)",
    ]

    for cls, whys in known_hits.items():
        kf = known_classes[cls]
        res.known_finding("%s [witness: %s]" % (kf.get("what", cls), kf.get("witness", "")[:160]))
        cov.setdefault("known_finding_observations", {})[cls] = {"distinct": len(whys), "total": sum(whys.values()),
                                                                 "examples": sorted(whys)[:3]}
    if oracle_viol:
        by = {}
        for v in oracle_viol:
            kk = "%s/%s" % (v.get("stage"), v.get("aspect"))
            by[kk] = by.get(kk, 0) + 1
        cov["oracle_violations_by_stage"] = by
        # report one of each (stage, aspect) first, the shortest failing program of each
        oracle_viol.sort(key=lambda v: len(v.get("main") or ""))
        seen, first, rest = set(), [], []
        for v in oracle_viol:
            kk = (v.get("stage"), v.get("aspect"))
            (rest if kk in seen else first).append(v)
            seen.add(kk)
        oracle_viol = first + rest
    for v in oracle_viol[:10]:
        res.violation(v)
    if oracle_viol:
        return
    if not proved:
        res.violation({"property": PROP, "kind": "proof-obligation-broken", "theorem_file": "coq/props/C14.v",
                       "broken": res.broken, "search": "%d texts and %d programs: no failing input" % (len(texts), stats["programs"])},
                      nofail=True, tag="proof")
        return
    if corr_diffs:
        res.violation({"property": PROP, "kind": "correspondence-broken", "stage": corr_diffs[0].get("stage"),
                       "first_difference": corr_diffs[0], "differences": corr_diffs[:10],
                       "search": "oracle evaluated on all %d implementation runs: no failing input" % evals},
                      nofail=True, tag="corr")


def compare_routes(o, mevs, outcome, idx, case, corr_diffs, stats):
    plain, local, fsr = expected_views(mevs)
    mo_err = ERRMAP_MODEL.get(outcome, outcome)
    for route, want in (("plain", plain), ("local", local), ("fs", fsr)):
        r = o[route]
        evs = parse_real(r["events"], idx)
        got = canon(strip_sid([e for e in evs if e[0] != "ESC"]))
        exp = canon(want)
        if o.get("marker") == "unavailable":
            got, exp = strip_depth(got), strip_depth(exp)
        re_err = ERRMAP_REAL.get(r["err"], r["err"])
        if re_err == "panic-depth" and mo_err == "panic-depth":
            # runaway import cycle: the model tracks the frame stack only; the real VM may overflow its
            # operand stack (same 1024 bound, same recovered panic) a few levels earlier.  Compare the common prefix.
            m = min(len(got), len(exp))
            if m >= 200:
                got, exp = got[:m], exp[:m]
            stats["deep_cycles"] = stats.get("deep_cycles", 0) + 1
        if got != exp or re_err != mo_err:
            if len(corr_diffs) < 40:
                j = 0
                while j < min(len(got), len(exp)) and got[j] == exp[j]:
                    j += 1
                corr_diffs.append({"stage": "run/" + route, "case": case, "impl_err": r["err"], "impl_raw": r.get("raw", ""),
                                   "model_outcome": outcome, "first_diff_at": j,
                                   "impl_event": repr(got[j]) if j < len(got) else None,
                                   "model_event": repr(exp[j]) if j < len(exp) else None,
                                   "impl_events": [repr(e) for e in got[:40]], "model_events": [repr(e) for e in exp[:40]]})
            else:
                corr_diffs.append({"more": True})
            return


def replay(data):
    print(json.dumps(data, indent=1)[:6000])
    obs, err = C.go_build("c14obs")
    if not obs:
        print(err)
        return 2
    if data.get("stage") == "rootcfg":
        rc, o, e = C.run([obs, "rootcfg"])
        print("\n".join(l for l in o.splitlines() if not l.startswith("VIOL") or (data["config"] in l and data["main"] in l)))
        return 0
    rng = C.Rng(1)
    if data.get("stage") == "text":
        files, idx, labels = tree_files(rng, FIXED_TREE)
        mains = [data["input"].encode("utf-8", "surrogateescape")]
        rootarg = ""
    elif data.get("stage") == "multiroot" or data.get("case", {}).get("stage") == "multiroot":
        c = data if data.get("stage") == "multiroot" else data["case"]
        files = {k: v.encode("utf-8", "surrogateescape") for k, v in c["files"].items()}
        gc = {"files": files, "root": ROOT, "rootarg": "", "mains": [h["main"].encode("utf-8", "surrogateescape") for h in c["history"]],
              "roots": c["roots"], "mainroot": c["mainroot"], "mainrootarg": c["mainrootarg"], "sharelocal": c.get("sharelocal", False),
              "whole": True}
        os.makedirs(C.WORK, exist_ok=True)
        work = tempfile.mkdtemp(prefix="c14r-", dir=C.WORK)
        try:
            out = run_go(obs, [gc], work, "replay")
            print("the last evaluation of the history (import root %s):" % c["import_root_of_this_evaluation"])
            print(json.dumps(out[0][-1], indent=1))
        finally:
            shutil.rmtree(work, ignore_errors=True)
        return 0
    else:
        c = data.get("case", data)
        files = {ROOT + "/" + k: v.encode("utf-8", "surrogateescape") for k, v in c.get("modules", {}).items()}
        mains = [c.get("main", "").encode("utf-8", "surrogateescape")]
        rootarg = c.get("rootarg", "")
    os.makedirs(C.WORK, exist_ok=True)
    work = tempfile.mkdtemp(prefix="c14r-", dir=C.WORK)
    try:
        out = run_go(obs, [{"files": files, "root": ROOT, "rootarg": rootarg, "mains": mains}], work, "replay")
        print(json.dumps(out[0][0], indent=1))
    finally:
        shutil.rmtree(work, ignore_errors=True)
    return 0
