"""C17 - serialised bytecode behaves exactly like the code it was made from."""
import os
import subprocess
from concurrent.futures import ThreadPoolExecutor

from lib import common as C, gen, gen_closure as G

PROP = "C17"
LEVEL = "proof"


def valid_utf8_consts(src):
    """known-finding class: the program text contains an escape producing a byte that is not valid UTF-8"""
    try:
        src.encode("utf-8")
    except UnicodeEncodeError:
        return False
    import re
    return not re.search(r'\\x[89a-fA-F][0-9a-fA-F]|\\[23][0-7][0-7]', src)



def load_known_ids():
    """open known findings of this property by id (known_findings.jsonl and the per-agent known_findings.*.jsonl)"""
    import glob, json
    ids = {}
    for fn in [os.path.join(C.VERIF, "known_findings.jsonl")] + sorted(glob.glob(os.path.join(C.VERIF, "known_findings.*.jsonl"))):
        if not os.path.exists(fn):
            continue
        for line in open(fn):
            line = line.strip()
            if not line or line.startswith("#"):
                continue
            j = json.loads(line)
            if j.get("property") == PROP and not j.get("fixed") and j.get("id"):
                ids.setdefault(j["id"], j)
    return ids


K_FID = "function-ids-collide-after-withcode"


def life_stream(res, exe, rng, srcs, tier, oracle, cov):
    """marshal / unmarshal / run equivalence at every point of the life of ONE code: the program is fed to one compiler in
    pieces (or to a new compiler given the code, compiler.WithCode), and the growing code is snapshot (marshalled,
    unmarshalled, re-marshalled, run side by side) after pieces chosen by the digits - also after an earlier marshal, after
    Flatten() and after it has run; after one of the snapshots a twin history continues on the reloaded code"""
    n = 2400 if tier == "quick" else 40000
    step = max(1, len(srcs) // n)
    pick = srcs[::step][:n]
    cases = []
    for src in pick:
        digits = "".join(str(rng.below(10)) for _ in range(16))
        cases.append((src, digits))
    nsh = C.NCPU
    chunks = [cases[k::nsh] for k in range(nsh)]

    def work(k):
        inp = "".join(s.encode("utf-8", "surrogateescape").hex() + "\t" + d + "\n" for s, d in chunks[k])
        return subprocess.run([exe, "life"], input=inp.encode(), stdout=subprocess.PIPE).stdout.decode("utf-8", "replace").splitlines()
    with ThreadPoolExecutor(max_workers=nsh) as ex:
        parts = list(ex.map(work, range(nsh)))
    outs = [None] * len(cases)
    for k in range(nsh):
        for j, l in enumerate(parts[k]):
            if k + j * nsh < len(outs):
                outs[k + j * nsh] = l
    known_ids = load_known_ids()
    stats = {"histories": 0, "skipped": 0, "snapshots": 0, "snapshots_of_grown_code": 0, "twin_snapshots": 0, "with_functions": 0}
    known_seen = {}
    for (src, digits), o in zip(cases, outs):
        case = {"kind": "oracle-violation", "route": "life", "source": src, "digits": digits}
        if o is None or not (o.startswith("LIFE ") or o.startswith("SKIP")):
            oracle.append(dict(case, impl=(o or "")[:300], why="the history of marshalling a growing code panicked or gave no observation"))
            continue
        if o.startswith("SKIP"):
            stats["skipped"] += 1
            continue
        stats["histories"] += 1
        live_at = {}
        for rec in o[5:].split("|"):
            f = dict(x.split("=", 1) for x in rec.split(";") if "=" in x)
            why = None
            stats["snapshots"] += 1
            if f.get("who") == "twin":
                stats["twin_snapshots"] += 1
            elif f.get("at") != "1":
                stats["snapshots_of_grown_code"] += 1
            if f.get("codes", "1/1") not in ("1/1",):
                stats["with_functions"] += 1
            orig, rel = f.get("orig", ""), f.get("reloaded", "")
            timeout = "TIMEOUT" in orig or "TIMEOUT" in rel
            if "compile" in f:
                why = "a piece that compiles into the original code does not compile into the reloaded code: " + f["compile"]
            elif "marshal" in f:
                why = "marshalling failed: " + f["marshal"]
            elif f.get("det") != "1":
                why = "marshalling the same code twice gave different bytes"
            elif f.get("unmarshal") != "ok":
                why = "unmarshalling the marshaller's own output failed: " + f.get("unmarshal", "")
            elif orig != rel and not timeout:
                why = "the reloaded code evaluates differently: %s vs %s" % (orig[:150], rel[:150])
            elif f.get("stable") != "1":
                why = "marshalling the reloaded code does not reproduce the same bytes"
            elif f.get("same_dump") != "1":
                why = "the reloaded code differs structurally (instructions/constants/names/linkage; %s code objects)" % f.get("codes")
            elif f.get("after_run") != "1" and not timeout:
                why = "after original and reloaded code have run, marshalling them no longer gives the same bytes"
            elif f.get("who") == "live":
                live_at[f.get("at")] = orig
            elif f.get("who") == "twin" and f.get("at") in live_at and live_at[f["at"]] != orig and not timeout and "TIMEOUT" not in live_at[f["at"]]:
                why = ("the reloaded code, grown by the same pieces as the original, evaluates differently: %s vs %s"
                       % (orig[:150], live_at[f["at"]][:150]))
            if why:
                why = "snapshot after piece %s (%s history): %s" % (f.get("at"), f.get("who"), why)
                if not valid_utf8_consts(src):
                    res.known_finding("a string constant that is not valid UTF-8 (e.g. \"\\377\") is replaced by U+FFFD in the marshalled JSON, "
                                      "so the reloaded code carries a different constant and re-marshals to different bytes")
                elif f.get("fid_dup") == "1" and "8" in digits and K_FID in known_ids:
                    known_seen[K_FID] = known_seen.get(K_FID, 0) + 1
                    known_seen.setdefault("example", {"source": src, "digits": digits, "why": why})
                else:
                    oracle.append(dict(case, impl=rec[:600], why=why))
                break
    if K_FID in known_seen:
        ex = known_seen["example"]
        res.known_finding("%s: %s [%d histories this run, e.g. digits %s on %r]" % (
            K_FID, known_ids[K_FID]["what"], known_seen[K_FID], ex["digits"], ex["source"][:120]))
    cov["life_histories"] = stats
    return len(cases)


def run(res):
    tier = res.tier
    nprog = 3000 if tier == "quick" else 80000
    nclos = 1200 if tier == "quick" else 30000
    cov = res.coverage
    exe, err = C.go_build("c17obs")
    if not exe:
        res.violation({"property": PROP, "kind": "harness-build-failed", "stage": "go build c17obs", "log": err[-3000:]}, nofail=True, tag="build")
        return
    proved = C.prove(res, PROP)
    model, err = C.build_extracted("marshal", "ExtractMarshal.v", "marshal_driver.ml")
    if not model:
        res.violation({"property": PROP, "kind": "model-build-failed", "stage": "extraction", "log": err[-3000:],
                       "broken": getattr(res, "broken", None)}, nofail=True, tag="extract")
        return
    rng = C.Rng(res.seed)
    srcs = []
    cdir = os.path.join(C.VERIF, "corpus", "C17")
    if os.path.isdir(cdir):
        for f in sorted(os.listdir(cdir)):
            srcs.append(open(os.path.join(cdir, f), encoding="utf-8", errors="surrogateescape").read())
    nwit = len(srcs)
    for f in ("harvest.hex", "semgen.hex"):
        for line in open(os.path.join(C.VERIF, "corpus", "core", f)):
            if line.strip():
                srcs.append(bytes.fromhex(line.strip()).decode("utf-8", "surrogateescape"))
    for i in range(nprog):
        srcs.append(gen.Gen(rng, features=["template", "defer"] if i % 3 == 0 else [], budget=40).program())
    for i in range(nclos):
        srcs.append(G.model_program(rng)[0])

    nsh = C.NCPU
    chunks = [srcs[k::nsh] for k in range(nsh)]

    def work(k):
        inp = "\n".join(s.encode("utf-8", "surrogateescape").hex() for s in chunks[k]) + "\n"
        out = subprocess.run([exe, "rt"], input=inp.encode(), stdout=subprocess.PIPE).stdout.decode("utf-8", "replace").splitlines()
        minp = "\n".join(("\t".join(l.split("\t")[3:5]) if l.startswith("RT det") else "-") for l in out) + "\n"
        mo = subprocess.run([model], input=minp.encode(), stdout=subprocess.PIPE).stdout.decode().splitlines()
        return out, mo
    with ThreadPoolExecutor(max_workers=nsh) as ex:
        parts = list(ex.map(work, range(nsh)))
    outs = [None] * len(srcs)
    mods = [None] * len(srcs)
    for k in range(nsh):
        for j, l in enumerate(parts[k][0]):
            outs[k + j * nsh] = l
        for j, l in enumerate(parts[k][1]):
            mods[k + j * nsh] = l

    oracle, corr = [], []
    checked = skipped = 0
    nfuncs = {}
    distinct = set()
    for src, o, m in zip(srcs, outs, mods):
        if o is None:
            corr.append({"stage": "c17obs output missing", "source": src})
            continue
        if o.startswith("SKIP"):
            skipped += 1
            continue
        if o.startswith("GOPANIC") or not o.startswith("RT det"):
            oracle.append({"kind": "oracle-violation", "source": src, "impl": o[:300], "why": "marshalling or unmarshalling panicked or failed"})
            continue
        f = o.split("\t")
        flags = dict(x.split("=", 1) for x in f[0][3:].split(" "))
        orig, reloaded, defs, named, olink, rlink = f[1], f[2], f[3], f[4], f[5], f[6]
        checked += 1
        distinct.add(defs + orig)
        nd = defs.count(";") + 1
        nfuncs[nd] = nfuncs.get(nd, 0) + 1
        why = None
        if flags.get("held") == "0":
            why = ("bytes returned by MarshalCode changed (or no longer unmarshal) after other code was marshalled: the stored form of "
                   "this program, or of the program marshalled just before it, is not what was returned")
        elif flags.get("det") != "1":
            why = "marshalling the same code twice gave different bytes"
        elif not flags.get("unmarshal", "").startswith("ok"):
            why = "unmarshalling the marshaller's own output failed: " + flags.get("unmarshal", "")
        elif orig != reloaded and not (orig.startswith("ERR TIMEOUT") or reloaded.startswith("ERR TIMEOUT")):
            why = "the reloaded code evaluates differently: %s vs %s" % (orig[:150], reloaded[:150])
        elif flags.get("stable") != "1":
            why = "marshalling the reloaded code does not reproduce the same bytes"
        elif flags.get("same_dump") != "1" or olink != rlink:
            why = "the reloaded code differs structurally (instructions/constants/names/linkage)"
        if why:
            if not valid_utf8_consts(src):
                res.known_finding("a string constant that is not valid UTF-8 (e.g. \"\\377\") is replaced by U+FFFD in the marshalled JSON, "
                                  "so the reloaded code carries a different constant and re-marshals to different bytes")
            else:
                oracle.append({"kind": "oracle-violation", "source": src, "impl": f[0], "original": orig[:300], "reloaded": reloaded[:300], "why": why})
            continue
        # tie of the Coq model: compiler invariants hold on the real definitions, and the model's relinking
        # equals what UnmarshalCode rebuilt
        if m is None or not m.startswith("ok=1 ") or m[5:] != rlink:
            corr.append({"stage": "Marshal.relink vs UnmarshalCode", "source": src, "impl": rlink, "model": m})

    nlife = life_stream(res, exe, rng, srcs, tier, oracle, cov)
    cov["evaluations"] = len(srcs) + nlife
    cov["distinct_nontrivial"] = len(distinct)
    cov["rule"] = ("the programs of the C01 and C02 generators plus the harvested corpus: each is compiled, marshalled twice (the returned bytes are held and must stay as returned while later programs are marshalled), unmarshalled, "
                   "re-marshalled, and original and reloaded code are evaluated side by side (value, error class, print trace) and compared "
                   "structurally (instructions, constants incl. defaults, names, locals, parent and function-constant links, named flags); "
                   "the extracted Marshal.relink is run on the real flat definitions and compared with the links UnmarshalCode rebuilt. "
                   "Histories: a sample of the same programs is fed to ONE compiler piece by piece (or to a new compiler given the code, compiler.WithCode) and the growing "
                   "code is marshalled / unmarshalled / re-marshalled / run side by side after chosen pieces - after an earlier marshal, after Flatten(), after it "
                   "has run - and a twin history continues on a reloaded code. Non-trivial = distinct (definitions, outcome) pairs.")
    cov["samples"] = [{"source": srcs[nwit + 5][:300], "impl": outs[nwit + 5][:300], "model": mods[nwit + 5]}]
    cov["checked"] = checked
    cov["skipped_not_compiling"] = skipped
    cov["code_objects_per_program"] = dict(sorted(nfuncs.items()))
    res.assumptions += [
        "encoding/json is trusted to round-trip ints, floats, bools, valid UTF-8 strings and arrays verbatim; the model covers what "
        "codeFromState has to rebuild (links and the named flag)",
        "string constants that are not valid UTF-8 are a known finding (JSON cannot carry them)",
    ]
    for v in oracle[:10]:
        v["property"] = PROP
        res.violation(v)
    if oracle:
        return
    if not proved:
        res.violation({"property": PROP, "kind": "proof-obligation-broken", "theorem_file": "coq/props/C17.v", "broken": res.broken,
                       "search": "%d programs round-tripped without a difference" % checked}, nofail=True, tag="proof")
        return
    if corr:
        res.violation({"property": PROP, "kind": "correspondence-broken", "first_difference": corr[0], "count": len(corr),
                       "search": "round-trip oracle found no failing input"}, nofail=True, tag="corr")


def replay(data):
    import json
    print(json.dumps(data, indent=1)[:3000])
    exe, err = C.go_build("c17obs")
    if exe and data.get("source") and data.get("route") == "life":
        print(C.run([exe, "life"], input=(data["source"].encode("utf-8", "surrogateescape").hex() + "\t" + data.get("digits", "5") + "\n").encode())[1][:4000].replace("|", "\n   "))
    elif exe and data.get("source"):
        print(C.run([exe, "rt"], input=(data["source"].encode("utf-8", "surrogateescape").hex() + "\n").encode())[1][:1000])
    return 0
