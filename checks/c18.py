"""C18 - incremental (REPL-style) evaluation equals whole-program evaluation."""
import os
import subprocess
from concurrent.futures import ThreadPoolExecutor

from lib import common as C, gen

PROP = "C18"
LEVEL = "proof"

PARSE_REJECTS = ["x := := 1", ")", "if {", "1 +", "func (", "[1, 2", "x = ", "switch 1 {", "a b", "for ;; {", "'{'", "\"open"]
LEAF_COMPILE_REJECTS = ["undefined_name_q", "undefined_fn_q(1)", "break", "continue", "return 1", "zz_undefined = 1"]
COMPOUND_COMPILE_REJECTS = ["acc_q := 5; undefined_name_q", "func bad_q() { return undefined_name_q }",
                            "for i := 0; i < 2; i++ { undefined_name_q }", "if true { undefined_name_q }", "[1, undefined_name_q]"]


def hexline(pieces):
    return ",".join(p.encode("utf-8", "surrogateescape").hex() for p in pieces)


def split_parts(rng, parts):
    """a random partition of the chunk list into consecutive pieces"""
    pieces, cur = [], []
    for ch in parts:
        cur.append(ch)
        if rng.chance(1, 2):
            pieces.append("\n".join(cur))
            cur = []
    if cur:
        pieces.append("\n".join(cur))
    return pieces


def parse_out(line):
    """-> (piece results list, globals str, trace str, whole str)"""
    inc, _, whole = line.partition("\t")
    body = inc[4:]
    res, _, rest = body.partition(" GLOBALS ")
    gl, _, tr = rest.partition(" TRACE ")
    return res.split("|"), gl, tr, whole


def run(res):
    tier = res.tier
    nprog = 500 if tier == "quick" else 12000
    nsplit = 4 if tier == "quick" else 10
    cov = res.coverage
    exe, err = C.go_build("c18obs")
    if not exe:
        res.violation({"property": PROP, "kind": "harness-build-failed", "stage": "go build c18obs", "log": err[-3000:]}, nofail=True, tag="build")
        return
    proved = C.prove(res, PROP)
    rng = C.Rng(res.seed)
    cases = []     # (kind, pieces, reference pieces or None, index of inserted piece or None)
    for i in range(nprog):
        parts = gen.Gen(rng, budget=30).program_parts()
        for _ in range(nsplit):
            pieces = split_parts(rng, parts)
            cases.append(("split", pieces, None, None))
            k = rng.below(len(pieces) + 1)
            which = rng.below(4)
            if which == 0:
                ins = rng.choice(PARSE_REJECTS)
                cases.append(("parse-reject", pieces[:k] + [ins] + pieces[k:], pieces, k))
            elif which == 1:
                ins = rng.choice(LEAF_COMPILE_REJECTS)
                cases.append(("compile-reject-leaf", pieces[:k] + [ins] + pieces[k:], pieces, k))
            elif which == 2:
                ins = rng.choice(COMPOUND_COMPILE_REJECTS)
                cases.append(("compile-reject-compound", pieces[:k] + [ins] + pieces[k:], pieces, k))
            else:
                # a failing piece: its own statements run, then a runtime error; reference = the same piece without the error
                body = rng.choice(["fq_%d := %d" % (i, rng.below(9)), "print(%d)" % rng.below(9), "log.append(%d)" % (90 + rng.below(9))])
                fail = rng.choice(["1 / 0", "[1][5]", "{}[\"nokey\"]", "nil()"])
                kk = max(k, 1)      # after `log`/`t` exist
                cases.append(("runtime-failure", pieces[:kk] + [body + "\n" + fail] + pieces[kk:], pieces[:kk] + [body] + pieces[kk:], kk))
    # corpus: the design witnesses
    cases.append(("compile-reject-compound", ["x := 1", "x = 2; undefined_name", "x"], ["x := 1", "x"], 1))
    cases.append(("stack-growth", ["1"] * 1100, None, None))

    lines = []
    for kind, pieces, ref, k in cases:
        lines.append(hexline(pieces))
        if ref is not None:
            lines.append(hexline(ref))
    nsh = C.NCPU
    chunks = [lines[s::nsh] for s in range(nsh)]

    def work(s):
        return subprocess.run([exe], input=("\n".join(chunks[s]) + "\n").encode(), stdout=subprocess.PIPE).stdout.decode("utf-8", "replace").splitlines()
    with ThreadPoolExecutor(max_workers=nsh) as ex:
        parts_out = list(ex.map(work, range(nsh)))
    outs = [None] * len(lines)
    for s in range(nsh):
        for j, l in enumerate(parts_out[s]):
            outs[s + j * nsh] = l

    oracle = []
    hist = {}
    checked = {}
    distinct = set()
    pos = 0
    for kind, pieces, ref, k in cases:
        o = outs[pos]
        pos += 1
        oref = None
        if ref is not None:
            oref = outs[pos]
            pos += 1
        hist[kind] = hist.get(kind, 0) + 1
        distinct.add(hexline(pieces))
        if o is None or not o.startswith("INC ") or (ref is not None and (oref is None or not oref.startswith("INC "))):
            oracle.append({"kind": "oracle-violation", "case": kind, "pieces": pieces, "impl": (o or "")[:300],
                           "why": "the incremental evaluation did not return normally"})
            continue
        results, gl, tr, whole = parse_out(o)
        why = None
        if kind in ("split", "stack-growth"):
            if whole.startswith("WHOLE OK"):
                wres, _, wrest = whole[9:].partition(" GLOBALS ")
                wgl, _, wtr = wrest.partition(" TRACE ")
                if any(r.startswith("ERR") or r.startswith("REJECT") for r in results):
                    why = "a piece of a program that evaluates as a whole was rejected or failed: %s" % results
                elif gl != wgl:
                    why = "final globals differ from the whole-program run"
                elif results[-1] != "OK " + wres:
                    why = "the last piece's value %s is not the whole program's value %s" % (results[-1], wres)
                elif tr != wtr:
                    why = "printed output differs from the whole-program run"
                checked[kind] = checked.get(kind, 0) + 1
        else:
            rres, rgl, rtr, _ = parse_out(oref)
            inserted = results[k] if k < len(results) else "?"
            others = results[:k] + results[k + 1:]
            if kind == "parse-reject" and inserted != "REJECT parse":
                why = None     # the text happened to parse; not a rejected piece
            elif kind.startswith("compile-reject") and inserted != "REJECT compile":
                why = None
            elif kind == "runtime-failure":
                if not inserted.startswith("ERR"):
                    why = None
                else:
                    ref_others = rres[:k] + rres[k + 1:]
                    if others != ref_others or gl != rgl or tr != rtr:
                        why = "a piece that failed at run time changed what followed beyond its own effects"
                    checked[kind] = checked.get(kind, 0) + 1
            else:
                if others != rres or gl != rgl or tr != rtr:
                    why = "a rejected piece had an effect on the pieces that follow (results %s vs %s; globals %s vs %s)" % (
                        others[-3:], rres[-3:], gl[-80:], rgl[-80:])
                checked[kind] = checked.get(kind, 0) + 1
        if why:
            if kind == "compile-reject-compound":
                res.known_finding("a piece rejected by the compiler after it has emitted code, declared symbols or entered a function "
                                  "body is not rolled back (e.g. pieces `x := 1`, `x = 2; undefined_name`, `x` give 2)")
                continue
            oracle.append({"kind": "oracle-violation", "case": kind, "pieces": pieces, "reference_pieces": ref, "impl": o[:600],
                           "reference": (oref or "")[:600], "why": why})

    cov["evaluations"] = len(lines)
    cov["distinct_nontrivial"] = len(distinct)
    cov["rule"] = ("programs of the C01 generator cut into random partitions of their top-level statements and fed to ONE compiler and ONE "
                   "VM exactly as cmd/risor/repl does, compared with the whole-program run (final globals via vm.Get, last value, print "
                   "trace); with parser-rejected, compiler-rejected (leaf and compound) and run-time-failing pieces inserted at random "
                   "positions, compared with the same history without the insert; plus 1100 one-expression pieces (stack growth). "
                   "Non-trivial = distinct histories.")
    cov["samples"] = [{"kind": cases[1][0], "pieces": cases[1][1]}, {"impl": outs[0][:300]}]
    cov["input_distribution"] = hist
    cov["oracle_checked"] = checked
    res.assumptions += [
        "the theorems are about the reduced store-transformer model (model/Repl.v): rejected pieces are never executed there; that the real "
        "compiler leaves no trace of a rejected piece is what the oracle checks (and what the known finding is about)",
        "whole-program runs that fail are not compared (the REPL continues after a failure by design)",
    ]
    for v in oracle[:10]:
        v["property"] = PROP
        res.violation(v)
    if oracle:
        return
    if not proved:
        res.violation({"property": PROP, "kind": "proof-obligation-broken", "theorem_file": "coq/props/C18.v", "broken": res.broken,
                       "search": "no failing history among %d" % len(lines)}, nofail=True, tag="proof")


def replay(data):
    import json
    print(json.dumps(data, indent=1)[:3000])
    exe, err = C.go_build("c18obs")
    if exe and data.get("pieces"):
        print(C.run([exe], input=(hexline(data["pieces"]) + "\n").encode())[1][:2000])
    return 0
