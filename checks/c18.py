"""C18 - incremental (REPL-style) evaluation equals whole-program evaluation."""
import os
import subprocess
from concurrent.futures import ThreadPoolExecutor

from lib import common as C, gen

PROP = "C18"
LEVEL = "proof"

PARSE_REJECTS = ["x := := 1", ")", "if {", "1 +", "func (", "[1, 2", "x = ", "switch 1 {", "a b", "for ;; {", "'{'", "\"open"]
LEAF_COMPILE_REJECTS = ["undefined_name_q", "undefined_fn_q(1)", "break", "continue", "return 1", "zz_undefined = 1"]
COMPOUND_COMPILE_REJECTS = ["acc_q := 5; undefined_name_q", "func bad_q() { return undefined_name_q }",
                            "for i := 0; i < 2; i++ { undefined_name_q }", "if true { undefined_name_q }", "[1, undefined_name_q]"]


HOST_STMTS = ["limit = limit * 2", "limit += 1", "hostlist.append(limit)", "print(limit)", "print(hostlist)", "hq_%d := hostfn(1, limit)",
              "limit = len(hostlist)", "hostlist = [limit]", "print(hostfn(limit))"]


ATOMS = ["limit", "hostlist", "log", "1", "\"s\"", "true", "nil", "hostfn", "len", "t", "7"]
# every expression / simple-statement form with one hole for the operand that gets rejected (A = an operand that compiles)
REJECT_FORMS = [
    "A | %s", "A | %s | hostfn", "A | hostfn(%s)", "A | hostfn | %s", "%s | hostfn", "A | t(1, %s)", "A | (A | len)", "A | %s(A)",
    "hostfn(%s)", "hostfn(A, %s)", "%s(A)", "t(1, %s)", "hostfn(A, A, %s)", "print(%s)", "len(%s)",
    "hostlist[%s]", "%s[0]", "hostlist[0:%s]", "hostlist[%s:]",
    "A + %s", "%s * A", "A == %s", "%s < A", "A - %s", "A != %s",
    "-%s", "!%s",
    "%s ? A : A", "true ? %s : A", "false ? A : %s",
    "'v={%s}'", "'{A} and {%s}'", "'{%s}{A}'",
    "[A, %s]", "[%s]", "{\"k\": %s}", "{\"k\": A, \"j\": %s}", "{A, %s}",
    "%s in hostlist", "A in %s",
    "%s.append", "hostlist.append(%s)", "%s.append(A)",
    "limit = %s", "limit += %s", "hostlist[0] = %s", "zq_N := %s", "var zq_N = %s", "const zq_N = %s", "limit, zq_N = [1, %s]",
    "if %s { 1 }", "switch %s { case 1: 2 }", "if A { %s }", "for i := range %s { }", "for %s { break }",
    "func() { return %s }", "func(a) { return a + %s }(1)", "func zq_N() { return %s }", "func(a=%s) { return a }",
    "A && %s", "A || %s", "%s && A", "%s || A",
    "go hostfn(%s)", "defer hostfn(%s)", "%s++", "return %s", "hostlist | len | %s",
]


def reject_piece(rng, n):
    """a one-statement piece the compiler rejects: an undefined name (or a nested pipe) somewhere inside an expression form"""
    u = "uq_%d" % n
    inner = u
    for _ in range(rng.below(3)):
        f = rng.choice(REJECT_FORMS[:43])
        if "'" in f and ("'" in inner or '"' in inner):
            continue
        if "%s" in f:
            inner = "(" + (f % inner) + ")" if not f.startswith("'") else (f % inner)
    f = rng.choice(REJECT_FORMS)
    if "'" in f and ("'" in inner or '"' in inner):
        inner = u
    text = (f % inner) if "%s" in f else f
    out = ""
    for ch in text:
        out += rng.choice(ATOMS) if ch == "A" else ch
    return out.replace("zq_N", "zq_%d" % n)


BLOCK_WORDS = ("func", "for", "if", "switch")
INERT_OPS = {"LOAD_GLOBAL", "LOAD_CONST", "LOAD_FAST", "LOAD_FREE", "NIL", "TRUE", "FALSE"}


def inert_reject(piece, api_result, earlier=()):
    """class predicate (complement of the known finding compile-rejected-piece-not-rolled-back), decided on the failing input
    itself: the rejected piece enters no function / loop / block, and - as observed on the compiler - it declared no symbol,
    created no code object and had emitted nothing but plain loads of names and constants when it was rejected.  A load of a
    global is plain only while every declared global has a value: after a piece that failed at run time (`earlier` results
    with ERR) a name may be declared without one (the other recorded finding), and the load the rejected piece left behind
    - executed by the next Run, which is what the known finding says - is then an error"""
    import re
    if "LOAD_GLOBAL" in api_result and any(r.startswith("ERR") for r in earlier):
        return False
    if re.search(r"\b(%s)\b" % "|".join(BLOCK_WORDS), piece):
        return False
    f = dict(x.split("=", 1) for x in api_result.split() if "=" in x)
    if f.get("syms") != "0" or f.get("codes") != "0" or "left" not in f:
        return False
    return f["left"] == "-" or all(o in INERT_OPS for o in f["left"].split(","))


def thread_program(rng, n):
    """a deterministic, channel-synchronised program whose threads (go / spawn) outlive the statement - and, once cut, the
    piece - that started them and talk to the main code through globals: every message is answered before the main code
    goes on, so there is one outcome whatever the schedule"""
    nw = 1 + rng.below(2)
    L = ["acc := %d" % rng.below(5), "scale := %d" % (1 + rng.below(3)), "glog := []", "done := chan()"]
    for w in range(nw):
        L.append("ch%d := chan(%s)" % (w, rng.choice(["", "", "1"])))
    starts = []
    for w in range(nw):
        upd = rng.choice(["acc = acc + v * scale", "acc += v + scale", "acc = acc * 2 + v", "glog.append(v * scale)", "glog = glog + [v + acc]",
                          "acc, scale = [scale + v, acc]", "seen%d := acc + v; acc = seen%d" % (w, w)])
        reply = rng.choice(["acc", "[acc, scale]", "len(glog)", "scale * 100 + acc"])
        body = "for { v := <-ch%d; if v == 0 { break }; %s; done <- (%s) }; done <- -1" % (w, upd, reply)
        how = rng.below(5)
        if how == 0:
            starts.append("go func() { %s }()" % body)
        elif how == 1:
            starts.append("func worker%d() { %s }" % (w, body))
            starts.append("go worker%d()" % w)
        elif how == 2:
            starts.append("func worker%d() { %s }" % (w, body))
            starts.append("th%d := spawn(worker%d)" % (w, w))
        elif how == 3:
            starts.append("th%d := spawn(func() { %s })" % (w, body))
        else:
            # the thread is started from inside a function, through a closure over the channel
            starts.append("func launch%d(c) { go func() { for { v := <-c; if v == 0 { break }; %s; done <- (%s) }; done <- -1 }() }" % (w, upd, reply))
            starts.append("launch%d(ch%d)" % (w, w))
    L += starts
    k = 0
    for _ in range(3 + rng.below(6)):
        c = rng.below(6)
        w = rng.below(nw)
        if c < 3:
            # one chunk: when the piece ends the thread has answered and waits for the next message (a thread that is still
            # running while the next piece is loaded is the class `threads-racing`)
            L.append("ch%d <- %d\nr%d := <-done" % (w, 1 + rng.below(9), k))
            k += 1
        elif c == 3:
            L.append(rng.choice(["scale = scale + 1", "scale += 2", "scale = acc + 1"]))
        elif c == 4:
            L.append(rng.choice(["acc = acc + 100", "acc -= 1", "glog.append(acc)", "glog = [acc]"]))
        else:
            L.append("print([acc, scale, glog])")
    for w in range(nw):
        L.append("ch%d <- 0\ne%d := <-done" % (w, w))
    L.append("[acc, scale, glog, %s]" % ", ".join(["r%d" % i for i in range(k)] + ["e%d" % w for w in range(nw)]))
    return L, any(x.startswith("func launch") for x in L)


# ---------------------------------------------------------------- pieces that fail at every kind of point

FAILS = ["[1][5]", "{}[\"nokey\"]", "nil()", "[1, 2][7]", "hostfn.nope"]
FAIL_PANIC = "rq_deep(0)"      # more than 1024 frames: ends as a recovered Go panic


def failure_point_history(rng, i):
    """One VM, one failing piece, and the same machinery used again afterwards.
    Every construct below fails only while the host-side fuse holds its code (`setfuse(n)` / `fuse()`, host builtins that the
    local modules see as well), so the SAME module / function / callback / thread body fails in one piece and must work in the
    later ones.  The failure happens inside: the top-level code of an imported local module (three import forms, a nested
    import, a callback / a thread / a too-deep recursion at the module's top level), a function of an imported module, a
    deferred call, a callback of a builtin method, a thread being waited for, a deep chain of frames, a loop / switch / literal
    with operands pending.  -> (modules, pieces, reference pieces, index of the failing piece)"""
    fe = rng.choice(FAILS)

    def fail(code):
        return "if fuse() == %d { %s }" % (code, fe)
    mods = {
        "mqa": "val := 7\n%s\nfunc get() { return val }\nfunc bump() { val = val + 1; return val }\n" % fail(1),
        "mqb": "import mqa\nbase := mqa.val * 2\n%s\nfunc twice() { return base }\n" % fail(2),
        "mqc": "cnt := 0\nfunc work(x) { %s; cnt = cnt + 1; return x + cnt }\n" % fail(3),
        "mqd": "xs := [1, 2, 3].map(func(x) { %s; return x * 2 })\nfunc sum() { s := 0; for _, x := range xs { s = s + x }; return s }\n" % fail(4),
        "mqe": "r := spawn(func() { %s; return 11 }).wait()\nfunc res() { return r }\n" % fail(5),
        "mqf": "func rq(n) { return rq(n + 1) }\nif fuse() == 6 { rq(0) }\nval := 8\n",
        "mqg": "from mqa import get\nimport mqc\nseen := get()\n%s\nfunc both() { return [seen, mqc.work(0)] }\n" % fail(12),
    }
    n = str(i)
    defs = [
        "func dq_N(x) { defer func() { %s }(); return x + 1 }" % fail(7),
        "func cb_N(x) { %s; return x * 3 }" % fail(8),
        "func th_N(x) { %s; return x + 100 }" % fail(9),
        "func deep_N(k) { if k == 0 { %s; return 0 }; return deep_N(k - 1) + 1 }" % fail(10),
        "func rq_deep(k) { return rq_deep(k + 1) }\nfunc pan_N(x) { if fuse() == 11 { %s }; return x }" % FAIL_PANIC,
        "import mqc",
        "acc_N := %d" % rng.below(9),
    ]
    defs = [d.replace("_N", "_" + n) for d in defs]
    # (fuse code, statement that fails while the fuse holds the code, the same machinery as a value once it works)
    uses = [
        (1, "import mqa", "import mqa\nmqa.bump()"),
        (1, "import mqa as al_N", "import mqa as al_N\nal_N.val"),
        (1, "from mqa import get", "from mqa import get\nget()"),
        (1, "import mqb", "import mqb\n[mqb.twice(), mqb.base]"),
        (2, "import mqb", "import mqb\nmqb.twice()"),
        (2, "from mqb import twice", "from mqb import twice\ntwice()"),
        (1, "import mqg", "import mqg\nmqg.both()"),
        (12, "import mqg", "import mqg\nmqg.seen"),
        (3, "mqc.work(1)", "mqc.work(1)"),
        (3, "[1, 2].map(mqc.work)", "[1, 2].map(mqc.work)"),
        (4, "import mqd", "import mqd\nmqd.sum()"),
        (5, "import mqe", "import mqe\nmqe.res()"),
        (6, "import mqf", "import mqf\nmqf.val"),
        (7, "dq_N(1)", "dq_N(1)"),
        (8, "[1, 2, 3].map(cb_N)", "[1, 2, 3].map(cb_N)"),
        (8, "[3, 1, 2].filter(cb_N)", "[3, 1, 2].filter(cb_N)"),
        (8, "hostlist.each(cb_N)", "hostlist.each(cb_N)"),
        (8, "[1, 2, hostfn(3, cb_N(4))]", "[1, 2, hostfn(3, cb_N(4))]"),
        (8, "func() { for i, x := range [1, 2, 3] { if i == 1 { cb_N(x) } } }()", "func() { for i, x := range [1, 2, 3] { if i == 1 { acc_N = acc_N + cb_N(x) } } }()\nacc_N"),
        (8, "switch 2 { case 1: 0\n case 2: cb_N(1) }", "switch 2 { case 1: 0\n case 2: cb_N(1) }"),
        (8, "func() { defer func() { cb_N(2) }(); return 3 }()", "func() { defer func() { cb_N(2) }(); return 3 }()"),
        (9, "spawn(th_N, 1).wait()", "spawn(th_N, 1).wait()"),
        (9, "th_N.spawn(2).wait()", "th_N.spawn(2).wait()"),
        (9, "[spawn(th_N, 1), spawn(th_N, 2)].map(func(t) { return t.wait() })", "[spawn(th_N, 1), spawn(th_N, 2)].map(func(t) { return t.wait() })"),
        (3, "spawn(mqc.work, 5).wait()", "spawn(mqc.work, 5).wait()"),
        (10, "deep_N(%d)" % (1 + rng.below(40)), "deep_N(%d)" % (1 + rng.below(40))),
        (11, "pan_N(1)", "pan_N(1)"),
        (11, "[1].map(pan_N)", "[1].map(pan_N)"),
    ]
    uses = [(c, a.replace("_N", "_" + n), b.replace("_N", "_" + n)) for c, a, b in uses]
    base = gen.Gen(rng, budget=8).program_parts()
    head, rest = base[:2], split_parts(rng, base[2:])
    k0 = rng.below(len(rest) + 1)
    code, failing, _ = rng.choice(uses)
    prefix = rng.choice(["print(%d)" % rng.below(9), "log.append(%d)" % (90 + rng.below(9)), "acc_%s = acc_%s + 1" % (n, n), "limit += 1"])
    tail = rng.choice(["", "", "\nprint(777)", "\nlimit = 555", "\nlog.append(778)"])
    fpiece = prefix + "\nsetfuse(%d)\n" % code + failing + tail
    rpiece = prefix + "\nsetfuse(%d)" % code
    # while the fuse still holds the code: constructs with another code work, the failing one fails again
    during = [u[2] for u in uses if u[0] != code and not (code == 1 and u[0] in (2, 12))]
    mid = [rng.choice(during) for _ in range(rng.below(3))]
    if rng.chance(1, 3):
        mid.append(failing)
    after = [u[2] for u in uses]
    same = [u[2] for u in uses if u[0] == code]
    probes = [rng.choice(same)] + [rng.choice(after) for _ in range(2 + rng.below(5))]
    if rng.chance(1, 2):
        probes.insert(rng.below(len(probes) + 1), failing)       # the very statement that failed, now with the fuse off
    before = ["\n".join(head)] + split_parts(rng, defs) + rest[:k0]
    k = len(before)
    follow = mid + ["setfuse(0)"] + probes[:2] + rest[k0:] + probes[2:] + ["[acc_%s, limit, log]" % n]
    return mods, before + [fpiece] + follow, before + [rpiece] + follow, k


# ---------------------------------------------------------------- threads that are running when their piece ends

def waited_thread_program(rng, i):
    """threads (spawn / f.spawn) that are still RUNNING - in the middle of a long loop - or blocked and then running again when
    the piece that started or released them ends, and that a later piece waits for.  They take everything through parameters
    and give everything back through their result (no global is written by a thread), so there is one outcome whatever the
    schedule; the evaluators run under a context that has a Done channel and is never cancelled while the case runs."""
    n = str(i)
    L = ["func work_N(k, tag) { s := tag; for j := 0; j < k; j++ { s = s + j % 7 }; return [tag, s] }",
         "func held_N(c, k) { v := <-c; s := 0; for j := 0; j < k; j++ { s = s + j % 5 }; return v * 1000 + s % 1000 }",
         "acc_N := %d" % rng.below(5)]
    waits, names = [], []
    nt = 1 + rng.below(3)
    for w in range(nt):
        loops = 15000 + rng.below(25000)
        how = rng.below(6)
        t = "tq_%s_%d" % (n, w)
        if how == 0:
            L.append("%s := spawn(work_N, %d, %d)" % (t, loops, w + 1))
        elif how == 1:
            L.append("%s := work_N.spawn(%d, %d)" % (t, loops, w + 1))
        elif how == 2:
            L.append("%s := spawn(func(k) { s := 0; for j := 0; j < k; j++ { s = s + j %% 3 }; return s }, %d)" % (t, loops))
        elif how == 3:
            # blocked when its piece ends; released by a later piece and running when THAT piece ends
            L.append("gate_N_%d := chan(%s)" % (w, rng.choice(["1", "2", ""])))
            L.append("%s := spawn(held_N, gate_N_%d, %d)" % (t, w, loops))
            waits.append("gate_N_%d <- %d" % (w, 1 + rng.below(9)))
        elif how == 4:
            # a thread that starts and waits for a thread of its own
            L.append("%s := spawn(func(k) { inner := spawn(work_N, k, 9); return [inner.wait(), k] }, %d)" % (t, loops))
        else:
            # a thread that waits for an earlier one
            prev = names[-1] if names else None
            if prev:
                L.append("%s := spawn(func(o, k) { r := o.wait(); s := 0; for j := 0; j < k; j++ { s = s + j %% 11 }; return [r, s] }, %s, %d)" % (t, prev, loops))
            else:
                L.append("%s := spawn(work_N, %d, %d)" % (t, loops, w + 1))
        names.append(t)
        for _ in range(rng.below(3)):
            L.append(rng.choice(["acc_N = acc_N + 1", "acc_N = acc_N * 2", "print(acc_N)", "hostlist.append(acc_N)", "limit += 1"]))
    for wst in waits:
        L.append(wst)
        L.append(rng.choice(["acc_N = acc_N + 10", "print(limit)", "acc_N += 3"]))
    order = list(range(nt))
    for a in range(nt - 1, 0, -1):
        b = rng.below(a + 1)
        order[a], order[b] = order[b], order[a]
    for w in order:
        L.append("rq_%s_%d := %s.wait()" % (n, w, names[w]))
        if rng.chance(1, 2):
            L.append("acc_N = acc_N + 1")
    L.append("[acc_N, %s]" % ", ".join("rq_%s_%d" % (n, w) for w in range(nt)))
    return [x.replace("_N", "_" + n) for x in L]



# ---------------------------------------------------------------- rejected pieces that concern names of EARLIER pieces

HOST_OWNED = ["limit", "hostlist", "hostfn", "len", "print"]


def owned_clash_history(rng, i):
    """Earlier pieces OWN names - a function, a variable, a constant of their own, next to the host's globals - and a later
    piece is rejected by the compiler because it declares or assigns one of those names again (function redefinition, `:=` /
    `var` / `const` of an existing name, multi-assignment, assignment to a constant or a function, a duplicate parameter;
    alone or next to fresh declarations, before or after them).  Everything the earlier pieces declared stays usable: the
    pieces after the rejected one call, read, update and close over the owned names.
    -> (pieces, reference pieces = the same history without the rejected piece, index of the rejected piece)"""
    n = str(i)
    fn, var, con = "of_" + n, "ov_" + n, "ok_" + n
    owners = ["func %s(a) { return a + %d }" % (fn, 1 + rng.below(5)), "%s := %d" % (var, rng.below(9)), "const %s = %d" % (con, 2 + rng.below(7))]
    if rng.chance(1, 2):
        owners.append("func og_%s(a) { return %s(a) * 2 }" % (n, fn))
    for a in range(len(owners) - 1, 0, -1):
        b = rng.below(a + 1)
        if not (owners[a].startswith("func og_") or owners[b].startswith("func og_")):
            owners[a], owners[b] = owners[b], owners[a]
    anyname = rng.choice([fn, fn, fn, var, var, con, con] + HOST_OWNED)
    val = rng.choice(["%d" % rng.below(9), "\"s\"", "[1, 2]", "1 + 2", "limit", "%s(1)" % fn, "log.append(%d)" % (60 + rng.below(9))])
    forms = [
        "func NAME(a) { return 0 }", "func NAME() { log.append(55) }", "func NAME(a, b) { return a }\nfunc fresh_N() { return 1 }",
        "func fresh_N() { return 1 }\nfunc NAME(a) { return 2 }", "fresh_N := 1\nfunc NAME(a) { return 2 }",
        "func fresh_N() { return 1 }\nfunc fresh2_N() { return fresh_N() }\nfunc NAME() { }",
        "NAME := VAL", "var NAME = VAL", "const NAME = VAL", "fresh_N, NAME := [1, 2]", "NAME, fresh_N := [1, 2]",
        "FC = VAL", "FC += 1", "FC -= VAL", "func fresh_N(NAME, NAME) { return NAME }", "func fresh_N(a, a) { return NAME }",
        "func fresh_N() { NAME := 1; NAME := 2 }", "func fresh_N() { FC = 1 }", "NAME := func() { return 1 }", "fresh_N := 1; NAME := fresh_N",
    ]
    clash = rng.choice(forms).replace("NAME", anyname).replace("FC", rng.choice([fn, con])).replace("VAL", val).replace("_N", "_" + n)
    probes = ["FN(2)", "VAR", "CON", "VAR = VAR + 1", "VAR += FN(CON)", "func us_N_J() { return FN(VAR) + CON }\nus_N_J()", "print(FN(3))",
              "print([VAR, CON])", "[1, 2].map(FN)", "func() { VAR = VAR * 2; return FN(VAR) }()", "limit = limit + CON", "hostlist.append(FN(1))",
              "wq_N_J := FN(CON)", "func FN(a) { return 9 }", "VAR := 9", "const CON = 1", "FN = 1", "CON = 2", "hostfn(FN, VAR)", "len(hostlist)"]
    base = gen.Gen(rng, budget=8).program_parts()
    head, rest = base[:2], split_parts(rng, base[2:])
    before = ["\n".join(head)] + split_parts(rng, owners)
    k0 = rng.below(len(rest) + 1)
    before += rest[:k0]
    after = list(rest[k0:])
    for j in range(3 + rng.below(5)):
        pr = rng.choice(probes).replace("FN", fn).replace("VAR", var).replace("CON", con).replace("_N", "_" + n).replace("_J", "_%d" % j)
        after.insert(rng.below(len(after) + 1), pr)
    # the piece right after the rejected one often mentions the very name the rejection was about
    if rng.chance(2, 3):
        use = {fn: "%s(4)" % fn, var: var, con: con}.get(anyname, anyname if anyname in ("limit", "hostlist") else "%s(hostlist)" % anyname)
        after.insert(0, use)
    after.append("[%s(1), %s, %s, limit]" % (fn, var, con))
    k = len(before)
    return before + [clash] + after, before + after, k


# ---------------------------------------------------------------- pieces rejected because a limit is exceeded

def limit_reject_piece(rng, i, tier):
    """a piece the compiler refuses because one of its limits is exceeded: parameters (255), arguments of a call / a pipe / a
    partial (255), items of a list / map / set literal (65535), constants of one code object (65535: here of a NESTED function
    - the table of the main code stays as it was -, filled by two or three literals that are each below the literal limit),
    fragments of a template string"""
    n = str(i)
    c = rng.below(9 if tier == "quick" else 11)
    if c == 0:
        body = "func%s(%s) { return 1 }" % (rng.choice(["", " big_" + n]), ", ".join("p%d" % j for j in range(256 + rng.below(3))))
        return body
    if c == 1:
        return "%s(%s)" % (rng.choice(["hostfn", "print", "t"]), ", ".join(str(j % 7) for j in range(256 + rng.below(20))))
    if c == 2:
        return "[%s]" % ", ".join("1" for _ in range(65536 + rng.below(50)))
    if c == 3:
        return "lq_%s := {%s}" % (n, ", ".join(str(j) for j in range(65536 + rng.below(9))))
    if c in (4, 5, 6, 7):
        # constants of a nested function: every literal below the literal limit, together above the table's limit
        nl = 2 + rng.below(2)
        per = 65536 // nl + 1 + rng.below(400)
        lits = []
        for a in range(nl):
            lits.append("[%s]" % ", ".join(str(a * per + j) for j in range(per)))
        stmts = "; ".join("v%d := %s" % (a, l) for a, l in enumerate(lits))
        form = rng.choice(["func() { %s; return 1 }", "func() { %s; return 1 }", "hostfn(func(a) { %s; return a })", "func big_N() { %s; return 2 }",
                           "bq_N := func() { %s }", "func() { return func() { %s; return 3 } }", "[1, func() { %s }]"])
        return (form % stmts).replace("_N", "_" + n)
    if c == 8:
        return "hostlist | hostfn(%s)" % ", ".join("1" for _ in range(256 + rng.below(5)))
    if c == 9:
        return "{%s}" % ", ".join("\"k%d\": 1" % j for j in range(65536 + rng.below(9)))
    return "func() { %s }" % "; ".join("w%d := 0" % j for j in range(65536 + rng.below(9)))


def limit_reject_history(rng, i, tier):
    """a program of the generator cut into pieces, with a limit-exceeding piece inserted at a random position
    -> (pieces, reference pieces, index of the inserted piece)"""
    parts = gen.Gen(rng, budget=10).program_parts()
    n = str(i)
    parts.insert(1 + rng.below(len(parts)), "lv_%s := %d" % (n, rng.below(5)))
    at = max(j for j, ptxt in enumerate(parts) if ptxt.startswith("lv_")) + 1
    parts.insert(at, "func lf_%s(a) { lv_%s = lv_%s + a; return lv_%s }" % (n, n, n, n))
    for j in range(2 + rng.below(3)):
        parts.insert(at + 1 + rng.below(len(parts) - at), rng.choice(["print(lf_N(%d))" % j, "lv_N = lv_N * 2", "limit += 1", "lc_N_%d := [lf_N(1), \"c%d\", %d]" % (j, j, 1000 + j),
                                                                       "func lg_N_%d() { return lf_N(%d) + 1 }" % (j, 2000 + j)]).replace("_N", "_" + n))
    parts.append("[lv_%s, limit, log]" % n)
    pieces = split_parts(rng, parts)
    k = rng.below(len(pieces) + 1)
    return pieces[:k] + [limit_reject_piece(rng, i, tier)] + pieces[k:], pieces, k


def reject_class(api_result, earlier=()):
    """what the compiler kept of a rejected piece, as observed on the compiler (harness fields left / syms / codes / open / consts):
    `inert` - no symbol declared, no code object created, nothing emitted but plain loads (the complement of the known finding
    compile-rejected-piece-not-rolled-back): judged strictly;
    `closed` - something was kept (the known finding), but nothing that can make the compiler REFUSE a later piece: every function
    the piece opened in the main code was closed again (the compiler is not left inside a function body) and the constant table of
    the main code is not full.  The names it declared are its own (the generator gives every inserted piece fresh names), so a
    later piece that the same history without the insert accepts must still be accepted;
    `open` - anything else"""
    f = dict(x.split("=", 1) for x in api_result.split() if "=" in x)
    if "left" not in f or "syms" not in f:
        return "open"
    if f.get("syms") == "0" and f.get("codes") == "0" and (f["left"] == "-" or all(o in INERT_OPS for o in f["left"].split(","))):
        if not ("LOAD_GLOBAL" in api_result and any(r.startswith("ERR") for r in earlier)):
            return "inert"
    try:
        if int(f.get("open", "1")) == 0 and int(f.get("consts", "65535")) < 65000:
            return "closed"
    except ValueError:
        pass
    return "open"


THREAD_KNOWN = {
    "threads-nested": ("thread-code-loaded-in-clone-keeps-stale-globals",
                       "a thread whose function literal is nested in another function (its code is first loaded inside the thread's VM "
                       "clone) keeps the globals array of the piece that started it: its writes to globals are lost to later pieces and it does "
                       "not see theirs"),
    "threads-racing": ("reload-copies-globals-under-running-threads",
                       "every Run of a later piece copies the globals into a new array; a write to a global by a thread that is running at that "
                       "moment (the piece boundary lies between a message to the thread and its answer) can be lost - timing dependent"),
}
_KNOWN_IDS = None
_SEEN = {}


def known_ids():
    """ids of the open known findings of this property (known_findings.jsonl and the per-agent known_findings.*.jsonl)"""
    global _KNOWN_IDS
    if _KNOWN_IDS is None:
        import glob, json
        _KNOWN_IDS = set()
        for fn in [os.path.join(C.VERIF, "known_findings.jsonl")] + sorted(glob.glob(os.path.join(C.VERIF, "known_findings.*.jsonl"))):
            if os.path.exists(fn):
                for line in open(fn):
                    line = line.strip()
                    if line and not line.startswith("#"):
                        j = json.loads(line)
                        if j.get("property") == PROP and not j.get("fixed") and j.get("id"):
                            _KNOWN_IDS.add(j["id"])
    return _KNOWN_IDS


def build_repl_tool():
    """the REPL's own evaluator (cmd/risor/repl getEvaluator), driven through a test file that exists only in a
    build overlay: go test -c in the repository's workspace, nothing is written into /repo"""
    import json
    d = os.path.join(C.BUILD, "overlay")
    os.makedirs(d, exist_ok=True)
    C.write_if_changed(os.path.join(d, "repl_c18_test.go"), open(os.path.join(C.VERIF, "hooks", "repl_c18_test.go.txt")).read())
    ov = {"Replace": {os.path.join(C.REPO, "cmd", "risor", "repl", "zz_verif_c18_test.go"): os.path.join(d, "repl_c18_test.go")}}
    ovp = os.path.join(d, "overlay_repl.json")
    C.write_if_changed(ovp, json.dumps(ov, indent=1))
    out = os.path.join(C.BIN, "c18repl.test")
    env = dict(os.environ, GOPROXY="off")
    for k in ("GOFLAGS", "GOSUMDB", "GOTOOLCHAIN", "GOWORK"):
        env.pop(k, None)      # the repository's own workspace settings (go.work selects its toolchain)
    with C.Lock("go"):
        r = subprocess.run(["go", "test", "-c", "-tags", "verif", "-overlay", ovp, "-o", out, "./cmd/risor/repl"], cwd=C.REPO, env=env,
                           stdout=subprocess.PIPE, stderr=subprocess.STDOUT)
    if r.returncode != 0:
        return None, r.stdout.decode("utf-8", "replace")
    return out, ""


def hexline(pieces, mods=None):
    """one case line; `mods` (name -> source) are the local modules the case's importer serves"""
    pre = ""
    if mods:
        pre = ";".join("%s:%s" % (n, src.encode("utf-8").hex()) for n, src in sorted(mods.items())) + "@"
    return pre + ",".join(p.encode("utf-8", "surrogateescape").hex() for p in pieces)


def split_parts(rng, parts):
    """a random partition of the chunk list into consecutive pieces"""
    pieces, cur = [], []
    for ch in parts:
        cur.append(ch)
        if rng.chance(1, 2):
            pieces.append("\n".join(cur))
            cur = []
    if cur:
        pieces.append("\n".join(cur))
    return pieces


def parse_out(line):
    """-> (piece results list, globals str, trace str, whole str)"""
    inc, _, whole = line.partition("\t")
    body = inc[4:]
    res, _, rest = body.partition(" GLOBALS ")
    gl, _, tr = rest.partition(" TRACE ")
    return res.split("|"), gl, tr, whole


def _only_unassigned_names(a, b):
    """the globals listings differ only in names that the failing piece declared and never assigned (Go nil in the incremental run,
    absent from the reference)"""
    da = dict(x.split("=", 1) for x in a.split(";") if "=" in x)
    db = dict(x.split("=", 1) for x in b.split(";") if "=" in x)
    diff = [k for k in set(da) | set(db) if da.get(k) != db.get(k) and "?" not in (da.get(k), db.get(k))]
    return bool(diff) and all(da.get(k) == "(gonil)" and k not in db for k in diff)


def _gl_differ(a, b):
    """globals listings differ; a name the REPL route could not read back (`name=?`: a variable of an inner block, which is a
    global slot but not in scope for a later piece) is not compared"""
    da = dict(x.split("=", 1) for x in a.split(";") if "=" in x)
    db = dict(x.split("=", 1) for x in b.split(";") if "=" in x)
    for k in set(da) | set(db):
        va, vb = da.get(k), db.get(k)
        if va == "?" or vb == "?":
            continue
        if va != vb:
            return True
    return False


def _norm(results):
    """piece results without the harness's notes on what a rejected piece left in the compiler"""
    return ["REJECT compile" if r.startswith("REJECT compile") else r for r in results]


def _judge(res, route, cases, outs, oracle, hist, checked, distinct, inert=None, rclass=None):
    pos = 0
    for ci, (kind, pieces, ref, k) in enumerate(cases):
        o = outs[pos]
        pos += 1
        oref = None
        if ref is not None:
            oref = outs[pos]
            pos += 1
        hist[kind] = hist.get(kind, 0) + 1
        distinct.add(hexline(pieces))
        if o is None or not o.startswith("INC ") or (ref is not None and (oref is None or not oref.startswith("INC "))):
            oracle.append({"kind": "oracle-violation", "route": route, "case": kind, "pieces": pieces, "impl": (o or "")[:300],
                           "why": "the incremental evaluation did not return normally"})
            continue
        results, gl, tr, whole = parse_out(o)
        if "TIMEOUT" in o or (oref is not None and "TIMEOUT" in oref):
            # a piece ran into the evaluation's time budget (e.g. a loop that extends the list it ranges over): what it
            # has done by then depends on the clock, not on the program
            checked["skipped_time_budget"] = checked.get("skipped_time_budget", 0) + 1
            continue
        why = None
        if kind in ("split", "stack-growth", "threads", "threads-nested", "threads-racing", "threads-waited"):
            if whole.startswith("WHOLE OK"):
                wres, _, wrest = whole[9:].partition(" GLOBALS ")
                wgl, _, wtr = wrest.partition(" TRACE ")
                if any(r.startswith("ERR") or r.startswith("REJECT") for r in results):
                    why = "a piece of a program that evaluates as a whole was rejected or failed: %s" % results
                elif _gl_differ(gl, wgl):
                    why = "final globals differ from the whole-program run"
                elif results[-1] != "OK " + wres:
                    why = "the last piece's value %s is not the whole program's value %s" % (results[-1], wres)
                elif tr != wtr:
                    why = "printed output differs from the whole-program run"
                checked[kind] = checked.get(kind, 0) + 1
        else:
            rres, rgl, rtr, _ = parse_out(oref)
            inserted = results[k] if k < len(results) else "?"
            others = results[:k] + results[k + 1:]
            if kind == "parse-reject" and inserted != "REJECT parse":
                why = None     # the text happened to parse; not a rejected piece
            elif kind.startswith("compile-reject") and not inserted.startswith("REJECT compile"):
                why = None
            elif kind in ("runtime-failure", "runtime-failure-point"):
                if not inserted.startswith("ERR"):
                    why = None
                else:
                    ref_others = _norm(rres[:k] + rres[k + 1:])
                    others = _norm(others)
                    if others == ref_others and tr == rtr and _only_unassigned_names(gl, rgl):
                        res.known_finding("names declared by a piece that fails at run time before assigning them stay declared, without a "
                                          "value, for the pieces that follow (e.g. pieces `b := [1][5]`, `b`: the second is an eval error "
                                          "\"variable has no value\" instead of the compiler's \"undefined variable\")")
                    elif others != ref_others or _gl_differ(gl, rgl) or tr != rtr:
                        dk = [j for j in range(min(len(others), len(ref_others))) if others[j] != ref_others[j]]
                        why = "a piece that failed at run time changed what followed beyond its own effects" + (
                            ": piece %d (`%s`) gives %s, in the same history without the failure %s" % (
                                dk[0] + (1 if dk[0] >= k else 0), pieces[dk[0] + (1 if dk[0] >= k else 0)].replace("\n", "; ")[:120],
                                others[dk[0]], ref_others[dk[0]]) if dk else "")
                    checked[kind] = checked.get(kind, 0) + 1
            else:
                if _norm(others) != _norm(rres) or _gl_differ(gl, rgl) or tr != rtr:
                    dk = [j for j in range(min(len(others), len(rres))) if _norm(others[j:j + 1]) != _norm(rres[j:j + 1])]
                    why = "a rejected piece had an effect on the pieces that follow (results %s vs %s; globals %s vs %s)" % (
                        _norm(others[-3:]), _norm(rres[-3:]), gl[-80:], rgl[-80:])
                    if dk:
                        j = dk[0] + (1 if dk[0] >= k else 0)
                        why = "a rejected piece (`%s`) had an effect on the pieces that follow: piece %d (`%s`) gives %s, in the same history without the rejected piece %s" % (
                            pieces[k].replace("\n", "; ")[:100], j, pieces[j].replace("\n", "; ")[:100], _norm(others[dk[0]:dk[0] + 1])[0][:80], _norm(rres[dk[0]:dk[0] + 1])[0][:80])
                checked[kind] = checked.get(kind, 0) + 1
        if kind in ("compile-reject-owned", "compile-reject-limit") and ref is not None and k < len(results) and results[k].startswith("REJECT compile"):
            cls = (rclass or {}).get(ci, "open")
            checked[kind + ":" + cls] = checked.get(kind + ":" + cls, 0) + 1
            if why and cls == "closed":
                # the compiler kept something of the piece (the recorded finding), but nothing that lets it refuse later input:
                # a later piece that the history without the insert accepts and this one refuses is outside that finding
                rr = _norm(parse_out(oref)[0])
                oo = _norm(others)
                lost = [j for j in range(k, min(len(oo), len(rr))) if oo[j] == "REJECT compile" and rr[j] != "REJECT compile"]
                if lost:
                    j = lost[0] + 1
                    why = ("after a rejected piece (`%s`; every function it opened was closed, the main code's tables are not full) the compiler refuses a later "
                           "piece that it accepts in the same history without the rejected piece: piece %d (`%s`)" % (
                               pieces[k].replace("\n", "; ")[:100], j, pieces[j].replace("\n", "; ")[:100]))
                    cls = "inert"
            if why and cls != "inert":
                res.known_finding("a piece rejected by the compiler after it has emitted code, declared symbols or entered a function "
                                  "body is not rolled back (e.g. pieces `x := 1`, `x = 2; undefined_name`, `x` give 2)")
                continue
        if kind == "compile-reject-expr" and ref is not None and k < len(results) and results[k].startswith("REJECT compile"):
            cls = "inert" if (inert or {}).get(ci) else "leaves-code-behind"
            checked[kind + ":" + cls] = checked.get(kind + ":" + cls, 0) + 1
        if why and kind in THREAD_KNOWN:
            kid, text = THREAD_KNOWN[kind]
            if kid in known_ids():
                seen = _SEEN.setdefault(kid, {"count": 0, "text": text, "example": " | ".join(x.replace("\n", "; ") for x in pieces)[:400]})
                seen["count"] += 1
                continue
        if why:
            if kind == "compile-reject-compound" or (kind == "compile-reject-expr" and not (inert or {}).get(ci)):
                res.known_finding("a piece rejected by the compiler after it has emitted code, declared symbols or entered a function "
                                  "body is not rolled back (e.g. pieces `x := 1`, `x = 2; undefined_name`, `x` give 2)")
                continue
            oracle.append({"kind": "oracle-violation", "route": route, "case": kind, "pieces": pieces, "reference_pieces": ref, "impl": o[:600],
                           "reference": (oref or "")[:600], "why": why})



def run(res):
    tier = res.tier
    nprog = 500 if tier == "quick" else 12000
    nsplit = 4 if tier == "quick" else 10
    cov = res.coverage
    exe, err = C.go_build("c18obs")
    if not exe:
        res.violation({"property": PROP, "kind": "harness-build-failed", "stage": "go build c18obs", "log": err[-3000:]}, nofail=True, tag="build")
        return
    repl_exe, err = build_repl_tool()
    if not repl_exe:
        res.violation({"property": PROP, "kind": "harness-build-failed", "stage": "go test -c cmd/risor/repl with the overlay test file",
                       "log": err[-3000:]}, nofail=True, tag="build")
        return
    proved = C.prove(res, PROP)
    rng = C.Rng(res.seed)
    cases = []     # (kind, pieces, reference pieces or None, index of inserted piece or None)
    for i in range(nprog):
        parts = gen.Gen(rng, budget=30).program_parts()
        if i % 3 != 1:
            # functions defined in one piece that read and write globals reassigned by other pieces
            parts.insert(1 + rng.below(len(parts)), "cq_%d := %d" % (i, rng.below(5)))
            at = max(j for j, ptxt in enumerate(parts) if ptxt.startswith("cq_")) + 1
            body = rng.choice(["cq_%d += 1; return [limit, cq_%d]", "return cq_%d * 2 + cq_%d", "cq_%d = cq_%d + limit; return cq_%d" ])
            body = body.replace("%d", str(i))
            parts.insert(at, "func pq_%d() { %s }" % (i, body))
            for j in range(2 + rng.below(4)):
                st = rng.choice(["print(pq_%d())", "cq_%d = cq_%d * 2", "limit += 1", "print(cq_%d)", "cq_%d = pq_%d()"]).replace("%d", str(i))
                parts.insert(at + 1 + rng.below(len(parts) - at), st)
        if i % 3 != 2:
            # a function literal nested inside a function (a closure factory) that reads and writes a global: the inner code is
            # loaded when first called and must keep following the globals of the growing main code in every later piece
            parts.insert(1 + rng.below(len(parts)), "nq_%d := %d" % (i, rng.below(5)))
            at = max(j for j, ptxt in enumerate(parts) if ptxt.startswith("nq_")) + 1
            inner = rng.choice(["nq_%d = nq_%d + 1; return nq_%d", "return nq_%d * 10", "nq_%d += limit; return [nq_%d, limit]"]).replace("%d", str(i))
            parts.insert(at, "func mkq_%d() { k := 1; return func() { %s } }" % (i, inner))
            parts.insert(at + 1, "hn_%d := mkq_%d()" % (i, i))
            for j in range(2 + rng.below(4)):
                st = rng.choice(["print(hn_%d())", "nq_%d = nq_%d * 2", "print(nq_%d)", "print(mkq_%d()())", "nq_%d = hn_%d()[0] if false else nq_%d + 3"])
                if " if " in st:
                    st = "nq_%d = nq_%d + 3"
                parts.insert(at + 2 + rng.below(len(parts) - at - 1), st.replace("%d", str(i)))
        if i % 2 == 0:
            # statements over the host-provided globals (a number, a list, a builtin), reassigned and read across pieces
            for j in range(1 + rng.below(4)):
                st = rng.choice(HOST_STMTS)
                if "%d" in st:
                    st = st % (i * 10 + j)
                parts.insert(1 + rng.below(len(parts)), st)
        for _ in range(nsplit):
            pieces = split_parts(rng, parts)
            cases.append(("split", pieces, None, None))
            k = rng.below(len(pieces) + 1)
            which = rng.below(4)
            if which == 0:
                ins = rng.choice(PARSE_REJECTS)
                cases.append(("parse-reject", pieces[:k] + [ins] + pieces[k:], pieces, k))
            elif which == 1 and rng.chance(1, 2):
                # an assignment to a constant whose right-hand side has an effect: rejected as a whole, the effect never happens
                cdecl = "const kq_%d = %d" % (i, rng.below(9))
                ins = rng.choice(["kq_%d = log.append(%d)", "kq_%d += len(log.append(%d))", "kq_%d = t(%d, 1)", "kq_%d *= t(%d, 2)",
                                  "kq_%d = func() { log.append(%d); return 1 }()"]) % (i, 70 + rng.below(9))
                ref = pieces[:k] + [cdecl] + pieces[k:]
                cases.append(("compile-reject-leaf", pieces[:k] + [cdecl, ins] + pieces[k:], ref, k + 1))
            elif which == 1:
                ins = rng.choice(LEAF_COMPILE_REJECTS)
                cases.append(("compile-reject-leaf", pieces[:k] + [ins] + pieces[k:], pieces, k))
            elif which == 2:
                ins = rng.choice(COMPOUND_COMPILE_REJECTS)
                cases.append(("compile-reject-compound", pieces[:k] + [ins] + pieces[k:], pieces, k))
            else:
                # a failing piece: its own statements run, then a runtime error; reference = the same piece without the error
                body = rng.choice(["fq_%d := %d" % (i, rng.below(9)), "print(%d)" % rng.below(9), "log.append(%d)" % (90 + rng.below(9))])
                fail = rng.choice(["1 / 0", "[1][5]", "{}[\"nokey\"]", "nil()", "rq_%d(0)" % i, "sq_%d(0)" % i])
                if fail.startswith("rq_"):
                    # failure through a recovered Go panic: more than 1024 frames
                    body += "\nfunc rq_%d(n) { return rq_%d(n + 1) }" % (i, i)
                elif fail.startswith("sq_"):
                    # ... and through operand stack exhaustion
                    body += "\nfunc sq_%d(n) { return [n, sq_%d(n + 1)] }" % (i, i)
                # statements after the failing one must not run, now or later
                tail = rng.choice(["", "", "\nprint(777)", "\nlimit = 555", "\nlog.append(778)"])
                kk = max(k, 1)      # after `log`/`t` exist
                cases.append(("runtime-failure", pieces[:kk] + [body + "\n" + fail + tail] + pieces[kk:], pieces[:kk] + [body] + pieces[kk:], kk))
            if _ % 2 == 0:
                # a rejected piece of some expression form, at a random position
                k2 = rng.below(len(pieces) + 1)
                cases.append(("compile-reject-expr", pieces[:k2] + [reject_piece(rng, i)] + pieces[k2:], pieces, k2))
    # programs whose threads live across the piece boundaries
    for i in range(400 if tier == "quick" else 8000):
        parts, nested = thread_program(rng, i)
        kind = "threads-nested" if nested else "threads"
        for _ in range(2):
            cases.append((kind, split_parts(rng, parts), None, None))
        cases.append((kind, list(parts), None, None))      # one chunk per piece
        if i % 4 == 0 and not nested:
            # message and answer in different pieces: the thread is running while the next piece is loaded
            cases.append(("threads-racing", [x for ch in parts for x in ch.split("\n")], None, None))
    # pieces that fail inside an import, a deferred call, a callback, a waited thread, deep frames ... and the same machinery afterwards
    case_mods = {}
    for i in range(700 if tier == "quick" else 16000):
        mods, pieces, ref, k = failure_point_history(rng, i)
        case_mods[len(cases)] = mods
        cases.append(("runtime-failure-point", pieces, ref, k))
    # threads that are running (or blocked, then running) at the piece boundaries and are waited for by a later piece
    for i in range(120 if tier == "quick" else 2500):
        parts = waited_thread_program(rng, i)
        cases.append(("threads-waited", split_parts(rng, parts), None, None))
        cases.append(("threads-waited", list(parts), None, None))
    # rejected pieces whose rejection is about a name that earlier pieces own; everything those pieces declared stays usable
    for i in range(600 if tier == "quick" else 12000):
        pieces, ref, k = owned_clash_history(rng, i)
        cases.append(("compile-reject-owned", pieces, ref, k))
    # pieces rejected because a limit of the compiler is exceeded, at every position
    for i in range(48 if tier == "quick" else 320):
        pieces, ref, k = limit_reject_history(rng, i, tier)
        cases.append(("compile-reject-limit", pieces, ref, k))
    # corpus: the design witnesses and the witnesses of repaired defects
    cases.append(("split", ["x := 1; func g() { return x + 1 }", "g()", "x = 10", "g()"], None, None))
    cases.append(("split", ["x := 1", "func g() { x = x + 1; return x }", "g()", "y := 5", "x = 10", "g()", "[x, y]"], None, None))
    cases.append(("runtime-failure", ["a := 1", "b := [1][5]", "[a]"], ["a := 1", "0", "[a]"], 1))
    cases.append(("split", ["b := [1][5]", "[b]", "print([b, b])"], None, None))      # must not crash the evaluator
    cases.append(("compile-reject-compound", ["x := 1", "x = 2; undefined_name", "x"], ["x := 1", "x"], 1))
    cases.append(("stack-growth", ["1"] * 1100, None, None))

    lines = []
    for ci, (kind, pieces, ref, k) in enumerate(cases):
        lines.append(hexline(pieces, case_mods.get(ci)))
        if ref is not None:
            lines.append(hexline(ref, case_mods.get(ci)))
    nsh = C.NCPU
    chunks = [lines[s::nsh] for s in range(nsh)]
    os.makedirs(C.WORK, exist_ok=True)
    import tempfile, shutil
    work_dir = tempfile.mkdtemp(prefix="c18-", dir=C.WORK)

    def work(s):
        return subprocess.run([exe], input=("\n".join(chunks[s]) + "\n").encode(), stdout=subprocess.PIPE).stdout.decode("utf-8", "replace").splitlines()

    def work_repl(s):
        fin, fout = os.path.join(work_dir, "in%d" % s), os.path.join(work_dir, "out%d" % s)
        with open(fin, "w") as f:
            f.write("\n".join(chunks[s]) + "\n")
        env = dict(os.environ, VERIF_C18_IN=fin, VERIF_C18_OUT=fout)
        subprocess.run([repl_exe, "-test.run", "^TestVerifC18$", "-test.timeout", "0"], env=env, stdout=subprocess.DEVNULL, stderr=subprocess.DEVNULL, cwd=work_dir)
        try:
            return open(fout, encoding="utf-8", errors="replace").read().splitlines()
        except OSError:
            return []
    try:
        with ThreadPoolExecutor(max_workers=nsh) as ex:
            parts_out = list(ex.map(work, range(nsh)))
            parts_repl = list(ex.map(work_repl, range(nsh)))
    finally:
        shutil.rmtree(work_dir, ignore_errors=True)
    routes = {}
    for name, po in (("repl", parts_repl), ("api", parts_out)):
        outs = [None] * len(lines)
        for s in range(nsh):
            for j, l in enumerate(po[s]):
                if s + j * nsh < len(outs):
                    outs[s + j * nsh] = l
        routes[name] = outs

    oracle = []
    hist = {}
    checked = {}
    distinct = set()
    _SEEN.clear()
    # class of every inserted expression reject, decided on what the API route saw the compiler keep of it
    inert = {}
    rclass = {}
    pos = 0
    for ci, (kind, pieces, ref, k) in enumerate(cases):
        o = routes["api"][pos]
        pos += 1 if ref is None else 2
        if kind == "compile-reject-expr" and o is not None and o.startswith("INC "):
            results = parse_out(o)[0]
            if k < len(results) and results[k].startswith("REJECT compile"):
                inert[ci] = inert_reject(pieces[k], results[k], results[:k])
        if kind in ("compile-reject-owned", "compile-reject-limit") and o is not None and o.startswith("INC "):
            results = parse_out(o)[0]
            if k < len(results) and results[k].startswith("REJECT compile"):
                rclass[ci] = reject_class(results[k], results[:k])
    for route, outs in routes.items():
        _judge(res, route, cases, outs, oracle, hist, checked, distinct, inert, rclass)
    outs = routes["repl"]
    cov["evaluations"] = 2 * len(lines)
    cov["distinct_nontrivial"] = len(distinct)
    cov["rule"] = ("programs of the C01 generator cut into random partitions of their top-level statements and fed to ONE compiler and ONE "
                   "VM - by the REPL's own evaluator (cmd/risor/repl getEvaluator, reached through an overlay test file) and by the same steps through the embedding API, with host-provided globals (a number, a list, a builtin) reassigned and read across pieces - compared with the whole-program run (final globals via vm.Get, last value, print "
                   "trace); with parser-rejected, compiler-rejected (leaf and compound) and run-time-failing pieces (returned errors and recovered panics: frame and stack exhaustion; with statements after the failing one) inserted at random "
                   "positions, compared with the same history without the insert; rejected one-statement pieces of every expression form (pipes, calls, index, slices, "
                   "operators, ternary, template strings, literals, attribute access, assignments, function literals, conditions) with an undefined name "
                   "or a nested pipe inside, judged strictly when the compiler kept nothing of them but plain loads; channel-synchronised programs whose "
                   "threads (go / spawn) live across the piece boundaries and share globals with the main code; pieces that fail INSIDE the top-level code of "
                   "an imported local module (an importer serves modules whose code fails while a host-side fuse is set: three import forms, nested imports, "
                   "a callback / thread / too-deep recursion at module level), inside a function of a module, a deferred call, a callback of a builtin method, a "
                   "thread being waited for, a deep chain of frames, a loop / switch / literal with pending operands - followed by pieces that use the very "
                   "same modules, functions, callbacks and threads again with the fuse off, compared with the history that has the piece without its "
                   "failing statement; threads (spawn / f.spawn, threads of threads) that are in the middle of a long loop - or blocked, then released and running - "
                   "when their piece ends and are waited for by a later piece, under a context with a Done channel that is never cancelled during the case; "
                   "rejected pieces whose rejection concerns a name that EARLIER pieces own (a function, a variable, a constant of the program, the host's globals): "
                   "function redefinition, := / var / const of an existing name, multi-assignment, assignment to a constant or a function, duplicate parameters - alone, "
                   "before and after fresh declarations - followed by pieces that call, read, update, close over and try to redeclare the owned names; pieces rejected "
                   "because a LIMIT is exceeded (parameters, arguments of calls / pipes, items of list / set / map literals, constants of a nested function filled by "
                   "literals that are each below the literal limit; thorough: locals) at every position.  For these two families the harness reports what the compiler kept "
                   "of the piece (instructions, symbols, code objects, functions opened in the main code and not closed, size of the main constant table): pieces that "
                   "kept nothing but plain loads are judged strictly, pieces that kept something but nothing that can make the compiler refuse later input must not "
                   "make it refuse a later piece that the history without them accepts; plus 1100 one-expression pieces (stack growth). "
                   "Non-trivial = distinct histories.")
    cov["samples"] = [{"kind": cases[1][0], "pieces": cases[1][1]}, {"impl": outs[0][:300]}]
    cov["input_distribution"] = hist
    cov["oracle_checked"] = checked
    res.assumptions += [
        "the theorems are about the reduced store-transformer model (model/Repl.v): rejected pieces are never executed there; that the real "
        "compiler leaves no trace of a rejected piece is what the oracle checks (and what the known finding is about)",
        "whole-program runs that fail are not compared (the REPL continues after a failure by design)",
    ]
    for kid, seen in sorted(_SEEN.items()):
        res.known_finding("%s: %s [%d histories this run, e.g. pieces %s]" % (kid, seen["text"], seen["count"], seen["example"]))
    for v in oracle[:10]:
        v["property"] = PROP
        res.violation(v)
    if oracle:
        return
    if not proved:
        res.violation({"property": PROP, "kind": "proof-obligation-broken", "theorem_file": "coq/props/C18.v", "broken": res.broken,
                       "search": "no failing history among %d" % len(lines)}, nofail=True, tag="proof")


def replay(data):
    import json
    print(json.dumps(data, indent=1)[:3000])
    exe, err = C.go_build("c18obs")
    if exe and data.get("pieces"):
        print(C.run([exe], input=(hexline(data["pieces"]) + "\n").encode())[1][:2000])
    return 0
