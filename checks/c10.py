"""C10 - channels and spawned threads deliver every value exactly once, in order.

Tie of coq/model/Chan.v + Spawn.v to /repo (every run):
  A  single-goroutine histories (send / receive / one range step / close / keys(ch) / map(ch) on one channel, capacity
     0..8, including send-on-closed, close-of-closed, receive-after-close and operations that block for ever):
     event by event equal to the extracted model's seq_step;
  B  producer/consumer topologies (1..4 senders x 1..4 receivers, any number of them ranging, all spawn forms, receive
     forms and range forms, GOMAXPROCS in {1,2,16}, injected yields): the per-receiver logs collected through host
     builtins are judged by an independent oracle (exactly once, per-sender order, keys) and by the extracted acceptor
     `accept` (proved sound: C10_accept_sound);
  C  tiny topologies run many times: every observed outcome (keys included) must be one of the outcomes the model
     reaches when ALL its schedules are enumerated (driver command `reach`);
  D  spawn scenarios (go / spawn() / fn.spawn() / builtin.spawn() / a host calling object.Spawn from Go, results,
     raised errors, Go panics, several waiters, variables reassigned and the passed slice overwritten after the spawn
     site) against the extracted `predict`;
  D2 launcher functions whose closures over private locals are started as threads;
  D3 launch matrix: every kind of callable that can be launched (script function, closure, the result of a call, a bound
     method of a list with a script callback - each / map / filter -, a builtin with a script callback - try / call /
     sorted) x every way of launching (go, spawn(f, args), f.spawn(args)) x every way of writing an argument at the
     launch site (variable reassigned afterwards, literal, arithmetic, calls of script functions and builtins, nested
     calls, method calls, index expressions, a call with a recorded side effect), while the launching code goes on
     computing and receiving: parameters seen by the launched call, order of the side effects around the launch,
     exactly-once / per-sender order, the launcher's own sum and the wait() results, against expectations computed from
     the scenario (oracle only);
  H  producers: every loop form that yields the values which are sent, handed to threads or stored (C-style, range over
     int / list / string / map / set by key and by value, `in`, explicit iterators with next() / entry(), callbacks of
     each / map / filter), 300..2600 values, the loop variable itself sent (operator / method), given to spawn / go /
     fn.spawn threads that wait behind a gate, or stored; receivers hold what they got and hand it over after the
     producer has finished (lib/c10prod.py; oracle only);
  E  2..4 goroutines ranging over one channel, 20000 messages (the class repaired by 0f2710a: regression stage);
  F  a sample of B, D and E in a -race build;
  G  keys(ch) / map(ch) consumers (object.IterNextEntry): one next to receive() users, and several at once on one channel
     (the class repaired by ce76520: regression stage).
"""
import json
import os
import shutil
import subprocess
import tempfile
from concurrent.futures import ThreadPoolExecutor

from lib import common as C

PROP = "C10"
LEVEL = "proof"
M = 1000000          # value = sender * M + sequence number
KNOWN_CLASS = None      # no open finding (range-multi-receiver: 0f2710a, iterator-protocol-multi-consumer: ce76520)
KNOWN_ID = None


# ------------------------------------------------------------------ known findings (own file first)

def load_known():
    out = []
    for name in ("known_findings.jsonl",):
        p = os.path.join(C.VERIF, name)
        if not os.path.exists(p):
            continue
        for line in open(p):
            line = line.strip()
            if not line or line.startswith("#"):
                continue
            j = json.loads(line)
            if j.get("property") == PROP and not j.get("fixed") and j.get("id") not in [x.get("id") for x in out]:
                out.append(j)
    return out


# ------------------------------------------------------------------ A: single-goroutine histories

RANGE_FORMS = ["kv", "k", "v", "in"]


def gen_seq_case(rng, malformed):
    cap = rng.below(9)
    n = 1 + rng.below(12)
    ops, q, closed = [], 0, False
    nextv = 1 + rng.below(50)
    for _ in range(n):
        if malformed:
            kind = rng.choice("ssrrickm")
        else:
            # mostly valid: avoid blocking and errors, but keep a little of both
            choices = []
            if not closed and q < cap:
                choices += ["s"] * 4
            if q > 0 or closed:
                choices += ["r"] * 2 + ["i"] * 2
            if not closed and rng.chance(1, 6):
                choices += ["c"]
            if closed and rng.chance(1, 3):
                choices += ["k", "m"]
            if not choices or rng.chance(1, 25):
                choices = list("ssrrickm")
            kind = rng.choice(choices)
        if kind == "s":
            ops.append(("s", nextv, rng.choice(["op", "method"])))
            nextv += 1 + rng.below(3)
            if not closed and q < cap:
                q += 1
        elif kind == "r":
            ops.append(("r", None, rng.choice(["op", "method"])))
            q = max(0, q - 1)
        elif kind == "i":
            ops.append(("i", None, rng.choice(RANGE_FORMS)))
            q = max(0, q - 1)
        elif kind in ("k", "m"):
            ops.append((kind, None, "builtin"))
            q = 0
        else:
            ops.append(("c", None, rng.choice(["builtin", "method"])))
            closed = True
    return cap, ops


def seq_script(cap, ops):
    L = ["ch := chan(%d)" % cap if cap > 0 else "ch := chan()", "n := 0"]
    for kind, v, form in ops:
        if kind == "s":
            stmt = "ch <- %d" % v if form == "op" else "ch.send(%d)" % v
            L.append('rec("h", try(func() { %s; return "sent" }, func(e) { return string(e) }))' % stmt)
        elif kind == "r":
            ex = "<-ch" if form == "op" else "ch.receive()"
            L.append('rec("h", try(func() { return [%s] }, func(e) { return string(e) }))' % ex)
        elif kind == "c":
            stmt = "close(ch)" if form == "builtin" else "ch.close()"
            L.append('rec("h", try(func() { %s; return "closed" }, func(e) { return string(e) }))' % stmt)
        elif kind == "k":
            L.append('rec2("h", "keys", keys(ch))')
        elif kind == "m":
            L.append('rec2("h", "map", map(ch))')
        else:
            head = {"kv": "for k, v := range ch", "k": "for k := range ch", "v": "for _, v := range ch",
                    "in": "for v in ch"}[form]
            body = {"kv": 'rec2("h", k, v)', "k": 'rec2("h", k, "_")', "v": 'rec2("h", "_", v)',
                    "in": 'rec2("h", "_", v)'}[form]
            L.append('n = 0; %s { %s; n = 1; break }; if n == 0 { rec("h", "end") }' % (head, body))
    L.append('"done"')
    return "\n".join(L)


def seq_model_line(cap, ops):
    toks = []
    for kind, v, _ in ops:
        toks.append("s%d" % v if kind == "s" else kind)
    return "seq\t%d\t%s" % (cap, ",".join(toks))


def foriter_variant():
    """Which ForIter does the tree have?  0: iter.Next(ctx) with the value dropped, then iter.Entry() (two steps sharing
    Chan.lastReceived); 1: channels take value and entry in one step (Chan.NextEntry, the proposed repair); None: neither."""
    import re
    try:
        src = open(os.path.join(C.REPO, "vm", "vm.go")).read()
        ch = open(os.path.join(C.REPO, "object", "chan.go")).read()
    except OSError:
        return None, "vm/vm.go or object/chan.go not readable"
    m = re.search(r"case op\.ForIter:(.*?)\n\t\tcase op\.", src, re.S)
    if not m:
        return None, "case op.ForIter not found in vm/vm.go"
    blk = m.group(1)
    if "NextEntry(" in blk and "func (c *Chan) NextEntry(" in ch:
        return 1, "ForIter uses Chan.NextEntry for channels"
    if re.search(r"_,\s*ok\s*:?=\s*iter\.Next\(ctx\)", blk) and "iter.Entry()" in blk and "c.lastReceived = value" in ch:
        return 0, "ForIter drops the value of iter.Next and calls iter.Entry; Chan.Next stores lastReceived"
    return None, "ForIter / Chan.Next have a shape the model does not know"


def builtins_variant():
    """keys() / map() must take each value of an iterator through object.IterNextEntry (one call for a channel)."""
    try:
        src = open(os.path.join(C.REPO, "builtins", "builtins.go")).read()
        ch = open(os.path.join(C.REPO, "object", "chan.go")).read()
    except OSError:
        return False, "builtins/builtins.go or object/chan.go not readable"
    if "iter.Entry()" in src:
        return False, "builtins/builtins.go calls iter.Entry() again (Next then Entry on a channel shares Chan.lastReceived)"
    if src.count("object.IterNextEntry(ctx, iter)") < 2 or "func IterNextEntry(" not in ch or "return ch.NextEntry(ctx)" not in ch:
        return False, "builtins.Map / iterKeys do not go through object.IterNextEntry -> Chan.NextEntry"
    return True, "builtins.Map and iterKeys use object.IterNextEntry"


def seq_expected(model_out, ops):
    """adapt the model's events to what the chosen range form lets the script see"""
    evs = model_out.split(",") if model_out else []
    out = []
    for e, (kind, v, form) in zip(evs, ops):
        if e.startswith("entry:"):
            _, k, val = e.split(":")
            if form == "k":
                val = "_"
            elif form in ("v", "in"):
                k = "_"
            e = "entry:%s:%s" % (k, val)
        out.append(e)
    if evs and evs[-1] == "BLOCK" and len(evs) <= len(ops) + 1:
        if not out or out[-1] != "BLOCK":
            out.append("BLOCK")
    return out


def seq_observed(resp, timeout_ms):
    out = []
    timed_out = bool(resp.get("error")) and ("context deadline exceeded" in resp["error"] or "context canceled" in resp["error"])
    if resp.get("ctx_done") or resp.get("ms", 0) >= timeout_ms:
        timed_out = True        # the deadline passed while the script was running: some operation blocked
    for x in resp["logs"].get("h", []):
        if isinstance(x, str):
            t = x[2:]
            if t == "sent" or t == "closed" or t == "end":
                out.append(t)
            elif "send on closed channel" in t:
                out.append("sendclosed")
            elif "close of closed channel" in t:
                out.append("closeerr")
            elif "context deadline exceeded" in t or "context canceled" in t:
                out.append("BLOCK")
                timed_out = True
            else:
                out.append("other(" + t + ")")
        elif isinstance(x, list) and len(x) == 1:
            out.append("nil" if x[0] is None else "recv:%s" % x[0])
        elif isinstance(x, list) and len(x) == 2 and x[0] == "s:keys":
            out.append("keys:" + "|".join(str(k) for k in (x[1] or [])))
        elif isinstance(x, list) and len(x) == 2 and x[0] == "s:map":
            m_ = x[1] if isinstance(x[1], dict) else {}
            out.append("map:" + "|".join("%s=%s" % (k, m_[k]) for k in sorted(m_, key=lambda z: int(z) if z.lstrip("-").isdigit() else 0)))
        elif isinstance(x, list) and len(x) == 2:
            k = "_" if x[0] == "s:_" else x[0]
            v = "_" if x[1] == "s:_" else x[1]
            out.append("entry:%s:%s" % (k, v))
        else:
            out.append("other(%r)" % (x,))
    if resp.get("error") and not timed_out:
        out.append("error(" + resp["error"] + ")")
    if timed_out:
        # The evaluation ran into its deadline, so one operation blocked.  Nothing blocks on a closed channel, hence the
        # channel was open and an "end" (or the return of keys()/map()) can only be an iteration left through the ctx.Done()
        # branch of Chan.Next / Chan.NextEntry.
        for k, g in enumerate(out):
            if g in ("BLOCK", "end") or g.startswith(("keys:", "map:")):
                return out[:k] + ["BLOCK"]
        out.append("BLOCK")
    return out


# ------------------------------------------------------------------ B / C / E: topologies

RECV_KINDS = ["op", "method", "range_kv", "range_v", "range_in"]
SPAWN_FORMS = ["go", "spawn", "fnspawn"]


def topo_script(cfg):
    """cfg: cap, counts[list], rkinds[list], sform[list per sender], send_form[list], yields(bool)"""
    L = ["ch := chan(%d)" % cfg["cap"] if cfg["cap"] > 0 else "ch := chan()",
         "fin := chan(%d)" % len(cfg["counts"])]
    y = "; yield()" if cfg.get("yields") else ""
    L.append("func sender_op(i, n) { for k := 0; k < n; k++ { v := i * %d + k; ch <- v%s }; fin <- i }" % (M, y))
    L.append("func sender_method(i, n) { for k := 0; k < n; k++ { ch.send(i * %d + k)%s }; fin <- i }" % (M, y))
    L.append("func r_op(j) { for { v := <-ch; if v == nil { break }; rec(j, v) } }")
    L.append("func r_method(j) { for { v := ch.receive(); if v == nil { break }; rec(j, v) } }")
    L.append("func r_range_kv(j) { for k, v := range ch { rec2(j, k, v) } }")
    L.append("func r_range_v(j) { for _, v := range ch { rec(j, v) } }")
    L.append("func r_range_in(j) { for v in ch { rec(j, v) } }")
    L.append("func r_map(j) { m := map(ch); for _, v := range m { rec(j, v) } }")
    L.append("ts := []")
    for j, rk in enumerate(cfg["rkinds"]):
        L.append("ts.append(spawn(r_%s, %d))" % (rk, j))
    for i, n in enumerate(cfg["counts"]):
        f = "sender_" + cfg["send_form"][i]
        sf = cfg["sform"][i]
        if sf == "go":
            L.append("go %s(%d, %d)" % (f, i, n))
        elif sf == "spawn":
            L.append("spawn(%s, %d, %d)" % (f, i, n))
        else:
            L.append("%s.spawn(%d, %d)" % (f, i, n))
    L.append("for i := 0; i < %d; i++ { <-fin }" % len(cfg["counts"]))
    L.append("close(ch)")
    L.append("for _, t := range ts { t.wait() }")
    L.append('"done"')
    return "\n".join(L)


def n_iter(cfg):
    return sum(1 for k in cfg["rkinds"] if k.startswith("range"))


def n_proto(cfg):
    return sum(1 for k in cfg["rkinds"] if k == "map")


def gen_topo(rng, tier, big=False):
    ns, nr = 1 + rng.below(4), 1 + rng.below(4)
    cap = rng.below(9)
    if big:
        counts = [10000 if i == 0 else rng.choice([10000, 3000, 500]) for i in range(ns)]
    else:
        top = rng.choice([5, 40, 300, 2000])
        counts = [rng.below(top + 1) for _ in range(ns)]
    # any number of receiving and of ranging goroutines (C10_exactly_once)
    rkinds = [rng.choice(RECV_KINDS) for _ in range(nr)]
    return {"cap": cap, "counts": counts, "rkinds": rkinds,
            "sform": [rng.choice(SPAWN_FORMS) for _ in range(ns)],
            "send_form": [rng.choice(["op", "method"]) for _ in range(ns)],
            "yields": rng.chance(1, 4) and not big,
            "procs": rng.choice([1, 2, 16]), "yield_seed": rng.below(1 << 30) if rng.chance(1, 2) else 0}


def topo_logs(cfg, resp):
    """per receiver: list of values and (for range_kv) list of keys"""
    vals, keys = [], []
    for j, rk in enumerate(cfg["rkinds"]):
        lg = resp["logs"].get(str(j), [])
        if rk == "range_kv":
            keys.append([x[0] for x in lg])
            vals.append([x[1] for x in lg])
        else:
            keys.append(None)
            vals.append(list(lg))
    return vals, keys


def topo_oracle(cfg, resp):
    """The property itself on the implementation's observations.  Returns (why or None, facts)."""
    if resp.get("overflow"):
        return "runaway evaluation: receivers recorded more values than 4x the number sent (a receive loop never saw nil / the end)", {}
    if resp.get("error"):
        return "evaluation failed: %s" % resp["error"], {}
    if resp.get("result") != "s:done":
        return "unexpected result %r" % (resp.get("result"),), {}
    vals, keys = topo_logs(cfg, resp)
    got = {}
    order_why = None
    for j, lg in enumerate(vals):
        lastseq = {}
        for v in lg:
            if not isinstance(v, int):
                return "receiver %d was handed a non-value %r" % (j, v), {}
            got[v] = got.get(v, 0) + 1
            i, k = divmod(v, M)
            if i in lastseq and k <= lastseq[i] and order_why is None and cfg["rkinds"][j] != "map":
                order_why = "receiver %d got value %d of sender %d after value %d (order / repetition)" % (j, k, i, lastseq[i])
            lastseq[i] = max(k, lastseq.get(i, -1))
    dups = sorted(v for v, c in got.items() if c > 1)
    lost = []
    for i, n in enumerate(cfg["counts"]):
        for k in range(n):
            if i * M + k not in got:
                lost.append(i * M + k)
    alien = sorted(v for v in got if v // M >= len(cfg["counts"]) or v % M >= cfg["counts"][v // M])
    facts = {"dups": len(dups), "lost": len(lost), "delivered": sum(got.values())}
    if alien:
        return "values never sent were delivered: %s" % alien[:5], facts
    if dups or lost:
        return "delivered twice: %s ; never delivered: %s (sent %d, delivered %d)" % (
            dups[:5], lost[:5], sum(cfg["counts"]), sum(got.values())), facts
    if order_why:
        return order_why, facts
    allk = []
    for j, ks in enumerate(keys):
        if ks is None:
            continue
        if any(not isinstance(x, int) for x in ks) or any(ks[x] >= ks[x + 1] for x in range(len(ks) - 1)):
            return "range keys of receiver %d are not increasing: %r" % (j, ks[:8]), facts
        allk += ks
    if len(set(allk)) != len(allk):
        return "a range key was handed out twice", facts
    if allk and all(k == "range_kv" for k in cfg["rkinds"] if k.startswith("range")) and not any(k == "map" for k in cfg["rkinds"]) \
            and sorted(allk) != list(range(len(allk))):
        return "range keys are not 0..%d: %r" % (len(allk) - 1, sorted(allk)[:8]), facts
    return None, facts


def accept_line(cfg, resp):
    vals, _ = topo_logs(cfg, resp)
    progs = ";".join(",".join(str(k) for k in range(n)) for n in cfg["counts"])
    logs = ";".join(",".join("%d:%d" % divmod(v, M) for v in lg if isinstance(v, int) and v // M < 64) for lg in vals)
    return "accept\t%s\t%s" % (progs, logs)


def reach_outcome(cfg, resp):
    parts = []
    for j, rk in enumerate(cfg["rkinds"]):
        lg = resp["logs"].get(str(j), [])
        if rk == "range_kv":
            parts.append(",".join("%s:%s" % (x[0], x[1] % M + 100 * (x[1] // M)) for x in lg))
        else:
            parts.append(",".join(str(v % M + 100 * (v // M)) for v in lg))
    return ";".join(parts)


# ------------------------------------------------------------------ D: spawn scenarios

SP_FORMS = ["spawn", "fnspawn", "go", "bspawn", "host"]


def gen_spawn(rng):
    form = rng.choice(SP_FORMS)
    nv = 1 + rng.below(4)
    vals = [1 + rng.below(90) for _ in range(nv)]
    na = rng.below(4) + (1 if form in ("host",) else 0)
    args = [rng.below(nv) for _ in range(min(na, 4))]
    assigns = [(rng.below(nv), 100 + rng.below(90)) for _ in range(rng.below(4))]
    pokes = []
    if form == "host" and args:
        pokes = [(rng.below(len(args)), 200 + rng.below(90)) for _ in range(rng.below(3))]
    kind = "ret"
    if form in ("spawn", "fnspawn"):
        kind = rng.choice(["ret", "ret", "raise:%d" % (1 + rng.below(9)), "panic:%d" % (1 + rng.below(9))])
    elif form == "bspawn":
        kind = rng.choice(["ret", "ret", "panic:%d" % (1 + rng.below(9)), "raise:%d" % (1 + rng.below(9))])
    nwait = 1 + rng.below(4)
    if form == "go":
        nwait = 1
    # how and where each waiter waits: in the main goroutine one after the other, on threads started before the call is
    # released (concurrent waiters), or on threads started after the main goroutine's waits (a later waiter elsewhere)
    wplan = [{"style": rng.choice(WAIT_STYLES), "where": "main"}]
    for _ in range(1, nwait):
        wplan.append({"style": rng.choice(WAIT_STYLES), "where": rng.choice(["main", "thr", "late"])})
    return {"form": form, "vals": vals, "args": args, "assigns": assigns, "pokes": pokes, "kind": kind, "nwait": nwait, "wplan": wplan}


# tryfunc: try(func() { return [t.wait()] }, handler); trybound_h: try(t.wait, handler) - the bound method handed to try;
# trybound: try(t.wait) - nil when wait raises; nested: the wait two script calls deep inside the tried function
WAIT_STYLES = ["tryfunc", "tryfunc", "trybound_h", "trybound", "nested"]


def wait_plan(sc):
    return sc.get("wplan") or ([{"style": "tryfunc", "where": "main"}] + [{"style": "tryfunc", "where": "thr"}] * (sc["nwait"] - 1))


def wait_stmt(k, style):
    if style == "trybound_h":
        return 'rec2("w", %d, wrapv(try(t.wait, func(e) { return string(e) })))' % k
    if style == "trybound":
        return 'rec2("w", %d, [try(t.wait)])' % k
    if style == "nested":
        return 'rec2("w", %d, try(func() { return [wait2(t)] }, func(e) { return string(e) }))' % k
    return 'rec2("w", %d, try(func() { return [t.wait()] }, func(e) { return string(e) }))' % k


def wait_want(sc, k, want):
    """what waiter k records when the call's outcome is `want`"""
    if wait_plan(sc)[k]["style"] == "trybound" and not want.startswith("val"):
        return "val1(nil)"
    return want


def spawn_script(sc):
    L = []
    for x, v in enumerate(sc["vals"]):
        L.append("x%d := %d" % (x, v))
    params = ", ".join("p%d" % k for k in range(len(sc["args"])))
    plist = "[" + params + "]"
    argl = ", ".join("x%d" % a for a in sc["args"])
    kind = sc["kind"]
    L.append("gate := chan()")
    L.append("out := chan(1)")
    if kind == "ret":
        body = "return " + plist
    elif kind.startswith("raise"):
        body = 'error("E%s")' % kind.split(":")[1]
    else:
        body = 'boom("P%s")' % kind.split(":")[1]
    form = sc["form"]
    if form == "go":
        L.append("func f(%s) { <-gate; out <- %s }" % (params, plist))
        L.append("go f(%s)" % argl)
    elif form == "spawn":
        L.append("func f(%s) { <-gate; %s }" % (params, body))
        L.append("t := spawn(f%s)" % ((", " + argl) if argl else ""))
    elif form == "fnspawn":
        L.append("func f(%s) { <-gate; %s }" % (params, body))
        L.append("t := f.spawn(%s)" % argl)
    elif form == "bspawn":
        if kind == "ret":
            L.append("t := ident.spawn(%s)" % argl)
        elif kind.startswith("panic"):
            L.append('t := boom.spawn("P%s")' % kind.split(":")[1])
        else:
            L.append('t := fail.spawn("E%s")' % kind.split(":")[1])
    else:
        L.append("t := hostspawn([%s], [%s])" % (argl, ", ".join("[%d, %d]" % p for p in sc["pokes"])))
    plan = wait_plan(sc)
    if form != "go":
        L.append('func wrapv(r) { if type(r) == "string" { return r }; return [r] }')
        L.append("func wait1(th) { return th.wait() }")
        L.append("func wait2(th) { return wait1(th) }")
        L.append("ws := []")
        for w in range(1, sc["nwait"]):
            if plan[w]["where"] == "thr":
                L.append("ws.append(spawn(func() { %s }))" % wait_stmt(w, plan[w]["style"]))
    for x, v in sc["assigns"]:
        L.append("x%d = %d" % (x, v))
    if form in ("go", "spawn", "fnspawn"):
        L.append("gate <- 1")
    if form == "go":
        L.append('rec2("w", 0, [<-out])')
    else:
        for w in range(sc["nwait"]):
            if plan[w]["where"] == "main":
                L.append(wait_stmt(w, plan[w]["style"]))
        for w in range(sc["nwait"]):
            if plan[w]["where"] == "late":
                L.append("spawn(func() { %s }).wait()" % wait_stmt(w, plan[w]["style"]))
        L.append("for _, w := range ws { w.wait() }")
    L.append('"done"')
    return "\n".join(L)


def spawn_model_line(sc):
    return "spawn\t1\t%s\t%s\t%s\t%s\t%s\t%d" % (
        ",".join(map(str, sc["vals"])), ",".join(map(str, sc["args"])),
        ",".join("%d:%d" % p for p in sc["assigns"]), ",".join("%d:%d" % p for p in sc["pokes"]),
        sc["kind"], sc["nwait"])


def spawn_expected(sc, model_out):
    # "params=.. waits=k:val(..)|k:..."  ->  {k: canonical}
    if not model_out.startswith("params="):
        return None
    waits = model_out.split(" waits=")[1]
    out = {}
    for w in waits.split("|"):
        k, _, r = w.partition(":")
        if sc["form"] == "bspawn" and sc["kind"] == "ret" and r.startswith("val("):
            # ident returns nil / its argument / the list of its arguments
            items = [x for x in r[4:-1].split(",") if x]
            r = "val1(nil)" if not items else ("val1(%s)" % items[0] if len(items) == 1 else r)
        out[int(k)] = r
    return out


def spawn_observed(resp):
    out = {}
    for k, v in resp["logs"].get("w", []):
        if isinstance(v, list) and len(v) == 1:
            x = v[0]
            if isinstance(x, list):
                r = "val(%s)" % ",".join(str(y) for y in x)
            elif x is None:
                r = "val1(nil)"
            else:
                r = "val1(%s)" % x
        elif isinstance(v, str):
            t = v[2:]
            if t.startswith("panic: P"):
                r = "panic(%s)" % t[8:]
            elif t.startswith("E"):
                r = "raised(%s)" % t[1:]
            else:
                r = "other(%s)" % t
        else:
            r = "other(%r)" % (v,)
        out[k] = r
    if resp.get("error"):
        out["error"] = resp["error"]
    return out



# ------------------------------------------------------------------ launchers: closures over private state, started as threads

def gen_launch(rng):
    return {"form": rng.choice(["spawn", "go", "fnspawn"]), "wide": rng.choice([0, 0, 3, 9, 12]), "calls": 2 + rng.below(2),
            "bases": [1000 * (i + 1) + rng.below(100) for i in range(4)], "per": 1 + rng.below(3), "nested": rng.chance(1, 3)}


def launch_script(sc):
    """a launcher function (optionally with many locals: frames beyond 8 locals are stored differently) builds a closure over
    ITS OWN locals and starts it as a thread; it is called several times before any of the threads runs on"""
    L = ["out := chan(64)", "gate := chan()"]
    locs = "".join("w%d := base + %d; " % (i, 100 + i) for i in range(sc["wide"]))
    sends = "; ".join("out <- (a + %d)" % i for i in range(sc["per"]))     # the value of a send binds tighter than +
    extra = " + ".join(["a"] + ["w%d" % i for i in range(min(sc["wide"], 2))])
    body = "<-gate; %s; return %s" % (sends, extra)
    if sc["nested"]:
        inner = "func() { g := func() { %s }; return g() }" % body
    else:
        inner = "func() { %s }" % body
    if sc["form"] == "spawn":
        start = "return spawn(f)"
    elif sc["form"] == "fnspawn":
        start = "return f.spawn()"
    else:
        start = "go f(); return nil"
    L.append("func launch(base) { %sa := base; f := %s; %s }" % (locs, inner, start))
    L.append("ts := []")
    for k in range(sc["calls"]):
        L.append("ts.append(launch(%d))" % sc["bases"][k])
    for k in range(sc["calls"]):
        L.append("gate <- 1")
    L.append("r := []")
    L.append("for i := range %d { r.append(<-out) }" % (sc["calls"] * sc["per"]))
    L.append('rec2("w", 0, sorted(r))')
    if sc["form"] != "go":
        L.append('rec2("w", 1, ts.map(func(t) { return t.wait() }))')
    L.append('"done"')
    return "\n".join(L)


def launch_oracle(sc, resp):
    if resp.get("error"):
        return "evaluation failed: %s" % resp["error"]
    logs = dict((k, v) for k, v in resp["logs"].get("w", []))
    want = sorted(b + i for b in sc["bases"][:sc["calls"]] for i in range(sc["per"]))
    if logs.get(0) != want:
        return "the threads sent %r; each closure captured its own launcher call's locals, so they send %r" % (logs.get(0), want)
    if sc["form"] != "go":
        ww = [b + sum(b + 100 + i for i in range(min(sc["wide"], 2))) for b in sc["bases"][:sc["calls"]]]
        if logs.get(1) != ww:
            return "wait() gave %r; the spawned calls returned %r" % (logs.get(1), ww)
    return None



# ------------------------------------------------------------------ launch matrix: every kind of callable x every way of launching,
# ------------------------------------------------------------------ argument expressions evaluated at the launch site

LM_KINDS = ["fn", "closure", "mk", "each", "map", "filter", "try", "call", "sorted"]
LM_FORMS = ["go", "spawn", "fnspawn"]
LM_ARGS = ["var", "lit", "arith", "call", "nested", "len", "method", "index", "snap", "tick", "callcall"]
LM_PRELUDE = [
    "func addk(a, k) { return a + k }",
    'func tick(v) { rec("t", v); return v }',
    "func upto(n) { r := []; for i := 0; i < n; i++ { r.append(i) }; return r }",
    "func mkc(v) { return func() { return v } }",
    "func worker(t, b, items) { rec2(\"p\", t, [b, len(items)]); for _, x := range items { out <- (t * %d + b * 1000 + x) }; return b }" % M,
    "func mkworker(t) { return func(b, items) { rec2(\"p\", t, [b, len(items)]); for _, x := range items { out <- (t * %d + b * 1000 + x) }; return b } }" % M,
    "func mkcb(t, b) { return func(x) { out <- (t * %d + b * 1000 + x); return x + 1 } }" % M,
    "func mkflt(t, b) { return func(x) { out <- (t * %d + b * 1000 + x); return x %% 2 == 0 } }" % M,
    "func mkthunk(t, b, items) { return func() { for _, x := range items { out <- (t * %d + b * 1000 + x) }; return b } }" % M,
    "func mkcmp() { return func(a, c) { return a > c } }",
]


def gen_matrix(rng):
    """1..3 threads; each: what is launched (script function, closure, the result of a call, a bound method of a list with a
    script callback, a builtin with a script callback), how (go / spawn() / .spawn()), and how the arguments are written at
    the launch site (variables reassigned afterwards, calls of script functions and builtins, method calls, index
    expressions, nested calls, a call with a visible side effect)"""
    ths = []
    for _ in range(1 + rng.below(3)):
        kind = rng.choice(LM_KINDS)
        form = rng.choice(LM_FORMS)
        ths.append({"kind": kind, "form": form, "n": rng.choice([1, 3, 20, 120]), "b": 5 + rng.below(900),
                    "barg": rng.choice(LM_ARGS), "items": rng.choice(["var", "call", "slice"]),
                    "cb": rng.choice(["var", "call", "lit"])})
    return {"threads": ths, "cap": rng.below(9), "work": rng.choice([0, 3, 20]), "infunc": rng.chance(1, 3)}


def matrix_sends(th):
    return th["kind"] != "sorted"


def matrix_script(sc):
    L = ["out := chan(%d)" % sc["cap"] if sc["cap"] > 0 else "out := chan()"] + list(LM_PRELUDE) + ["big := upto(120)"]
    B = []          # the part that may live inside a function
    waits = []
    for t, th in enumerate(sc["threads"]):
        b, n, kind, form = th["b"], th["n"], th["kind"], th["form"]
        pre, after = [], []
        # ---- the expression that stands for b at the launch site
        a = th["barg"]
        if kind in ("each", "map", "filter") and th["cb"] == "lit" or kind == "sorted":
            bexp = None
        elif a == "var":
            pre.append("bv%d := %d" % (t, b)); bexp = "bv%d" % t; after.append("bv%d = 1" % t)
        elif a == "lit":
            bexp = str(b)
        elif a == "arith":
            pre.append("bv%d := %d" % (t, b - 1)); bexp = "bv%d + 1" % t; after.append("bv%d = 1" % t)
        elif a == "call":
            pre.append("bv%d := %d" % (t, b - 3)); bexp = "addk(bv%d, 3)" % t; after.append("bv%d = 1" % t)
        elif a == "nested":
            pre.append("bv%d := %d" % (t, b - 4)); bexp = "addk(addk(bv%d, 1), 3)" % t; after.append("bv%d = 1" % t)
        elif a == "len":
            pre.append("pr%d := upto(%d)" % (t, b)); bexp = "len(pr%d)" % t; after.append("pr%d.append(0)" % t)
        elif a == "method":
            pre.append('mp%d := {"k": %d}' % (t, b)); bexp = 'mp%d.get("k")' % t; after.append('mp%d["k"] = 1' % t)
        elif a == "index":
            pre.append("pr%d := [0, %d, 0]" % (t, b)); bexp = "pr%d[1]" % t; after.append("pr%d[1] = 1" % t)
        elif a == "snap":
            pre.append("bv%d := %d" % (t, b)); pre.append("snap%d := func() { return bv%d }" % (t, t))
            bexp = "snap%d()" % t; after.append("bv%d = 1" % t)
        elif a == "tick":
            bexp = "tick(%d)" % b
        else:
            bexp = "mkc(%d)()" % b
        # ---- the items
        if th["items"] == "var":
            pre.append("items%d := upto(%d)" % (t, n)); iexp = "items%d" % t
        elif th["items"] == "call":
            iexp = "upto(%d)" % n
        else:
            iexp = "big[:%d]" % n
        # ---- callee and arguments
        if kind == "fn":
            callee, args = "worker", "%d, %s, %s" % (t, bexp, iexp)
        elif kind == "closure":
            pre.append("w%d := mkworker(%d)" % (t, t)); callee, args = "w%d" % t, "%s, %s" % (bexp, iexp)
        elif kind == "mk":
            callee, args = "mkworker(%d)" % t, "%s, %s" % (bexp, iexp)
        elif kind == "call":
            callee, args = "call", "worker, %d, %s, %s" % (t, bexp, iexp)
        elif kind == "try":
            if th["cb"] == "var":
                pre.append("th%d := mkthunk(%d, %s, %s)" % (t, t, bexp, iexp)); args = "th%d" % t; after.append("th%d = nil" % t)
            else:
                args = "mkthunk(%d, %s, %s)" % (t, bexp, iexp)
            callee = "try"
        elif kind == "sorted":
            callee, args = "sorted", "%s, mkcmp()" % iexp
        else:
            mk = "mkflt" if kind == "filter" else "mkcb"
            if th["cb"] == "var":
                pre.append("cb%d := %s(%d, %s)" % (t, mk, t, bexp)); args = "cb%d" % t; after.append("cb%d = nil" % t)
            elif th["cb"] == "call":
                args = "%s(%d, %s)" % (mk, t, bexp)
            else:
                ret = "x % 2 == 0" if kind == "filter" else "x + 1"
                args = "func(x) { out <- (%d + x); return %s }" % (t * M + b * 1000, ret)
            callee = "%s.%s" % (iexp, kind)
        B += pre
        B.append('rec("t", "pre%d")' % t)
        if form == "go":
            B.append("go %s(%s)" % (callee, args))
        elif form == "spawn":
            B.append("h%d := spawn(%s, %s)" % (t, callee, args)); waits.append(t)
        else:
            B.append("h%d := %s.spawn(%s)" % (t, callee, args)); waits.append(t)
        B.append('rec("t", "post%d")' % t)
        B += after
    total = sum(th["n"] for th in sc["threads"] if matrix_sends(th))
    B.append("acc := 0")
    B.append('for i := 0; i < %d; i++ { v := <-out; for j := 0; j < %d; j++ { acc = addk(acc, j) }; rec("g", v) }' % (total, sc["work"]))
    B.append('rec2("w", "acc", acc)')
    B.append('rec2("w", "waits", [%s])' % ", ".join("h%d.wait()" % t for t in waits))
    if sc["infunc"]:
        L.append("func main_() {\n    " + "\n    ".join(B) + "\n}")
        L.append("main_()")
    else:
        L += B
    L.append('"done"')
    return "\n".join(L)


def matrix_expect(sc):
    tlog, params, sends, waits = [], {}, {}, []
    for t, th in enumerate(sc["threads"]):
        b, n, kind = th["b"], th["n"], th["kind"]
        lit_cb = kind in ("each", "map", "filter") and th["cb"] == "lit"
        ticks = th["barg"] == "tick" and not lit_cb and kind != "sorted"
        early = kind in ("each", "map", "filter", "try") and th["cb"] == "var"     # the callback was built by an earlier statement
        if ticks and early:
            tlog.append(b)
        tlog.append("s:pre%d" % t)
        if ticks and not early:
            tlog.append(b)
        tlog.append("s:post%d" % t)
        if kind in ("fn", "closure", "mk", "call"):
            params[t] = [b, n]
        sends[t] = [t * M + b * 1000 + x for x in range(n)] if matrix_sends(th) else []
        if th["form"] != "go":
            if kind in ("fn", "closure", "mk", "call", "try"):
                waits.append(b)
            elif kind == "each":
                waits.append(None)
            elif kind == "map":
                waits.append([x + 1 for x in range(n)])
            elif kind == "filter":
                waits.append([x for x in range(n) if x % 2 == 0])
            else:
                waits.append(list(range(n))[::-1])
    total = sum(len(v) for v in sends.values())
    acc = total * (sc["work"] * (sc["work"] - 1) // 2)
    return tlog, params, sends, waits, acc


def matrix_oracle(sc, resp):
    """-> (why or None, definite).  definite = the recorded facts themselves contradict the property; not definite = the
    evaluation did not finish before its deadline and nothing recorded so far is wrong (to be observed again, alone)"""
    tlog, params, sends, waits, acc = matrix_expect(sc)
    logs = resp.get("logs") or {}
    err = resp.get("error")
    timed_out = bool(err) and ("context deadline exceeded" in err or "context canceled" in err or err.startswith("HANG")) or \
        (not err and resp.get("ctx_done") and resp.get("result") != "s:done")
    # 1. the arguments the launched calls received
    for t, p in logs.get("p", []):
        if not isinstance(t, int) or t not in params:
            return "a launched call recorded parameters %r under thread id %r: no such launch" % (p, t), True
        if p != params[t]:
            return ("thread %d (%s, started with %s, argument written as `%s`) received the parameters %r; the values at the launch "
                    "site were %r" % (t, sc["threads"][t]["kind"], sc["threads"][t]["form"], sc["threads"][t]["barg"], p, params[t])), True
    seen = [t for t, _ in logs.get("p", [])]
    if len(seen) != len(set(seen)):
        return "a launched call ran more than once: parameter records %r" % (logs.get("p"),), True
    # 2. argument expressions are evaluated at the launch site, by the launching thread, once
    got_t = logs.get("t", [])
    done = not err and resp.get("result") == "s:done"
    if got_t != tlog[:len(got_t)] or (done and got_t != tlog):
        return ("the launching code logged %r around its launches; with every argument expression evaluated at the launch site, once, "
                "in order, it logs %r" % (got_t, tlog)), True
    # 3. values: exactly once, per-sender order
    per = {}
    for v in logs.get("g", []):
        if not isinstance(v, int) or v // M not in sends:
            return "the launching code received %r, which nobody sent" % (v,), True
        per.setdefault(v // M, []).append(v)
    for t, vs in per.items():
        if vs != sends[t][:len(vs)]:
            k = next(i for i in range(len(vs)) if i >= len(sends[t]) or vs[i] != sends[t][i])
            return ("thread %d (%s, started with %s) sends %s... in this order; the receiver got %r at position %d of that thread's values "
                    "(lost, duplicated, reordered or wrong value)" % (t, sc["threads"][t]["kind"], sc["threads"][t]["form"],
                                                                      sends[t][:4], vs[k], k)), True
    if err and not timed_out:
        return "evaluation failed: %s" % err, True
    if timed_out:
        n_got = len(logs.get("g", []))
        return ("the evaluation did not finish before its deadline: the launching code had received %d of the %d values its threads "
                "send and was still waiting (error: %s)" % (n_got, sum(len(v) for v in sends.values()), err)), False
    if resp.get("result") != "s:done":
        return "the launching code ended with %r instead of running to its last statement" % (resp.get("result"),), True
    for t in sends:
        if per.get(t, []) != sends[t]:
            return "thread %d: %d of %d values arrived" % (t, len(per.get(t, [])), len(sends[t])), True
    w = dict((k, v) for k, v in logs.get("w", []) if isinstance(k, str))
    if w.get("s:acc") != acc:
        return "the launching code's own sum is %r, its loop computes %d (its own execution was disturbed)" % (w.get("s:acc"), acc), True
    if w.get("s:waits") != waits:
        return "wait() gave %r; the launched calls return %r" % (w.get("s:waits"), waits), True
    return None, True


# ------------------------------------------------------------------ running the two sides

def run_impl(exe, reqs, timeout):
    """reqs: list of dicts (id, src, procs, yield, timeout_ms).  Child processes; a request that kills or hangs
    its process is reported as such and the remaining requests continue in a fresh process."""
    res, errs, rc_final = {}, "", 0
    pending = list(reqs)
    guard = 0
    while pending and guard < 50:
        guard += 1
        data = ("\n".join(json.dumps(r) for r in pending) + "\n").encode()
        budget = min(timeout, 30 + sum(r.get("timeout_ms", 5000) for r in pending) / 1000.0 * 1.2)
        rc, out, err = C.run([exe], input=data, timeout=budget)
        got = 0
        for line in out.splitlines():
            try:
                j = json.loads(line)
            except ValueError:
                continue
            res[j["id"]] = j
            got += 1
        if rc == 0:
            break
        rc_final = rc
        errs += err[-800:]
        rest = [r for r in pending if r["id"] not in res]
        if not rest:
            break
        if rc != 3:
            # the first unanswered request crashed (or stalled) the process
            bad = rest.pop(0)
            res[bad["id"]] = {"id": bad["id"], "result": None, "logs": {}, "ms": 0,
                              "error": "PROCESS DIED (exit %d): %s" % (rc, err[-400:].replace("\n", " | "))}
        pending = rest
    return rc_final, res, errs


def run_impl_sharded(exe, reqs, nshards, timeout):
    shards = [reqs[i::nshards] for i in range(nshards)]
    shards = [s for s in shards if s]
    allres, fails = {}, []
    with ThreadPoolExecutor(max_workers=max(1, len(shards))) as ex:
        for rc, res, err in ex.map(lambda s: run_impl(exe, s, timeout), shards):
            allres.update(res)
            if rc != 0:
                fails.append((rc, err[-1500:]))
    return allres, fails


def run_model(exe, lines, timeout=600):
    if not lines:
        return []
    nsh = min(C.NCPU, max(1, len(lines) // 50))
    shards = [lines[i::nsh] for i in range(nsh)]

    def one(sh):
        rc, out, err = C.run([exe], input=("\n".join(sh) + "\n").encode(), timeout=timeout)
        o = out.split("\n")
        if o and o[-1] == "":
            o.pop()
        return o
    with ThreadPoolExecutor(max_workers=nsh) as ex:
        outs = list(ex.map(one, shards))
    res = [None] * len(lines)
    for k, o in enumerate(outs):
        for idx, val in enumerate(o):
            pos = k + idx * nsh
            if pos < len(res):
                res[pos] = val
    return res


# ------------------------------------------------------------------ the check

def run(res):
    tier = res.tier
    cov = res.coverage
    obs, err = C.go_build("c10obs")
    if not obs:
        res.violation({"property": PROP, "kind": "harness-build-failed", "stage": "go build c10obs", "log": err[-3000:]},
                      nofail=True, tag="build")
        return
    proved = C.prove(res, PROP)
    if proved and tier != "quick":
        if not C.coqchk(res, PROP):
            proved = False
            res.broken = {"log_tail": "coqchk rejected the .vo closure of props/C10: " + res.coverage["coqchk"]["tail"], "errors": []}
    model, err = C.build_extracted("chan", "ExtractChan.v", "chan_driver.ml")
    if not model:
        res.violation({"property": PROP, "kind": "model-build-failed", "stage": "extraction", "log": err[-3000:],
                       "broken": getattr(res, "broken", None)}, nofail=True, tag="extract")
        return
    C.log("C10: proved=%s, running the tie" % proved)
    _body(res, tier, obs, model, proved)


def _body(res, tier, obs, model, proved):
    cov = res.coverage
    quick = tier == "quick"
    rng = C.Rng(res.seed)
    known = load_known()
    known_ids = [k.get("id") for k in known]
    oracle_viol, corr, samples = [], [], []
    nontrivial = set()
    evals = 0
    stats = {}
    st = {"evals": 0}
    fused, vwhy = foriter_variant()
    res.coverage["foriter_variant"] = {"one_step": fused, "why": vwhy}
    if not fused:
        # the model describes ForIter taking value and entry from the channel in one call (Chan.NextEntry)
        corr.append({"stage": "source anchor of ForIter", "impl": vwhy,
                     "model": "model/Chan.v: a range step is Take; Fin (Chan.NextEntry)"})
    bok, bwhy = builtins_variant()
    res.coverage["builtins_variant"] = {"one_step": bok, "why": bwhy}
    if not bok:
        corr.append({"stage": "source anchor of keys()/map()", "impl": bwhy,
                     "model": "model/Chan.v: keys(ch) / map(ch) take each value with Take; Fin (object.IterNextEntry)"})

    def fresh_violation():
        return any(not (KNOWN_ID is not None and v.get("klass") == KNOWN_CLASS and KNOWN_ID in known_ids) for v in oracle_viol)

    def finish():
        _finish(res, st["evals"], nontrivial, samples, stats, corr, oracle_viol, known, known_ids, proved)

    # ---------------- A: sequential histories
    nseq = 4000 if quick else 40000
    nmal = 1500 if quick else 15000
    seq_cases = []
    corpus_dir = os.path.join(C.VERIF, "corpus", PROP)
    if os.path.isdir(corpus_dir):
        for fn in sorted(os.listdir(corpus_dir)):
            if fn.endswith(".seq.json"):
                j = json.load(open(os.path.join(corpus_dir, fn)))
                seq_cases.append((j["cap"], [tuple(o) for o in j["ops"]]))
    for _ in range(nseq):
        seq_cases.append(gen_seq_case(rng, False))
    for _ in range(nmal):
        seq_cases.append(gen_seq_case(rng, True))
    mlines = [seq_model_line(c, o) for c, o in seq_cases]
    mouts = run_model(model, mlines)
    # blocking cases cost a timeout each: keep a bounded number of them
    max_block = 64 if quick else 600
    reqs, keep, tmo = [], [], {}
    nblock = 0
    for idx, ((cap, ops), mo) in enumerate(zip(seq_cases, mouts)):
        blocks = mo is not None and mo.endswith("BLOCK")
        if blocks:
            if nblock >= max_block:
                continue
            nblock += 1
        keep.append(idx)
        reqs.append({"id": "A%d" % idx, "src": seq_script(cap, ops), "procs": 2, "yield": 0,
                     "timeout_ms": 500 if blocks else 6000})
        tmo[idx] = 500 if blocks else 6000
    C.log("C10/A: %d sequential histories (%d blocking)" % (len(reqs), nblock))
    ares, fails = run_impl_sharded(obs, reqs, C.NCPU, 600)
    agree = 0
    for idx in keep:
        cap, ops = seq_cases[idx]
        r = ares.get("A%d" % idx)
        st["evals"] += 1
        case = {"stage": "A-sequential", "cap": cap, "ops": [list(o) for o in ops]}
        if r is None:
            corr.append(dict(case, impl="no answer from c10obs", model=mouts[idx]))
            continue
        got = seq_observed(r, tmo[idx])
        exp = seq_expected(mouts[idx] or "", ops)
        # independent oracle on the sequential history: FIFO of what was sent, nil only after close
        why = seq_oracle(cap, ops, got)
        if why:
            oracle_viol.append(dict(case, impl=got, why=why, src=seq_script(cap, ops)))
        if got != exp:
            corr.append(dict(case, impl=got, model=exp))
        else:
            agree += 1
        if any(g in ("nil", "end", "sendclosed", "closeerr", "BLOCK") or g.startswith("entry") for g in got):
            nontrivial.add(("A", cap, tuple(ops)))
        if len(samples) < 3:
            samples.append(dict(case, impl=got, model=exp))
    stats["A_sequential"] = {"cases": len(keep), "agree": agree, "blocking": nblock}
    if fails:
        res.notes.append("c10obs shard failures in A: %r" % (fails[:2],))

    # ---------------- B: topologies
    ntopo = 300 if quick else 3000
    nbig = 4 if quick else 60
    topos = []
    if os.path.isdir(corpus_dir):
        for fn in sorted(os.listdir(corpus_dir)):
            if fn.endswith(".topo.json"):
                topos.append(json.load(open(os.path.join(corpus_dir, fn))))
    for _ in range(ntopo):
        topos.append(gen_topo(rng, tier))
    for _ in range(nbig):
        topos.append(gen_topo(rng, tier, big=True))
    reqs = [{"id": "B%d" % k, "src": topo_script(cfg), "procs": cfg["procs"], "yield": cfg["yield_seed"],
             "timeout_ms": 8000 + 3 * sum(cfg["counts"]), "max_log": 4 * sum(cfg["counts"]) + 100}
            for k, cfg in enumerate(topos)]
    if fresh_violation():
        return finish()
    C.log("C10/B: %d topologies" % len(reqs))
    # a first small batch decides quickly when the tree is badly broken (every run would wait for its deadline)
    head = 24
    bres, fails = run_impl_sharded(obs, reqs[:head], 8, 300)
    first_bad = sum(1 for k, cfg in enumerate(topos[:head])
                    if bres.get("B%d" % k) is None or topo_oracle(cfg, bres["B%d" % k])[0])
    if first_bad == 0:
        more, fails2 = run_impl_sharded(obs, reqs[head:], 8, 900)
        bres.update(more)
        fails += fails2
    else:
        topos = topos[:head]
    if fails:
        res.notes.append("c10obs shard failures in B: %r" % (fails[:2],))
    alines, aidx = [], []
    for k, cfg in enumerate(topos):
        r = bres.get("B%d" % k)
        st["evals"] += 1
        case = {"stage": "B-topology", "config": cfg}
        if r is None:
            corr.append(dict(case, impl="no answer from c10obs"))
            continue
        why, facts = topo_oracle(cfg, r)
        if why:
            oracle_viol.append(dict(case, why=why, facts=facts, src=topo_script(cfg),
                                    klass=None))
        else:
            alines.append(accept_line(cfg, r))
            aidx.append(k)
        if sum(cfg["counts"]) > 1 and len(cfg["counts"]) * len(cfg["rkinds"]) > 1:
            nontrivial.add(("B", json.dumps(cfg, sort_keys=True)))
        if len(samples) < 6:
            samples.append(dict(case, delivered=facts.get("delivered"), ms=r.get("ms")))
    aouts = run_model(model, alines)
    acc_ok = 0
    for k, o in zip(aidx, aouts):
        if o == "accept=1 weak=1":
            acc_ok += 1
        else:
            corr.append({"stage": "B-acceptor", "config": topos[k], "model": o,
                         "impl": "oracle satisfied (exactly once, per-sender order) but the model's acceptor rejects"})
    stats["B_topologies"] = {"cases": len(topos), "oracle_ok": len(aidx), "accepted_by_model": acc_ok,
                             "messages": sum(sum(c["counts"]) for c in topos)}

    if fresh_violation():
        return finish()
    C.log("C10/C: tiny topologies against all model schedules")
    # ---------------- C: tiny topologies, all model schedules enumerated
    tiny = []
    nt = 16 if quick else 60
    reps = 30 if quick else 150
    for _ in range(nt):
        ns, nr = 1 + rng.below(2), 1 + rng.below(2)
        counts = [1 + rng.below(2) for _ in range(ns)]
        if sum(counts) > 3:
            counts[0] = 1
        rk = [rng.choice(["op", "range_kv"]) for _ in range(nr)]
        tiny.append({"cap": rng.below(3), "counts": counts, "rkinds": rk, "sform": [rng.choice(SPAWN_FORMS) for _ in counts],
                     "send_form": [rng.choice(["op", "method"]) for _ in counts], "yields": False})
    rlines = []
    for cfg in tiny:
        progs = ";".join(",".join(str(100 * i + k) for k in range(n)) for i, n in enumerate(cfg["counts"]))
        kinds = "".join("i" if k == "range_kv" else "r" for k in cfg["rkinds"])
        rlines.append("reach\t%d\t%s\t%s" % (cfg["cap"], progs, kinds))
    routs = run_model(model, rlines)
    reqs = []
    for k, cfg in enumerate(tiny):
        for rep in range(reps):
            c2 = dict(cfg, yields=(rep % 3 == 0))
            reqs.append({"id": "C%d.%d" % (k, rep), "src": topo_script(c2), "procs": [1, 2, 16][rep % 3],
                         "yield": rng.below(1 << 30) if rep % 2 else 0, "timeout_ms": 20000})
    cres, fails = run_impl_sharded(obs, reqs, 8, 600)
    reach_states = 0
    seen_outcomes = 0
    model_outcomes = 0
    for k, cfg in enumerate(tiny):
        head, _, body = (routs[k] or "").partition("\t")
        allowed = set(x.strip() for x in body.split(" | ")) if head.startswith("states=") else None
        if allowed is None:
            corr.append({"stage": "C-reach", "config": cfg, "model": routs[k], "impl": "model enumeration failed"})
            continue
        reach_states += int(head.split()[0].split("=")[1])
        model_outcomes += len(allowed)
        seen = set()
        for rep in range(reps):
            r = cres.get("C%d.%d" % (k, rep))
            st["evals"] += 1
            if r is None or r.get("error"):
                corr.append({"stage": "C-reach", "config": cfg, "impl": r and r.get("error"), "model": "run failed"})
                continue
            o = reach_outcome(cfg, r)
            seen.add(o)
            if o not in allowed:
                why, facts = topo_oracle(cfg, r)
                if why:
                    oracle_viol.append({"stage": "C-reach", "config": cfg, "why": why, "src": topo_script(cfg),
                                        "klass": None})
                else:
                    corr.append({"stage": "C-reach", "config": cfg, "impl": o,
                                 "model": "not among the %d outcomes of all model schedules" % len(allowed)})
        seen_outcomes += len(seen)
        for o in seen:
            nontrivial.add(("C", k, o))
        if len(samples) < 8:
            samples.append({"stage": "C-reach", "config": cfg, "model_outcomes": sorted(allowed)[:6], "observed": sorted(seen)[:6]})
    stats["C_reach"] = {"configs": len(tiny), "runs": len(reqs), "model_states": reach_states,
                        "model_outcomes": model_outcomes, "observed_distinct_outcomes": seen_outcomes}

    if fresh_violation():
        return finish()
    C.log("C10/D: spawn scenarios")
    # ---------------- D: spawn scenarios
    nsp = 900 if quick else 10000
    scs = [gen_spawn(rng) for _ in range(nsp)]
    slines = [spawn_model_line(sc) for sc in scs]
    souts = run_model(model, slines)
    reqs = [{"id": "D%d" % k, "src": spawn_script(sc), "procs": [1, 2, 16][k % 3], "yield": 0, "timeout_ms": 5000}
            for k, sc in enumerate(scs)]
    dres, fails = run_impl_sharded(obs, reqs, C.NCPU, 600)
    dagree = 0
    for k, sc in enumerate(scs):
        st["evals"] += 1
        r = dres.get("D%d" % k)
        case = {"stage": "D-spawn", "scenario": sc}
        if r is None:
            corr.append(dict(case, impl="no answer"))
            continue
        got = spawn_observed(r)
        exp = spawn_expected(sc, souts[k] or "")
        why = spawn_oracle(sc, got)
        if why:
            oracle_viol.append(dict(case, impl=got, why=why, src=spawn_script(sc)))
        # try(t.wait) without a handler yields nil exactly when wait() raised: compared with the model as that outcome
        gm = dict(got)
        for w, pw in enumerate(wait_plan(sc)):
            if exp and pw["style"] == "trybound" and not exp.get(w, "val").startswith("val") and got.get(w) == "val1(nil)":
                gm[w] = exp[w]
        if exp is None or gm != exp:
            corr.append(dict(case, impl=got, model=exp))
        else:
            dagree += 1
        if sc["assigns"] or sc["pokes"] or sc["kind"] != "ret":
            nontrivial.add(("D", json.dumps(sc, sort_keys=True)))
        if k < 2:
            samples.append(dict(case, impl=got, model=exp))
    stats["D_spawn"] = {"cases": len(scs), "agree": dagree}

    # ---------------- D2: launchers (closures over private state started as threads; oracle only)
    nl = 300 if quick else 5000
    lcs = [gen_launch(rng) for _ in range(nl)]
    reqs = [{"id": "L%d" % k, "src": launch_script(sc), "procs": [1, 2, 16][k % 3], "yield": 0, "timeout_ms": 5000}
            for k, sc in enumerate(lcs)]
    lres, fails = run_impl_sharded(obs, reqs, C.NCPU, 600)
    lok = 0
    for k, sc in enumerate(lcs):
        st["evals"] += 1
        r = lres.get("L%d" % k)
        case = {"stage": "D2-launch", "scenario": sc}
        if r is None:
            corr.append(dict(case, impl="no answer"))
            continue
        why = launch_oracle(sc, r)
        if why:
            oracle_viol.append(dict(case, impl=r.get("logs"), why=why, src=launch_script(sc)))
        else:
            lok += 1
        nontrivial.add(("L", json.dumps(sc, sort_keys=True)))
    stats["D2_launch"] = {"cases": len(lcs), "ok": lok}


    # ---------------- D3: launch matrix (callable kinds x launch forms x argument expressions; oracle only)
    nm = 1500 if quick else 20000
    mcs = [gen_matrix(rng) for _ in range(nm)]
    reqs = [{"id": "M%d" % k, "src": matrix_script(sc), "procs": [1, 2, 16][k % 3], "yield": 0, "timeout_ms": 4000}
            for k, sc in enumerate(mcs)]
    C.log("C10/D3: launch matrix")
    # a first batch decides quickly when launching is broken (every broken scenario waits for its deadline)
    mhead = 64
    mres, fails = run_impl_sharded(obs, reqs[:mhead], C.NCPU, 600)
    if not any(mres.get("M%d" % k) is None or matrix_oracle(sc, mres["M%d" % k])[0] for k, sc in enumerate(mcs[:mhead])):
        more, fails2 = run_impl_sharded(obs, reqs[mhead:], C.NCPU, 600)
        mres.update(more)
    else:
        mcs = mcs[:mhead]
    mok = 0
    redo = []
    for k, sc in enumerate(mcs):
        st["evals"] += 1
        r = mres.get("M%d" % k)
        case = {"stage": "D3-launch-matrix", "scenario": sc}
        if r is None:
            corr.append(dict(case, impl="no answer"))
            continue
        why, definite = matrix_oracle(sc, r)
        if why and definite:
            oracle_viol.append(dict(case, impl=r.get("logs"), why=why, src=matrix_script(sc)))
        elif why:
            redo.append(k)
        else:
            mok += 1
        for th in sc["threads"]:
            nontrivial.add(("M", th["kind"], th["form"], th["barg"] if th["kind"] not in ("sorted",) else "-"))
        if k < 1:
            samples.append(dict(case, src=matrix_script(sc)))
    # an evaluation that ran into its deadline is not an observation: such scenarios run again, one at a time, with a long deadline
    redone = 0
    have_definite = any(v.get("stage") == "D3-launch-matrix" for v in oracle_viol)
    for k in ([] if have_definite else redo[:3]):
        sc = mcs[k]
        rc_, rr, _e = run_impl(obs, [{"id": "R", "src": matrix_script(sc), "procs": [1, 2, 16][k % 3], "yield": 0, "timeout_ms": 15000}], 120)
        r = rr.get("R")
        redone += 1
        if r is None:
            continue
        why, definite = matrix_oracle(sc, r)
        if why:
            oracle_viol.append({"stage": "D3-launch-matrix", "scenario": sc, "impl": r.get("logs"), "src": matrix_script(sc),
                                "why": why + (" [second observation, alone, deadline 15 s]" if not definite else "")})
        else:
            mok += 1
    stats["D3_launch_matrix"] = {"cases": len(mcs), "ok": mok, "ran_into_deadline_first_time": len(redo), "observed_again": redone}

    # ---------------- H: producers - every loop form that yields the values which are sent / handed to threads / stored,
    # more than 256 and more than 1024 values, held by the receiving side until the producer is done (oracle only)
    from lib import c10prod
    C.log("C10/H: producers")
    nh = 260 if quick else 6000
    hcs = [c10prod.gen(rng, k) for k in range(nh)]
    reqs = [{"id": "H%d" % k, "src": c10prod.script(sc), "procs": sc["procs"], "yield": 0, "timeout_ms": 8000} for k, sc in enumerate(hcs)]
    hres, fails = run_impl_sharded(obs, reqs, C.NCPU, 900)
    hok, hredo, hstyles = 0, [], {}
    for k, sc in enumerate(hcs):
        st["evals"] += 1
        r = hres.get("H%d" % k)
        case = {"stage": "H-producers", "scenario": sc}
        if r is None:
            corr.append(dict(case, impl="no answer"))
            continue
        why, definite = c10prod.oracle(sc, r)
        if why and definite:
            oracle_viol.append(dict(case, impl={kk: (v if len(json.dumps(v)) < 600 else json.dumps(v)[:600] + "...") for kk, v in r.get("logs", {}).items()},
                                    why=why, src=c10prod.script(sc)))
        elif why:
            hredo.append(k)
        else:
            hok += 1
        hstyles[sc["style"]] = hstyles.get(sc["style"], 0) + 1
        nontrivial.add(("H", sc["style"], sc["transport"], sc["n"] > 1024))
        if k < 1:
            samples.append(dict(case, src=c10prod.script(sc)))
    # an evaluation that ran into its deadline is not an observation: run again, alone, with a long deadline
    hredone = 0
    for k in ([] if any(v.get("stage") == "H-producers" for v in oracle_viol) else hredo[:3]):
        sc = hcs[k]
        rc_, rr, _e = run_impl(obs, [{"id": "R", "src": c10prod.script(sc), "procs": sc["procs"], "yield": 0, "timeout_ms": 30000}], 120)
        r = rr.get("R")
        hredone += 1
        if r is None:
            continue
        why, definite = c10prod.oracle(sc, r)
        if why:
            oracle_viol.append({"stage": "H-producers", "scenario": sc, "src": c10prod.script(sc),
                                "why": why + (" [second observation, alone, deadline 30 s]" if not definite else "")})
        else:
            hok += 1
    stats["H_producers"] = {"cases": len(hcs), "ok": hok, "ran_into_deadline_first_time": len(hredo), "observed_again": hredone,
                            "styles": hstyles}

    if fresh_violation():
        return finish()
    C.log("C10/E: several goroutines ranging over one channel")
    # ---------------- E: several goroutines ranging over one channel (regression stage for fix 0f2710a)
    nwit = 4 if quick else 20
    wit_cfg = {"cap": 4, "counts": [20000], "rkinds": ["range_v", "range_v", "range_v"], "sform": ["go"],
               "send_form": ["op"], "yields": False, "procs": 16, "yield_seed": 0}
    wit_cfgs = [dict(wit_cfg, rkinds=[rng.choice(["range_v", "range_kv", "range_in"]) for _ in range(2 + rng.below(3))],
                     cap=rng.below(9), procs=rng.choice([2, 16])) for _ in range(nwit)]
    wit_cfgs[0] = wit_cfg
    reqs = [{"id": "E%d" % k, "src": topo_script(c), "procs": c["procs"], "yield": 0, "timeout_ms": 60000}
            for k, c in enumerate(wit_cfgs)]
    eres, fails = run_impl_sharded(obs, reqs, 4, 600)
    wlines, widx = [], []
    reproduced = 0
    first_wit = None
    for k, c in enumerate(wit_cfgs):
        st["evals"] += 1
        r = eres.get("E%d" % k)
        if r is None:
            corr.append({"stage": "E-witness", "config": c, "impl": "no answer"})
            continue
        why, facts = topo_oracle(c, r)
        if why:
            reproduced += 1
            if first_wit is None:
                first_wit = {"config": c, "why": why, "facts": facts}
            oracle_viol.append({"stage": "E-multi-range", "config": c, "why": why, "facts": facts, "src": topo_script(c),
                                "klass": None})
            nontrivial.add(("E", k, facts.get("dups"), facts.get("lost")))
        if not r.get("error"):
            wlines.append(accept_line(c, r))
            widx.append(k)
    wouts = run_model(model, wlines)
    acc_e = 0
    for k, o in zip(widx, wouts):
        if o == "accept=1 weak=1":
            acc_e += 1
        elif not any(v.get("stage") == "E-multi-range" and v.get("config") is wit_cfgs[k] for v in oracle_viol):
            corr.append({"stage": "E-acceptor", "config": wit_cfgs[k], "model": o,
                         "impl": "oracle satisfied (exactly once, per-sender order) but the model's acceptor rejects"})
    stats["E_multi_range"] = {"runs": len(wit_cfgs), "violations": reproduced, "accepted_by_model": acc_e, "first": first_wit}

    if fresh_violation():
        return finish()
    C.log("C10/G: keys(ch) / map(ch) consumers")
    # ---------------- G: keys(ch) / map(ch) consume a channel through object.IterNextEntry (regression stage for ce76520)
    ng = 3 if quick else 16
    g_cfgs = []
    for _ in range(ng):
        # one map(ch) consumer next to receive() users
        g_cfgs.append({"cap": rng.below(9), "counts": [rng.choice([200, 2000]) for _ in range(1 + rng.below(3))],
                       "rkinds": ["map"] + [rng.choice(["op", "method"]) for _ in range(rng.below(3))],
                       "sform": ["go"] * 3, "send_form": ["op", "method", "op"], "yields": False, "procs": rng.choice([2, 16]),
                       "yield_seed": 0})
    for _ in range(ng):
        # several map(ch) consumers on one channel
        g_cfgs.append({"cap": rng.below(9), "counts": [20000], "rkinds": ["map"] * (2 + rng.below(3)), "sform": ["go"],
                       "send_form": ["op"], "yields": False, "procs": 16, "yield_seed": 0})
    for c in g_cfgs:
        c["sform"] = c["sform"][:len(c["counts"])]
        c["send_form"] = c["send_form"][:len(c["counts"])]
    reqs = [{"id": "G%d" % k, "src": topo_script(c), "procs": c["procs"], "yield": 0, "timeout_ms": 60000}
            for k, c in enumerate(g_cfgs)]
    gres, fails = run_impl_sharded(obs, reqs, 4, 600)
    glines, gidx = [], []
    g_single_ok = g_multi_bad = 0
    for k, c in enumerate(g_cfgs):
        st["evals"] += 1
        r = gres.get("G%d" % k)
        if r is None:
            corr.append({"stage": "G-protocol", "config": c, "impl": "no answer"})
            continue
        why, facts = topo_oracle(c, r)
        multi = n_proto(c) > 1
        if why:
            oracle_viol.append({"stage": "G-protocol", "config": c, "why": why, "facts": facts, "src": topo_script(c),
                                "klass": None})
            if multi:
                g_multi_bad += 1
                nontrivial.add(("G", k, facts.get("dups"), facts.get("lost")))
        elif not multi:
            g_single_ok += 1
        if not r.get("error"):
            glines.append(accept_line(c, r))
            gidx.append(k)
    gouts = run_model(model, glines)
    g_weak = 0
    for k, o in zip(gidx, gouts):
        if o is not None and o.endswith("weak=1"):
            g_weak += 1
        else:
            oracle_viol.append({"stage": "G-protocol", "config": g_cfgs[k], "why": "the count of delivered values differs from the "
                                "count sent, or a value never sent was delivered (model: %s)" % o,
                                "src": topo_script(g_cfgs[k]), "klass": None})
    stats["G_protocol"] = {"runs": len(g_cfgs), "single_consumer_ok": g_single_ok, "multi_consumer_with_dup_or_loss": g_multi_bad,
                           "weak_accept_ok": g_weak}

    if fresh_violation():
        return finish()
    C.log("C10/F: race detector")
    # ---------------- F: the same under the race detector (each case in its own process)
    race_exe, rerr = C.go_build("c10obs", race=True)
    if not race_exe:
        res.violation({"property": PROP, "kind": "harness-build-failed", "stage": "go build -race c10obs", "log": rerr[-3000:]},
                      nofail=True, tag="build-race")
        return
    nrace = 10 if quick else 80
    rcases = []
    for _ in range(nrace):
        cfg = gen_topo(rng, tier)
        cfg["counts"] = [min(n, 150) for n in cfg["counts"]]
        cfg["procs"] = 16
        rcases.append(("topo", cfg, topo_script(cfg)))
    for sc in scs[:(10 if quick else 80)]:
        rcases.append(("spawn", sc, spawn_script(sc)))
    multi = dict(wit_cfg, counts=[3000], rkinds=["range_v", "range_kv"])
    rcases.append(("multi", multi, topo_script(multi)))
    for sc in mcs[:(12 if quick else 100)]:
        rcases.append(("matrix", sc, matrix_script(sc)))

    def race_one(item):
        kind, cfg, src = item
        req = {"id": "F", "src": src, "procs": 16, "yield": 0, "timeout_ms": 60000}
        env = dict(os.environ, GORACE="halt_on_error=0")
        try:
            p = subprocess.run([race_exe], input=(json.dumps(req) + "\n").encode(), stdout=subprocess.PIPE,
                               stderr=subprocess.PIPE, env=env, timeout=300)
            return p.returncode, p.stdout.decode("utf-8", "replace"), p.stderr.decode("utf-8", "replace")
        except subprocess.TimeoutExpired:
            return 124, "", "timeout"
    with ThreadPoolExecutor(max_workers=6) as ex:
        routs2 = list(ex.map(race_one, rcases))
    race_clean = 0
    race_known = 0
    for (kind, cfg, src), (rc, out, errtxt) in zip(rcases, routs2):
        st["evals"] += 1
        nr = errtxt.count("WARNING: DATA RACE")
        if nr == 0 and rc == 0:
            race_clean += 1
            continue
        first = errtxt[errtxt.find("WARNING: DATA RACE"):][:1800] if nr else errtxt[-800:]
        v = {"stage": "F-race", "case_kind": kind, "config": cfg, "src": src,
             "why": "%d data race report(s) from the race detector (exit %d)" % (nr, rc), "report": first,
             "klass": None}
        if v["klass"]:
            race_known += 1
            nontrivial.add(("F", "multi"))
        oracle_viol.append(v)
    stats["F_race"] = {"cases": len(rcases), "clean": race_clean, "known_class_reports": race_known}

    C.log("C10: deciding")
    return finish()


def _finish(res, evals, nontrivial, samples, stats, corr, oracle_viol, known, known_ids, proved):
    # ---------------- evidence
    cov = res.coverage
    cov["evaluations"] = evals
    cov["distinct_nontrivial"] = len(nontrivial)
    cov["rule"] = ("seeded (splitmix64) generators. A: single-goroutine histories of <= 12 operations (send / receive / one "
                   "range step in 4 syntactic forms / close; operator and method forms) on a channel of capacity 0..8, a mostly "
                   "non-blocking stream and a malformed stream (send on closed, close of closed, blocking operations - bounded "
                   "number, each costs a timeout), compared event by event with the extracted seq_step. B: topologies 1..4 "
                   "senders x 1..4 receivers, capacity 0..8, 0..2000 messages per sender (+ a few with 10^4), spawn forms go / "
                   "spawn() / fn.spawn(), receive forms <-c / c.receive() / three range forms, GOMAXPROCS 1/2/16, yields injected "
                   "in the script and in the host builtins; any number of ranging receivers. C: topologies with <= 3 messages, run "
                   "repeatedly, observed outcome must be among the outcomes of ALL model schedules (enumerated). D: spawn "
                   "scenarios (5 spawn forms, return / raised error / Go panic, 1..4 waiters - each waiting through try(func), try(t.wait, handler), try(t.wait) or two calls deep, "
                   "one after the other in the main goroutine, on threads started before the call ends or on threads started after the main goroutine's waits - "
                   "every one must observe the call's outcome; reassignments and slice overwrites "
                   "after the spawn site). D2: launcher functions whose closures over "
                   "private locals are started as threads. D3: launch matrix - 1..3 threads per scenario, each a script function / "
                   "closure / result of a call / bound method of a list with a script callback (each, map, filter) / builtin with a "
                   "script callback (try, call, sorted), started with go / spawn() / .spawn(), its arguments written as variables "
                   "reassigned afterwards, literals, arithmetic, calls of script functions and builtins (nested too), method calls, "
                   "index expressions, a call with a recorded side effect, while the launching code goes on computing and receiving: "
                   "parameters seen by the launched call, order of side effects around the launch, exactly-once / per-sender order of "
                   "the values, the launcher's own sum and the wait() results against expectations computed from the scenario. "
                   "H: producers - the values that are sent / given to threads / stored are the loop variable of every loop form (C-style, range "
                   "over int, list, string, map, set by key and by value, `in`, iterators driven with next() / entry(), callbacks of each / "
                   "map / filter), 300..2600 values, buffers 0..300, 1-2 receivers that hold their values until the producer is done; "
                   "exactly once, per-sender order, thread arguments and wait() results from the scenario alone. "
                   "E: 2..4 goroutines ranging over one channel, 20000 messages. "
                   "F: a sample of B, D, D3 and one E topology in a -race build, one process per case. G: one or several goroutines "
                   "consuming the channel with map(ch). "
                   "Non-trivial = distinct A histories containing nil / end / error / blocking / range events, B topologies with "
                   "more than one message and more than one party, distinct observed C outcomes, D scenarios with a "
                   "reassignment, overwrite, error or panic.")
    cov["samples"] = samples
    cov["correspondence"] = dict(stats, differences=len(corr))
    cov["traces_validated_against_impl"] = stats.get("A_sequential", {}).get("agree", 0) + \
        stats.get("B_topologies", {}).get("accepted_by_model", 0) + stats.get("D_spawn", {}).get("agree", 0)
    if "F_race" not in stats:
        res.notes.append("stopped at the first stage with a failing input; later stages not run: have %s" % sorted(stats))
    res.assumptions += [
        "Go's channel implementation meets the modelled semantics (FIFO queue of bounded capacity, closed flag, send on closed "
        "panics, receive on closed+empty yields the zero value); an unbuffered channel is modelled as capacity 1 (superset of schedules)",
        "steps: Chan.Send / Receive / Close are atomic; Chan.NextEntry is receive, then atomic count (Take; Fin); Chan.Next is receive, "
        "store lastReceived, count (three steps) and Chan.Entry one step; the Go memory model's treatment of the unsynchronised "
        "lastReceived accesses in the Next/Entry protocol (torn interface values) is outside the model",
        "real schedules cannot be replayed in Coq: the concurrent tie is acceptance of observed histories by the proved-sound acceptor, "
        "membership in the enumerated model outcomes for tiny topologies, and the direct oracle",
    ]

    # ---------------- decide
    fresh, in_class = [], []
    for v in oracle_viol:
        if KNOWN_ID is not None and v.get("klass") == KNOWN_CLASS and KNOWN_ID in known_ids:
            in_class.append(v)
        else:
            fresh.append(v)
    if in_class:        # unreachable while KNOWN_ID is None; kept for a future open class
        res.known_finding("%d runs in the open class %s, e.g. %s" % (len(in_class), KNOWN_ID, in_class[0]["why"][:150]))
    for v in fresh[:10]:
        v.update({"property": PROP, "kind": "oracle-violation"})
        res.violation(v)
    if fresh:
        return
    if not proved:
        res.violation({"property": PROP, "kind": "proof-obligation-broken", "theorem_file": "coq/props/C10.v",
                       "broken": res.broken, "search": "%d evaluations: no failing input" % evals},
                      nofail=True, tag="proof")
        return
    if corr:
        res.violation({"property": PROP, "kind": "correspondence-broken", "stage": corr[0].get("stage"),
                       "first_difference": corr[0], "differences": corr[:20],
                       "search": "oracle evaluated on all %d implementation runs: no failing input" % evals},
                      nofail=True, tag="corr")


# ------------------------------------------------------------------ independent oracles for A and D

def seq_oracle(cap, ops, got):
    """FIFO and close semantics of a single-goroutine history, straight from the property text."""
    q, closed = [], False
    nkeys = 0
    for (kind, v, form), g in zip(ops, got):
        if g == "BLOCK":
            # blocking is legitimate only when the operation cannot proceed
            if kind == "s" and (closed or (cap > 0 and len(q) < cap)):
                return "send blocked although the channel had room or was closed"
            if kind in ("r", "i") and (q or closed):
                return "receive blocked although a value was queued or the channel was closed"
            if kind in ("k", "m") and closed:
                return "keys()/map() blocked on a closed channel"
            if kind == "c":
                return "close blocked"
            return None
        if kind == "s":
            if g == "sent":
                if closed:
                    return "send succeeded on a closed channel"
                if len(q) >= cap:
                    return "send completed although the queue was full (capacity %d) and nobody was receiving" % cap
                q.append(v)
            elif g != "sendclosed" or not closed:
                return "send gave %s" % g
        elif kind == "r":
            if g == "nil":
                if q or not closed:
                    return "receive yielded nil although the channel was %s" % ("not drained" if q else "open")
            elif not q or g != "recv:%d" % q.pop(0):
                return "receive yielded %s, expected the oldest queued value" % g
        elif kind in ("k", "m"):
            if not closed:
                return "keys()/map() returned although the channel is open"
            want = ("keys:" + "|".join(str(nkeys + d) for d in range(len(q)))) if kind == "k" else \
                   ("map:" + "|".join("%d=%d" % (nkeys + d, v_) for d, v_ in enumerate(q)))
            if g != want:
                return "%s gave %s, expected %s" % ("keys(ch)" if kind == "k" else "map(ch)", g, want)
            nkeys += len(q)
            q = []
        elif kind == "i":
            if g == "end":
                if q or not closed:
                    return "iteration ended although the channel was %s" % ("not drained" if q else "open")
            else:
                if not g.startswith("entry:") or not q:
                    return "range step gave %s" % g
                _, k, val = g.split(":")
                exp = q.pop(0)
                if val != "_" and val != str(exp):
                    return "range step yielded value %s, expected %d" % (val, exp)
                if k != "_" and k != str(nkeys):
                    return "range step yielded key %s, expected %d" % (k, nkeys)
                nkeys += 1
        else:
            if g == "closed":
                if closed:
                    return "second close succeeded"
                closed = True
            elif g != "closeerr" or not closed:
                return "close gave %s" % g
    return None


def spawn_oracle(sc, got):
    """wait() returns exactly the call's result or error; the call sees the spawn-site argument values."""
    if "error" in got:
        return "evaluation failed: %s" % got["error"]
    site = [sc["vals"][a] for a in sc["args"]]
    if sc["kind"] == "ret":
        if sc["form"] == "bspawn":
            want = "val1(nil)" if not site else ("val1(%d)" % site[0] if len(site) == 1 else "val(%s)" % ",".join(map(str, site)))
        else:
            want = "val(%s)" % ",".join(map(str, site))
    elif sc["kind"].startswith("raise"):
        want = "raised(%s)" % sc["kind"].split(":")[1]
    else:
        want = "panic(%s)" % sc["kind"].split(":")[1]
    plan = wait_plan(sc)
    for w in range(sc["nwait"]):
        if got.get(w) != wait_want(sc, w, want):
            return "waiter %d (%s, %s) observed %r, the spawned call's outcome is %s%s" % (
                w, plan[w]["style"], {"main": "in the main goroutine", "thr": "on a thread started before the call ended",
                                      "late": "on a thread started after the main goroutine's waits"}[plan[w]["where"]],
                got.get(w), want, "" if wait_want(sc, w, want) == want else " (try(t.wait) without a handler gives nil)")
    return None


def replay(data):
    print(json.dumps({k: v for k, v in data.items() if k != "src"}, indent=1)[:4000])
    obs, err = C.go_build("c10obs")
    if not obs:
        print(err)
        return 2
    src = data.get("src")
    if not src:
        print("no source in this replay file (proof / correspondence record)")
        return 0
    cfg = data.get("config") or {}
    for attempt in range(5):
        rc, res, err = run_impl(obs, [{"id": "R", "src": src, "procs": cfg.get("procs", 16),
                                       "yield": cfg.get("yield_seed", 0), "timeout_ms": 60000}], 120)
        r = res.get("R")
        if r is None:
            print("no answer", err[-500:])
            continue
        if data.get("stage", "").startswith("D3") and data.get("scenario"):
            why, definite = matrix_oracle(data["scenario"], r)
            print("attempt %d: %s" % (attempt, why or "property holds on this run"))
            if why:
                print(json.dumps(r)[:1500])
                return 1
        elif data.get("stage", "").startswith("H") and data.get("scenario"):
            from lib import c10prod
            why, definite = c10prod.oracle(data["scenario"], r)
            print("attempt %d: %s" % (attempt, why or "property holds on this run"))
            if why:
                return 1
        elif data.get("stage", "").startswith(("B", "C", "E")) and cfg:
            why, facts = topo_oracle(cfg, r)
            print("attempt %d: %s %s" % (attempt, why or "property holds on this run", facts))
            if why:
                return 1
        else:
            print(json.dumps(r)[:2000])
            return 0
    return 0
