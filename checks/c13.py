"""C13 - rooted filesystems and mounts cannot be escaped by any path string."""
import os
import subprocess
import tempfile
from concurrent.futures import ThreadPoolExecutor

from lib import common as C

PROP = "C13"
LEVEL = "proof"

BASES = ["/srv/base", "rel/base", "/", "", ".", "/srv/base/", "/a/..a"]
LAYOUTS = [
    ("/", ["/a"]),
    ("/", ["/a", "/a/b", "/b"]),
    ("/", ["/"]),
    ("/", ["/", "/a..", "/a../b"]),
    ("/a", ["/a", "/a/a", "/..a"]),
    ("/b/a", ["/b", "/a/b/a"]),
]


# ------------------------------------------------------------------ independent oracle (Python)

def py_clean(p):
    rooted = p.startswith("/")
    st = []
    for s in p.split("/"):
        if s == "" or s == ".":
            continue
        if s == "..":
            if st and st[-1] != "..":
                st.pop()
            elif not rooted:
                st.append("..")
        else:
            st.append(s)
    body = "/".join(st)
    if rooted:
        return "/" + body
    return body if body else "."


def comps(p):
    return [s for s in p.split("/") if s != ""]


def oracle_resolve(base, path, result):
    """The property itself: the host path lies under the base and has no '..' component."""
    if base in ("", "/", "."):
        return None  # not a rooted filesystem
    if result == "INVALID":
        return None
    q = result[3:]
    cb = comps(py_clean(base))
    cq = comps(q)
    if cq[:len(cb)] != cb:
        return "host path %r not under base %r" % (q, base)
    if any(s in ("..", ".") for s in cq[len(cb):]):
        return "host path %r has a dot component" % q
    if py_clean(base).startswith("/") != q.startswith("/"):
        return "rootedness changed: %r" % q
    return None


def oracle_mount(cwd, keys, path, obs):
    p = path if path.startswith("/") else (py_clean(cwd + "/" + path) if path else py_clean(cwd))
    cp = comps(py_clean(p))
    best = None
    for k in keys:
        ck = comps(k)
        if cp[:len(ck)] == ck and (best is None or len(ck) > len(comps(best))):
            best = k
    if best is None:
        return None if obs == "NONE" else "path %r lies under no mount point but was served: %r" % (path, obs)
    if obs == "NONE":
        return "path %r lies under %r but was refused" % (path, best)
    if obs.startswith("DISAGREE") or obs.startswith("MULTI"):
        return "methods disagree on %r: %s" % (path, obs)
    k, _, rel = obs.partition("\t")
    if k != best:
        return "path %r served by %r, longest component-wise prefix is %r" % (path, k, best)
    if comps(rel) != cp[len(comps(best)):]:
        return "path %r under %r handed to the mount as %r" % (path, k, rel)
    return None


def histories(rng, n):
    """operation histories on ONE VirtualOS: Chdir between directories under different mounts (and under none),
    the same relative strings used again and again"""
    out = []
    dirs = ["/", "/a", "/a/b", "/b", "/b/a", "/c", "/a/../b", "/a/b/..", "/..a", "/a..", "a", "."]
    rels = ["f", "a", "b", "a/f", "./f", "../f", "../a/f", "..", ".", "b/../f", "", "a/", "../../f", "..a", "/a/f", "/b", "/c/f"]
    for _ in range(n):
        cwd, keys = LAYOUTS[rng.below(len(LAYOUTS))]
        pool = [rng.choice(rels) for _ in range(1 + rng.below(3))]
        ops = []
        for _ in range(2 + rng.below(9)):
            if rng.chance(1, 3):
                ops.append(("C", rng.choice(dirs)))
            else:
                ops.append(("U", rng.choice(pool) if rng.chance(4, 5) else rng.choice(rels)))
        if not any(o[0] == "U" for o in ops):
            ops.append(("U", pool[0]))
        out.append((cwd, keys, ops))
    return out


def oracle_history(cwd, keys, ops, obs):
    """independent replay: each use is judged against the directory set by the last Chdir"""
    cur = cwd
    i = 0
    for kind, arg in ops:
        if kind == "C":
            cur = arg
            continue
        if i >= len(obs):
            return "fewer observations than uses"
        o = obs[i]
        i += 1
        if o == "MULTI":
            return "use #%d (%r) reached more than one mount" % (i, arg)
        txt = "NONE" if o == "NONE" else "\t".join(bytes.fromhex(x).decode("utf-8", "replace") for x in o.split(":"))
        if not cur.startswith("/"):
            continue      # relative working directory: joined as is, outside the oracle's reading of the property
        why = oracle_mount(cur, keys, arg, txt)
        if why:
            return "use #%d with working directory %r: %s" % (i, cur, why)
    return None


# ------------------------------------------------------------------ running both sides

def run_pipe(cmd, stdin_path=None, out_path=None):
    with open(out_path, "wb") as out:
        fin = open(stdin_path, "rb") if stdin_path else None
        rc = subprocess.run(cmd, stdin=fin, stdout=out, stderr=subprocess.PIPE).returncode
        if fin:
            fin.close()
    return rc


def random_paths(rng, n):
    segs = ["", ".", "..", "a", "b", "..a", "a..", "é", "世界", "...", " ", ". ", "a b", "\xff",
            "..∕", "%2e%2e", "a\\b", "\\..", "․․", "tmp", "tmpfoo", "A", "\x7f", "~"]
    out = []
    for _ in range(n):
        k = 1 + rng.below(8)
        parts = [rng.choice(segs) if rng.chance(4, 5) else
                 "".join(chr(33 + rng.below(90)) for _ in range(1 + rng.below(4))).replace("/", "_")
                 for _ in range(k)]
        p = "/".join(parts)
        if rng.chance(1, 2):
            p = "/" + p
        if rng.chance(1, 4):
            p += "/"
        out.append(p.encode("utf-8", "surrogateescape") if "\xff" not in p else p.encode("latin-1", "replace"))
    return out


def run(res):
    tier = res.tier
    maxseg = 6
    mount_seg = 5 if tier == "quick" else 6
    lfs_seg = 2 if tier == "quick" else 3
    nrand = 20000 if tier == "quick" else 400000
    cov = res.coverage

    # 1. build
    obs, err = C.go_build("c13obs")
    if not obs:
        res.violation({"property": PROP, "kind": "harness-build-failed", "stage": "go build c13obs", "log": err[-3000:]},
                      nofail=True, tag="build")
        return
    # 3. prove
    proved = C.prove(res, PROP)
    model, err = C.build_extracted("c13", "ExtractC13.v", "c13_driver.ml")
    if not model:
        res.violation({"property": PROP, "kind": "model-build-failed", "stage": "extraction", "log": err[-3000:],
                       "broken": getattr(res, "broken", None)}, nofail=True, tag="extract")
        return

    work = tempfile.mkdtemp(prefix="c13-", dir=C.WORK if os.path.isdir(C.WORK) else None)
    os.makedirs(work, exist_ok=True)
    try:
        _run_body(res, tier, obs, model, work, maxseg, mount_seg, lfs_seg, nrand, proved)
    finally:
        import shutil
        shutil.rmtree(work, ignore_errors=True)


def _run_body(res, tier, obs, model, work, maxseg, mount_seg, lfs_seg, nrand, proved):
    cov = res.coverage
    paths_f = os.path.join(work, "paths.txt")
    rc, o, e = C.run("%s paths %d | LC_ALL=C sort -u > %s" % (obs, maxseg, paths_f), timeout=300) if False else (0, "", "")
    subprocess.run("%s paths %d | LC_ALL=C sort -u > %s" % (obs, maxseg, paths_f), shell=True, check=True)
    paths_m = os.path.join(work, "paths_m.txt")
    subprocess.run("%s paths %d | LC_ALL=C sort -u > %s" % (obs, mount_seg, paths_m), shell=True, check=True)
    npaths = sum(1 for _ in open(paths_f, "rb"))
    npaths_m = sum(1 for _ in open(paths_m, "rb"))

    rng = C.Rng(res.seed)
    rnd = random_paths(rng, nrand)
    rnd_f = os.path.join(work, "rnd.hex")
    with open(rnd_f, "w") as f:
        for b in rnd:
            f.write(b.hex() + "\n")

    jobs = []   # (kind, params, go_out, model_out)
    with ThreadPoolExecutor(max_workers=C.NCPU) as ex:
        futs = []
        for i, base in enumerate(BASES):
            g = os.path.join(work, "res_go_%d" % i)
            m = os.path.join(work, "res_mo_%d" % i)
            futs.append(ex.submit(run_pipe, [obs, "resolve", base, str(maxseg)], None, g))
            futs.append(ex.submit(run_pipe, [model, "resolve", base], paths_f, m))
            jobs.append(("resolve", base, g, m))
            g2 = os.path.join(work, "rres_go_%d" % i)
            m2 = os.path.join(work, "rres_mo_%d" % i)
            futs.append(ex.submit(run_pipe, [obs, "stdin-resolve", base], rnd_f, g2))
            futs.append(ex.submit(run_pipe, [model, "stdin-resolve", base], rnd_f, m2))
            jobs.append(("resolve-hex", base, g2, m2))
        for i, (cwd, keys) in enumerate(LAYOUTS):
            g = os.path.join(work, "mnt_go_%d" % i)
            m = os.path.join(work, "mnt_mo_%d" % i)
            futs.append(ex.submit(run_pipe, [obs, "mounts", cwd, str(mount_seg), ",".join(keys)], None, g))
            futs.append(ex.submit(run_pipe, [model, "mounts", cwd, ",".join(keys)], paths_m, m))
            jobs.append(("mounts", (cwd, keys), g, m))
            g2 = os.path.join(work, "rmnt_go_%d" % i)
            m2 = os.path.join(work, "rmnt_mo_%d" % i)
            futs.append(ex.submit(run_pipe, [obs, "stdin-mounts", cwd, ",".join(keys)], rnd_f, g2))
            futs.append(ex.submit(run_pipe, [model, "stdin-mounts", cwd, ",".join(keys)], rnd_f, m2))
            jobs.append(("mounts-hex", (cwd, keys), g2, m2))
        nhist = 6000 if tier == "quick" else 120000
        hists = histories(rng, nhist)
        hist_f = os.path.join(work, "hist.txt")
        with open(hist_f, "w") as f:
            for cwd, keys, ops in hists:
                f.write("%s %s %s\n" % (cwd.encode().hex(), ",".join(k.encode().hex() for k in keys),
                                        ";".join(k + a.encode().hex() for k, a in ops)))
        hist_go, hist_mo = os.path.join(work, "hist_go"), os.path.join(work, "hist_mo")
        futs.append(ex.submit(run_pipe, [obs, "hist"], hist_f, hist_go))
        futs.append(ex.submit(run_pipe, [model, "hist"], hist_f, hist_mo))
        lfs_out = os.path.join(work, "lfs.txt")
        futs.append(ex.submit(run_pipe, [obs, "localfs", str(lfs_seg)], None, lfs_out))
        rcs = [f.result() for f in futs]
    if any(rcs):
        res.violation({"property": PROP, "kind": "harness-run-failed", "stage": "c13obs/model_c13 exit status",
                       "rcs": rcs}, nofail=True, tag="run")
        return

    evals = 0
    corr_diffs = []
    oracle_viol = []
    rejected = 0
    nontrivial = set()
    samples = []

    def unhex(s):
        return bytes.fromhex(s).decode("utf-8", "replace")

    for kind, params, g, m in jobs:
        go_lines = {}
        for line in open(g, "rb"):
            line = line.rstrip(b"\n").decode("utf-8", "surrogateescape")
            key, _, val = line.partition("\t")
            go_lines[key] = val
        mo_lines = {}
        for line in open(m, "rb"):
            line = line.rstrip(b"\n").decode("utf-8", "surrogateescape")
            key, _, val = line.partition("\t")
            mo_lines[key] = val
        for key, val in go_lines.items():
            evals += 1
            mv = mo_lines.get(key)
            if mv != val:
                if len(corr_diffs) < 50:
                    corr_diffs.append({"stage": kind, "params": params, "input": key, "impl": val, "model": mv})
                elif len(corr_diffs) == 50:
                    corr_diffs.append({"more": True})
            # oracle on the implementation's observation
            if kind == "resolve":
                _, _, r = val.partition("\t")
                path = key
                why = oracle_resolve(params, path, r)
                if r == "INVALID":
                    rejected += 1
                elif ".." in path:
                    nontrivial.add((kind, params, path))
            elif kind == "resolve-hex":
                c, _, r = val.partition("\t")
                path = unhex(key)
                if r != "INVALID":
                    r = "OK " + unhex(r[3:])
                why = oracle_resolve(params, path, r)
                if ".." in path:
                    nontrivial.add((kind, params, key))
            elif kind == "mounts":
                why = oracle_mount(params[0], params[1], key, val)
                if val != "NONE":
                    nontrivial.add((kind, tuple(params[1]), key))
            else:
                path = unhex(key)
                why = oracle_mount(params[0], params[1], path, unhex(val))
                if val != "NONE".encode().hex():
                    nontrivial.add((kind, tuple(params[1]), key))
            if why:
                oracle_viol.append({"stage": kind, "params": params, "input": key, "impl": val, "why": why})
        if len(samples) < 12 and go_lines:
            k0 = sorted(go_lines)[len(go_lines) // 3]
            samples.append({"stage": kind, "params": params, "input": k0, "impl": go_lines[k0], "model": mo_lines.get(k0)})

    # histories on one VirtualOS (Chdir between lookups)
    hg = open(hist_go).read().splitlines()
    hm = open(hist_mo).read().splitlines()
    hist_uses = 0
    hist_chdirs = 0
    for idx, (cwd, keys, ops) in enumerate(hists):
        g = hg[idx] if idx < len(hg) else None
        m = hm[idx] if idx < len(hm) else None
        evals += 1
        hist_uses += sum(1 for o in ops if o[0] == "U")
        hist_chdirs += sum(1 for o in ops if o[0] == "C")
        if g != m and len(corr_diffs) < 50:
            corr_diffs.append({"stage": "history", "params": (cwd, keys), "input": ops, "impl": g, "model": m})
        if g is None:
            continue
        why = oracle_history(cwd, keys, ops, g.split(";") if g else [])
        if why:
            oracle_viol.append({"stage": "history", "params": (cwd, keys), "input": ops, "impl": g, "why": why})
        elif any(o[0] == "C" for o in ops) and "NONE" != g:
            nontrivial.add(("history", idx))
    cov["histories"] = {"count": len(hists), "uses": hist_uses, "chdirs": hist_chdirs}

    lfs_viol = []
    lfs_summary = ""
    for line in open(lfs_out, "rb"):
        line = line.decode("utf-8", "replace").rstrip("\n")
        if line.startswith("VIOL"):
            lfs_viol.append(line)
        elif line.startswith("SUMMARY"):
            lfs_summary = line
    if not lfs_summary:
        res.violation({"property": PROP, "kind": "harness-run-failed", "stage": "localfs sentinel run gave no summary"},
                      nofail=True, tag="lfs")
        return
    lfs_evals = int(lfs_summary.split("evals=")[1].split("\t")[0])
    evals += lfs_evals
    for v in lfs_viol[:20]:
        f = v.split("\t")
        oracle_viol.append({"stage": "localfs", "op": f[1], "arg1_hex": f[2], "arg2_hex": f[3] if len(f) > 3 else "",
                            "why": "effect outside the base: " + (f[4] if len(f) > 4 else "")})

    cov["evaluations"] = evals
    cov["distinct_nontrivial"] = len(nontrivial)
    cov["rule"] = ("exhaustive enumeration of the property's path alphabet {'', '.', '..', 'a', 'b', '..a', 'a..'} with <= %d "
                   "segments (absolute/relative, with/without trailing separator: %d distinct strings) through os.ResolvePath "
                   "for %d bases and, with <= %d segments (%d strings), through every single- and two-path method of VirtualOS "
                   "over %d mount layouts with recording filesystems; %d seeded random Unicode/byte paths through both; "
                   "%d operation histories on one VirtualOS (Chdir between mounts, the same relative strings reused); "
                   "every localfs method over a temp tree with sentinels outside the base (<= %d segments); each output compared "
                   "with the extracted Gallina model and judged by an independent Python oracle. Non-trivial = distinct inputs "
                   "containing '..' that resolve, or that are served by some mount." % (
                       maxseg, npaths, len(BASES), mount_seg, npaths_m, len(LAYOUTS), len(rnd), len(hists), lfs_seg))
    cov["exhaustive"] = True
    cov["samples"] = samples
    cov["correspondence"] = {"cases": evals - lfs_evals, "differences": len(corr_diffs),
                             "resolve_rejected": rejected, "localfs": lfs_summary}
    cov["input_distribution"] = {"alphabet_paths": npaths, "mount_paths": npaths_m, "random_paths": len(rnd),
                                 "bases": BASES, "layouts": LAYOUTS}
    res.assumptions += [
        "Go's path/filepath.Clean/Join/IsAbs and strings.HasPrefix/TrimPrefix are modelled (Unix semantics), validated by the exhaustive comparison",
        "mount table keys equal Mount.Target and are clean absolute paths (hypothesis key_ok of the mount theorems)",
        "symlinks inside the base are outside the property (path strings only)",
    ]

    # 6. decide
    for v in oracle_viol[:10]:
        v.update({"property": PROP, "kind": "oracle-violation",
                  "replay_cmd": "build/bin/c13obs (see stage/params/input)"})
        res.violation(v)
    if oracle_viol:
        return
    if not proved:
        res.violation({"property": PROP, "kind": "proof-obligation-broken", "theorem_file": "coq/props/C13.v",
                       "broken": res.broken, "search": "exhaustive alphabet + %d random paths: no failing input" % len(rnd)},
                      nofail=True, tag="proof")
        return
    if corr_diffs:
        res.violation({"property": PROP, "kind": "correspondence-broken", "stage": corr_diffs[0].get("stage"),
                       "first_difference": corr_diffs[0], "differences": corr_diffs[:20],
                       "search": "oracle evaluated on all %d implementation outputs: no failing input" % evals},
                      nofail=True, tag="corr")


def replay(data):
    import json
    print(json.dumps(data, indent=1))
    obs, err = C.go_build("c13obs")
    if not obs:
        print(err)
        return 2
    st = data.get("stage")
    if st in ("resolve", "resolve-hex"):
        inp = data["input"] if st == "resolve-hex" else data["input"].encode("utf-8", "surrogateescape").hex()
        rc, o, e = C.run([obs, "stdin-resolve", data["params"]], input=(inp + "\n").encode())
        print(o)
    elif st in ("mounts", "mounts-hex"):
        inp = data["input"] if st == "mounts-hex" else data["input"].encode("utf-8", "surrogateescape").hex()
        rc, o, e = C.run([obs, "stdin-mounts", data["params"][0], ",".join(data["params"][1])], input=(inp + "\n").encode())
        print(o)
    return 0
