"""C13 - rooted filesystems and mounts cannot be escaped by any path string."""
import os
import subprocess
import tempfile
from concurrent.futures import ThreadPoolExecutor

from lib import common as C

PROP = "C13"
LEVEL = "proof"

BASES = ["/srv/base", "rel/base", "/", "", ".", "/srv/base/", "/a/..a"]
LAYOUTS = [
    ("/", ["/a"]),
    ("/", ["/a", "/a/b", "/b"]),
    ("/", ["/"]),
    ("/", ["/", "/a..", "/a../b"]),
    ("/a", ["/a", "/a/a", "/..a"]),
    ("/b/a", ["/b", "/a/b/a"]),
]


# ------------------------------------------------------------------ independent oracle (Python)

def py_clean(p):
    rooted = p.startswith("/")
    st = []
    for s in p.split("/"):
        if s == "" or s == ".":
            continue
        if s == "..":
            if st and st[-1] != "..":
                st.pop()
            elif not rooted:
                st.append("..")
        else:
            st.append(s)
    body = "/".join(st)
    if rooted:
        return "/" + body
    return body if body else "."


def comps(p):
    return [s for s in p.split("/") if s != ""]


def oracle_resolve(base, path, result):
    """The property itself: the host path lies under the base and has no '..' component."""
    if base in ("", "/", "."):
        return None  # not a rooted filesystem
    if result == "INVALID":
        return None
    q = result[3:]
    cb = comps(py_clean(base))
    cq = comps(q)
    if cq[:len(cb)] != cb:
        return "host path %r not under base %r" % (q, base)
    if any(s in ("..", ".") for s in cq[len(cb):]):
        return "host path %r has a dot component" % q
    if py_clean(base).startswith("/") != q.startswith("/"):
        return "rootedness changed: %r" % q
    return None


def oracle_mount(cwd, keys, path, obs):
    p = path if path.startswith("/") else (py_clean(cwd + "/" + path) if path else py_clean(cwd))
    cp = comps(py_clean(p))
    best = None
    for k in keys:
        ck = comps(k)
        if cp[:len(ck)] == ck and (best is None or len(ck) > len(comps(best))):
            best = k
    if best is None:
        return None if obs == "NONE" else "path %r lies under no mount point but was served: %r" % (path, obs)
    if obs == "NONE":
        return "path %r lies under %r but was refused" % (path, best)
    if obs.startswith("DISAGREE") or obs.startswith("MULTI"):
        return "methods disagree on %r: %s" % (path, obs)
    k, _, rel = obs.partition("\t")
    if k != best:
        return "path %r served by %r, longest component-wise prefix is %r" % (path, k, best)
    if comps(rel) != cp[len(comps(best)):]:
        return "path %r under %r handed to the mount as %r" % (path, k, rel)
    return None


# ------------------------------------------------------------------ two-path operations with two DIFFERENT paths

TWO_ALPHA = {
    "prop": ["", ".", "..", "a", "b", "..a", "a.."],                                  # the property's alphabet
    "nat": ["", ".", "..", "a", "tmp", "tmpfoo", "foo", "data", "datab"],             # sibling names that extend a mount point's name
}
TWO_LAYOUTS = [(cwd, keys, "prop") for cwd, keys in LAYOUTS] + [
    ("/", ["/tmp"], "nat"),                                   # /tmpfoo lies under no mount point
    ("/", ["/", "/data"], "nat"),                             # a mount nested in the root mount
    ("/", ["/tmp", "/tmp/foo", "/tmpfoo/a"], "nat"),          # nested + a sibling tree with its own mount
    ("/tmp", ["/", "/tmp", "/tmp/a", "/data"], "nat"),        # relative paths from inside a nested mount
    ("/data/a", ["/data", "/datab", "/tmp/data"], "nat"),
]


def alpha_strings(alpha, maxseg):
    """the same enumeration as c13obs paths, over another segment alphabet"""
    out = ["", "/"]
    seqs = [[]]
    for _ in range(maxseg):
        seqs = [q + [a] for q in seqs for a in alpha]
        for q in seqs:
            j = "/".join(q)
            for ab in ("", "/"):
                for tr in ("", "/"):
                    out.append(ab + j + tr)
    return sorted(set(out))


def oracle_lookup(cwd, keys, path):
    """The property's reading of one lookup: (mount point with the longest component-wise prefix, components below it) or None."""
    p = path if path.startswith("/") else (py_clean(cwd + "/" + path) if path else py_clean(cwd))
    cp = comps(py_clean(p))
    best = None
    for k in keys:
        ck = comps(k)
        if cp[:len(ck)] == ck and (best is None or len(ck) > len(comps(best))):
            best = k
    if best is None:
        return None
    return best, cp[len(comps(best)):]


def oracle_two(cwd, keys, p1, p2, obs, cache):
    """both arguments resolved independently; handed to a mount only when both have the same longest mount point"""
    for p in (p1, p2):
        if p not in cache:
            cache[p] = oracle_lookup(cwd, keys, p)
    l1, l2 = cache[p1], cache[p2]
    want = l1 is not None and l2 is not None and l1[0] == l2[0]
    if obs == "NONE":
        if want:
            return "both paths lie under the mount point %r but the operation was refused" % l1[0]
        return None
    if not obs or obs.startswith(("DISAGREE", "MULTI", "BAD")):
        return "Rename and Symlink do not hand the pair to one mount: %s" % obs
    try:
        k, r1, r2 = [bytes.fromhex(x).decode("utf-8", "replace") for x in obs.split(":")]
    except ValueError:
        return "unreadable observation %r" % obs
    where = lambda l: "no mount point" if l is None else "the mount point %r (as %r)" % (l[0], "/" + "/".join(l[1]))
    if not want:
        return ("the operation was handed to the mount %r as (%r, %r), but the first path belongs to %s and the second path to %s: "
                "it must be refused" % (k, r1, r2, where(l1), where(l2)))
    if k != l1[0]:
        return "served by the mount %r; the longest component-wise prefix of both paths is %r" % (k, l1[0])
    if comps(r1) != l1[1] or comps(r2) != l2[1]:
        return "handed to the mount %r as (%r, %r); the components below the mount point are %r and %r" % (k, r1, r2, l1[1], l2[1])
    return None


def two_pairs(rng, alpha, tier):
    """pairs of paths: every pair of strings with <= 2 segments (thorough: second path <= 3), plus random longer ones"""
    small = alpha_strings(alpha, 2)
    second = small if tier == "quick" else alpha_strings(alpha, 3)
    pairs = [(a, b) for a in small for b in second]
    longer = alpha_strings(alpha, 3) if tier == "quick" else alpha_strings(alpha, 4)
    for _ in range(8000 if tier == "quick" else 150000):
        pairs.append((rng.choice(longer), rng.choice(longer)))
    return pairs


def tree_join(d, name):
    if d == "":
        return name
    return d + name if d.endswith("/") else d + "/" + name


def two_tree_ops(rng, cwd, keys, alpha, n):
    """operations for the real trees: a FILE below every kind of directory path; the caller's own lookup says where it lives"""
    dirs = alpha_strings(alpha, 2)
    cache = {}
    cats = {"same": [], "other-mount": [], "no-mount": []}
    for d1 in dirs:
        p1 = tree_join(d1, "f1.txt")
        l1 = oracle_lookup(cwd, keys, p1)
        if l1 is None:
            continue
        for d2 in dirs:
            p2 = tree_join(d2, "f2.txt")
            if p2 not in cache:
                cache[p2] = oracle_lookup(cwd, keys, p2)
            l2 = cache[p2]
            cat = "no-mount" if l2 is None else ("same" if l2[0] == l1[0] else "other-mount")
            cats[cat].append((p1, p2, l1, l2))
    out = []
    for cat, lst in sorted(cats.items()):
        for _ in range(min(len(lst), n // 3)):
            p1, p2, l1, l2 = lst.pop(rng.below(len(lst)))
            out.append((rng.choice(["Rename", "Symlink"]), p1, p2, l1, l2, cat))
    return out


def judge_tree(op, keys, l1, l2, status, changes):
    """every host entry the operation created / removed / changed must be the one the property allows"""
    want = l2 is not None and l1[0] == l2[0]
    i = keys.index(l1[0])
    a1 = "src%d/%s" % (i, "/".join(l1[1]))
    allowed = set()
    if want:
        a2 = "src%d/%s" % (keys.index(l2[0]), "/".join(l2[1]))
        allowed = {"-" + a1, "+" + a2} if op == "Rename" else {"+%s=link->@ROOT/%s" % (a2, a1)}
    bad = [c for c in changes if c not in allowed]
    if bad:
        where = lambda l: "no mount point" if l is None else "mount point %r, source tree src%d, as %r" % (l[0], keys.index(l[0]), "/".join(l[1]))
        return ("host entries touched: %s; the first path belongs to %s, the second to %s, so the operation %s"
                % (bad[:4], where(l1), where(l2), "may only touch %s" % sorted(allowed) if want else "must be refused and touch nothing"))
    if want and status == "ok" and not changes:
        return "the operation reported success but nothing changed on the host"
    return None


def histories(rng, n):
    """operation histories on ONE VirtualOS: Chdir between directories under different mounts (and under none),
    the same relative strings used again and again"""
    out = []
    dirs = ["/", "/a", "/a/b", "/b", "/b/a", "/c", "/a/../b", "/a/b/..", "/..a", "/a..", "a", "."]
    rels = ["f", "a", "b", "a/f", "./f", "../f", "../a/f", "..", ".", "b/../f", "", "a/", "../../f", "..a", "/a/f", "/b", "/c/f"]
    for _ in range(n):
        cwd, keys = LAYOUTS[rng.below(len(LAYOUTS))]
        pool = [rng.choice(rels) for _ in range(1 + rng.below(3))]
        ops = []
        for _ in range(2 + rng.below(9)):
            if rng.chance(1, 3):
                ops.append(("C", rng.choice(dirs)))
            else:
                ops.append(("U", rng.choice(pool) if rng.chance(4, 5) else rng.choice(rels)))
        if not any(o[0] == "U" for o in ops):
            ops.append(("U", pool[0]))
        out.append((cwd, keys, ops))
    return out


def oracle_history(cwd, keys, ops, obs):
    """independent replay: each use is judged against the directory set by the last Chdir"""
    cur = cwd
    i = 0
    for kind, arg in ops:
        if kind == "C":
            cur = arg
            continue
        if i >= len(obs):
            return "fewer observations than uses"
        o = obs[i]
        i += 1
        if o == "MULTI":
            return "use #%d (%r) reached more than one mount" % (i, arg)
        txt = "NONE" if o == "NONE" else "\t".join(bytes.fromhex(x).decode("utf-8", "replace") for x in o.split(":"))
        if not cur.startswith("/"):
            continue      # relative working directory: joined as is, outside the oracle's reading of the property
        why = oracle_mount(cur, keys, arg, txt)
        if why:
            return "use #%d with working directory %r: %s" % (i, cur, why)
    return None


# ------------------------------------------------------------------ histories on a real rooted filesystem (symbolic links)

LFS_LINKS = ["L", "M", "d/s", "a/k", "a/b/k", "d/t", "a/L"]
LFS_THROUGH = ["", "/..", "/../..", "/../../..", "/f", "/a", "/../f", "/../OUT-secret.txt", "/OUT-secret.txt", "/../..//a", "/./..",
               "/b/../..", "/a/../..", "/../OUT-dir", "/../OUT-dir/f", "/../base", "/../basex/f", "/w"]
LFS_SEGS = ["a", "b", "d", "s", "k", "f", "L", "M", "e", "..", ".", "t"]


def lfs_op(name, *args):
    return name + "".join(":" + a.encode().hex() for a in args)


def lfs_chains():
    """every two-link chain over a small alphabet: a first link whose target is as shallow as or shallower than the link
    itself, then a second link whose (relative or absolute) target walks through the first one; then operations through
    the second"""
    out = []
    for l1 in ("d/s", "a/b/k", "M"):
        for t1 in ("/", ".", "a/..", "d", "a/b", "/a", "d/..", ""):
            for up in ("/..", "/../..", "/../../..", "/a/../..", "/.", "", "/../OUT-dir", "/../f"):
                for l2 in ("L", "a/L", "d/L"):
                    for lead in ("", "/"):
                        out.append([lfs_op("Symlink", t1, l1), lfs_op("Symlink", lead + l1 + up, l2),
                                    lfs_op("ReadFile", l2 + "/OUT-secret.txt"), lfs_op("ReadDir", l2),
                                    lfs_op("WriteFile", l2 + "/w")])
    return out


def lfs_random(rng, n):
    out = []
    for _ in range(n):
        links = []
        ops = []

        def path(prefer_link):
            if links and rng.chance(2, 3) if prefer_link else (links and rng.chance(1, 4)):
                p = rng.choice(links) + rng.choice(LFS_THROUGH)
            else:
                p = "/".join(rng.choice(LFS_SEGS) for _ in range(1 + rng.below(4)))
                if rng.chance(1, 8):
                    p = rng.choice(["/", ".", "", "a/..", "d/.."])
            if rng.chance(1, 4):
                p = "/" + p
            if rng.chance(1, 10):
                p += "/"
            return p
        for _ in range(2 + rng.below(7)):
            r = rng.below(20)
            if r < 7:
                new = rng.choice(LFS_LINKS) if rng.chance(3, 4) else path(False)
                ops.append(lfs_op("Symlink", path(True), new))
                links.append(new.strip("/"))
            elif r < 9:
                ops.append(lfs_op(rng.choice(["Mkdir", "MkdirAll"]), rng.choice(["dd", "d/e", "a/b/c", "e"]) if rng.chance(1, 2) else path(True)))
            elif r < 12:
                src = rng.choice(links + ["a", "d", "a/b"]) if rng.chance(3, 4) else path(True)
                dst = rng.choice(["N", "a/N", "a/b/N", "d/N", "e/N"]) if rng.chance(2, 3) else path(True)
                ops.append(lfs_op("Rename", src, dst))
                if src in links:
                    links.append(dst.strip("/"))
            elif r < 15:
                ops.append(lfs_op(rng.choice(["ReadFile", "ReadDir", "Stat", "WalkDir"]), path(True)))
            elif r < 18:
                ops.append(lfs_op(rng.choice(["WriteFile", "Create"]), path(True)))
            else:
                ops.append(lfs_op(rng.choice(["Remove", "RemoveAll"]), path(True)))
        out.append(ops)
    return out


def lfs_describe(ops):
    out = []
    for o in ops:
        f = o.split(":")
        out.append("%s(%s)" % (f[0], ", ".join(repr(bytes.fromhex(x).decode("utf-8", "replace")) for x in f[1:])))
    return out


def run_lfs_histories(obs, hists, work):
    nshard = max(1, min(C.NCPU, 8))
    shards = [hists[i::nshard] for i in range(nshard)]

    def one(i):
        if not shards[i]:
            return 0, "", ""
        env = dict(os.environ)
        env["TMPDIR"] = work
        p = subprocess.run([obs, "lfshist"], input=("\n".join(";".join(h) for h in shards[i]) + "\n").encode(),
                           stdout=subprocess.PIPE, stderr=subprocess.PIPE, env=env)
        return p.returncode, p.stdout.decode("utf-8", "replace"), p.stderr.decode("utf-8", "replace")
    with ThreadPoolExecutor(max_workers=nshard) as ex:
        outs = list(ex.map(one, range(nshard)))
    res = [None] * len(hists)
    import json
    for i, (rc, o, e) in enumerate(outs):
        if rc != 0:
            return None, "c13obs lfshist rc=%s %s" % (rc, (o + e)[-800:])
        lines = [json.loads(x) for x in o.splitlines() if x.strip()]
        if len(lines) != len(shards[i]):
            return None, "c13obs lfshist answered %d of %d histories" % (len(lines), len(shards[i]))
        for k, j in enumerate(lines):
            res[i + k * nshard] = j
    return res, ""


def load_known():
    """open known findings of this property: the shared file plus the per-agent files known_findings.<agent>.jsonl"""
    import glob
    import json
    out = list(C.load_known(PROP))
    for p in sorted(glob.glob(os.path.join(C.VERIF, "known_findings.*.jsonl"))):
        for line in open(p):
            line = line.strip()
            if not line or line.startswith("#"):
                continue
            j = json.loads(line)
            if j.get("property") == PROP and not j.get("fixed"):
                out.append(j)
    return out


# ------------------------------------------------------------------ running both sides

def run_pipe(cmd, stdin_path=None, out_path=None, tmpdir=None):
    env = None
    if tmpdir:
        env = dict(os.environ)
        env["TMPDIR"] = tmpdir
    with open(out_path, "wb") as out:
        fin = open(stdin_path, "rb") if stdin_path else None
        rc = subprocess.run(cmd, stdin=fin, stdout=out, stderr=subprocess.PIPE, env=env).returncode
        if fin:
            fin.close()
    return rc


def random_paths(rng, n):
    segs = ["", ".", "..", "a", "b", "..a", "a..", "é", "世界", "...", " ", ". ", "a b", "\xff",
            "..∕", "%2e%2e", "a\\b", "\\..", "․․", "tmp", "tmpfoo", "A", "\x7f", "~"]
    out = []
    for _ in range(n):
        k = 1 + rng.below(8)
        parts = [rng.choice(segs) if rng.chance(4, 5) else
                 "".join(chr(33 + rng.below(90)) for _ in range(1 + rng.below(4))).replace("/", "_")
                 for _ in range(k)]
        p = "/".join(parts)
        if rng.chance(1, 2):
            p = "/" + p
        if rng.chance(1, 4):
            p += "/"
        out.append(p.encode("utf-8", "surrogateescape") if "\xff" not in p else p.encode("latin-1", "replace"))
    return out


def run(res):
    tier = res.tier
    maxseg = 6
    mount_seg = 5 if tier == "quick" else 6
    lfs_seg = 2 if tier == "quick" else 3
    nrand = 20000 if tier == "quick" else 400000
    cov = res.coverage

    # 1. build
    obs, err = C.go_build("c13obs")
    if not obs:
        res.violation({"property": PROP, "kind": "harness-build-failed", "stage": "go build c13obs", "log": err[-3000:]},
                      nofail=True, tag="build")
        return
    # 3. prove
    proved = C.prove(res, PROP)
    model, err = C.build_extracted("c13", "ExtractC13.v", "c13_driver.ml")
    if not model:
        res.violation({"property": PROP, "kind": "model-build-failed", "stage": "extraction", "log": err[-3000:],
                       "broken": getattr(res, "broken", None)}, nofail=True, tag="extract")
        return

    work = tempfile.mkdtemp(prefix="c13-", dir=C.WORK if os.path.isdir(C.WORK) else None)
    os.makedirs(work, exist_ok=True)
    try:
        _run_body(res, tier, obs, model, work, maxseg, mount_seg, lfs_seg, nrand, proved)
    finally:
        import shutil
        shutil.rmtree(work, ignore_errors=True)


def _run_body(res, tier, obs, model, work, maxseg, mount_seg, lfs_seg, nrand, proved):
    cov = res.coverage
    paths_f = os.path.join(work, "paths.txt")
    rc, o, e = C.run("%s paths %d | LC_ALL=C sort -u > %s" % (obs, maxseg, paths_f), timeout=300) if False else (0, "", "")
    subprocess.run("%s paths %d | LC_ALL=C sort -u > %s" % (obs, maxseg, paths_f), shell=True, check=True)
    paths_m = os.path.join(work, "paths_m.txt")
    subprocess.run("%s paths %d | LC_ALL=C sort -u > %s" % (obs, mount_seg, paths_m), shell=True, check=True)
    npaths = sum(1 for _ in open(paths_f, "rb"))
    npaths_m = sum(1 for _ in open(paths_m, "rb"))

    rng = C.Rng(res.seed)
    rnd = random_paths(rng, nrand)
    rnd_f = os.path.join(work, "rnd.hex")
    with open(rnd_f, "w") as f:
        for b in rnd:
            f.write(b.hex() + "\n")

    jobs = []   # (kind, params, go_out, model_out)
    with ThreadPoolExecutor(max_workers=C.NCPU) as ex:
        futs = []
        for i, base in enumerate(BASES):
            g = os.path.join(work, "res_go_%d" % i)
            m = os.path.join(work, "res_mo_%d" % i)
            futs.append(ex.submit(run_pipe, [obs, "resolve", base, str(maxseg)], None, g))
            futs.append(ex.submit(run_pipe, [model, "resolve", base], paths_f, m))
            jobs.append(("resolve", base, g, m))
            g2 = os.path.join(work, "rres_go_%d" % i)
            m2 = os.path.join(work, "rres_mo_%d" % i)
            futs.append(ex.submit(run_pipe, [obs, "stdin-resolve", base], rnd_f, g2))
            futs.append(ex.submit(run_pipe, [model, "stdin-resolve", base], rnd_f, m2))
            jobs.append(("resolve-hex", base, g2, m2))
        for i, (cwd, keys) in enumerate(LAYOUTS):
            g = os.path.join(work, "mnt_go_%d" % i)
            m = os.path.join(work, "mnt_mo_%d" % i)
            futs.append(ex.submit(run_pipe, [obs, "mounts", cwd, str(mount_seg), ",".join(keys)], None, g))
            futs.append(ex.submit(run_pipe, [model, "mounts", cwd, ",".join(keys)], paths_m, m))
            jobs.append(("mounts", (cwd, keys), g, m))
            g2 = os.path.join(work, "rmnt_go_%d" % i)
            m2 = os.path.join(work, "rmnt_mo_%d" % i)
            futs.append(ex.submit(run_pipe, [obs, "stdin-mounts", cwd, ",".join(keys)], rnd_f, g2))
            futs.append(ex.submit(run_pipe, [model, "stdin-mounts", cwd, ",".join(keys)], rnd_f, m2))
            jobs.append(("mounts-hex", (cwd, keys), g2, m2))
        two_jobs = []
        for i, (cwd, keys, an) in enumerate(TWO_LAYOUTS):
            pairs = two_pairs(rng, TWO_ALPHA[an], tier)
            pf = os.path.join(work, "two_in_%d" % i)
            with open(pf, "w") as f:
                for a, b in pairs:
                    f.write("%s %s\n" % (a.encode().hex(), b.encode().hex()))
            g, m = os.path.join(work, "two_go_%d" % i), os.path.join(work, "two_mo_%d" % i)
            futs.append(ex.submit(run_pipe, [obs, "two", cwd, ",".join(keys)], pf, g))
            futs.append(ex.submit(run_pipe, [model, "stdin-two", cwd, ",".join(keys)], pf, m))
            tops = two_tree_ops(rng, cwd, keys, TWO_ALPHA[an], 240 if tier == "quick" else 3000)
            tf = os.path.join(work, "tree_in_%d" % i)
            with open(tf, "w") as f:
                for op, p1, p2, l1, l2, cat in tops:
                    f.write("%s %s %s %d %s\n" % (op, p1.encode().hex(), p2.encode().hex(), keys.index(l1[0]), "/".join(l1[1]).encode().hex()))
            tg = os.path.join(work, "tree_go_%d" % i)
            names = sorted({c for k in keys for c in comps(k)} | {a for a in TWO_ALPHA[an] if a not in ("", ".", "..")})
            futs.append(ex.submit(run_pipe, [obs, "twotree", cwd, ",".join(keys), ",".join(names)], tf, tg))
            two_jobs.append((cwd, keys, an, pairs, g, m, tops, tg))
        nhist = 6000 if tier == "quick" else 120000
        hists = histories(rng, nhist)
        hist_f = os.path.join(work, "hist.txt")
        with open(hist_f, "w") as f:
            for cwd, keys, ops in hists:
                f.write("%s %s %s\n" % (cwd.encode().hex(), ",".join(k.encode().hex() for k in keys),
                                        ";".join(k + a.encode().hex() for k, a in ops)))
        hist_go, hist_mo = os.path.join(work, "hist_go"), os.path.join(work, "hist_mo")
        futs.append(ex.submit(run_pipe, [obs, "hist"], hist_f, hist_go))
        futs.append(ex.submit(run_pipe, [model, "hist"], hist_f, hist_mo))
        lfs_out = os.path.join(work, "lfs.txt")
        futs.append(ex.submit(run_pipe, [obs, "localfs", str(lfs_seg)], None, lfs_out))
        # the same sentinel run for every SPELLING of the base (relative, ".", "./", "a/..", doubled / trailing separators,
        # a symbolic link as working directory), each in its own chroot jail
        rc, o, e = C.run([obs, "localfs-layouts"])
        base_layouts = [tuple(l.split("\t")) for l in o.splitlines() if l.count("\t") == 2]
        base_seg = 1 if tier == "quick" else 2
        base_outs = []
        for k, lay in enumerate(base_layouts):
            bo = os.path.join(work, "lfsbase_%d.txt" % k)
            futs.append(ex.submit(run_pipe, [obs, "localfs-base", str(base_seg), str(k)], None, bo, work))
            base_outs.append((lay, bo))
        # the script-level builtins (cp, rename, symlink, write_file, ... every builtin of the os module and its aliases)
        # under a VirtualOS over real trees, in two worlds that differ only OUTSIDE the mount sources
        so_layouts = ["root+m", "m-only", "root+m-cwd-d", "root-only"]
        so_outs = []
        for k, lay in enumerate(so_layouts):
            so = os.path.join(work, "scriptops_%d.txt" % k)
            futs.append(ex.submit(run_pipe, [obs, "scriptops", lay], None, so, work))
            so_outs.append((lay, so))
        rcs = [f.result() for f in futs]
    if any(rcs):
        res.violation({"property": PROP, "kind": "harness-run-failed", "stage": "c13obs/model_c13 exit status",
                       "rcs": rcs}, nofail=True, tag="run")
        return

    evals = 0
    corr_diffs = []
    oracle_viol = []
    rejected = 0
    nontrivial = set()
    samples = []

    # histories of localfs operations on a real tree: symbolic links made through the filesystem, chains of them,
    # renames, and operations through them
    lfs_h = lfs_chains() + lfs_random(rng, 4000 if tier == "quick" else 60000)
    lfs_res, err = run_lfs_histories(obs, lfs_h, work)
    if lfs_res is None:
        res.violation({"property": PROP, "kind": "harness-run-failed", "stage": "c13obs lfshist", "log": err}, nofail=True, tag="lfshist")
        return
    link_recs = []
    lfs_stats = {"histories": len(lfs_h), "operations": 0, "links_made": 0, "links_through_links": 0, "rejected": 0}
    for h, r in zip(lfs_h, lfs_res):
        evals += 1
        lfs_stats["operations"] += len(r["res"])
        lfs_stats["rejected"] += sum(1 for x in r["res"] if x == "invalid")
        made = []
        for k, old_hex, stored_hex in r["links"]:
            lfs_stats["links_made"] += 1
            oldp = bytes.fromhex(old_hex).decode("utf-8", "replace")
            f = h[int(k)].split(":")
            newp = bytes.fromhex(f[2]).decode("utf-8", "replace").strip("/")
            if any(m and (oldp.strip("/") + "/").startswith(m + "/") for m in made):
                lfs_stats["links_through_links"] += 1
                nontrivial.add(("lfshist", tuple(h[:int(k) + 1])))
            made.append(newp)
            link_recs.append((h, int(k), old_hex, stored_hex))
        if r.get("problem") and len(corr_diffs) < 50:
            corr_diffs.append({"stage": "lfshist-resolver", "history": lfs_describe(h), "why": r["problem"]})
        if r["viol"]:
            oracle_viol.append({"stage": "lfshist", "history": lfs_describe(h[:len(r["res"])]), "ops": h[:len(r["res"])],
                                "results": r["res"], "why": r["viol"][0], "all_observations": r["viol"]})
    # the text stored in a link made by Symlink(old, new) must be what the model resolves `old` to under the base
    if link_recs:
        uniq = sorted({x[2] for x in link_recs})
        rc, o, e = C.run([model, "stdin-resolve", "/B"], input=("\n".join(uniq) + "\n").encode(), timeout=600)
        want = {}
        for line in o.splitlines():
            f = line.split("\t")
            if len(f) == 3:
                want[f[0]] = f[2]
        for h, k, old_hex, stored_hex in link_recs:
            mv = want.get(old_hex)
            stored = bytes.fromhex(stored_hex).decode("utf-8", "replace")
            exp = None
            if mv and mv.startswith("OK "):
                exp = "@BASE" + bytes.fromhex(mv[3:]).decode("utf-8", "replace")[len("/B"):]
            if exp != stored and len(corr_diffs) < 50:
                corr_diffs.append({"stage": "lfshist-link-text", "history": lfs_describe(h[:k + 1]), "impl": stored, "model": exp if exp else mv})
    cov["localfs_histories"] = lfs_stats
    if lfs_res:
        samples.append({"stage": "lfshist", "history": lfs_describe(lfs_h[len(lfs_h) // 2]), "impl": lfs_res[len(lfs_h) // 2]})

    def unhex(s):
        return bytes.fromhex(s).decode("utf-8", "replace")

    for kind, params, g, m in jobs:
        go_lines = {}
        for line in open(g, "rb"):
            line = line.rstrip(b"\n").decode("utf-8", "surrogateescape")
            key, _, val = line.partition("\t")
            go_lines[key] = val
        mo_lines = {}
        for line in open(m, "rb"):
            line = line.rstrip(b"\n").decode("utf-8", "surrogateescape")
            key, _, val = line.partition("\t")
            mo_lines[key] = val
        for key, val in go_lines.items():
            evals += 1
            mv = mo_lines.get(key)
            if mv != val:
                if len(corr_diffs) < 50:
                    corr_diffs.append({"stage": kind, "params": params, "input": key, "impl": val, "model": mv})
                elif len(corr_diffs) == 50:
                    corr_diffs.append({"more": True})
            # oracle on the implementation's observation
            if kind == "resolve":
                _, _, r = val.partition("\t")
                path = key
                why = oracle_resolve(params, path, r)
                if r == "INVALID":
                    rejected += 1
                elif ".." in path:
                    nontrivial.add((kind, params, path))
            elif kind == "resolve-hex":
                c, _, r = val.partition("\t")
                path = unhex(key)
                if r != "INVALID":
                    r = "OK " + unhex(r[3:])
                why = oracle_resolve(params, path, r)
                if ".." in path:
                    nontrivial.add((kind, params, key))
            elif kind == "mounts":
                why = oracle_mount(params[0], params[1], key, val)
                if val != "NONE":
                    nontrivial.add((kind, tuple(params[1]), key))
            else:
                path = unhex(key)
                why = oracle_mount(params[0], params[1], path, unhex(val))
                if val != "NONE".encode().hex():
                    nontrivial.add((kind, tuple(params[1]), key))
            if why:
                oracle_viol.append({"stage": kind, "params": params, "input": key, "impl": val, "why": why})
        if len(samples) < 12 and go_lines:
            k0 = sorted(go_lines)[len(go_lines) // 3]
            samples.append({"stage": kind, "params": params, "input": k0, "impl": go_lines[k0], "model": mo_lines.get(k0)})

    # histories on one VirtualOS (Chdir between lookups)
    hg = open(hist_go).read().splitlines()
    hm = open(hist_mo).read().splitlines()
    hist_uses = 0
    hist_chdirs = 0
    for idx, (cwd, keys, ops) in enumerate(hists):
        g = hg[idx] if idx < len(hg) else None
        m = hm[idx] if idx < len(hm) else None
        evals += 1
        hist_uses += sum(1 for o in ops if o[0] == "U")
        hist_chdirs += sum(1 for o in ops if o[0] == "C")
        if g != m and len(corr_diffs) < 50:
            corr_diffs.append({"stage": "history", "params": (cwd, keys), "input": ops, "impl": g, "model": m})
        if g is None:
            continue
        why = oracle_history(cwd, keys, ops, g.split(";") if g else [])
        if why:
            oracle_viol.append({"stage": "history", "params": (cwd, keys), "input": ops, "impl": g, "why": why})
        elif any(o[0] == "C" for o in ops) and "NONE" != g:
            nontrivial.add(("history", idx))
    cov["histories"] = {"count": len(hists), "uses": hist_uses, "chdirs": hist_chdirs}

    # two-path operations whose two arguments differ: recording filesystems (all pairs) and real trees
    two_stats = {"pairs": 0, "served": 0, "refused_other_mount": 0, "refused_no_mount": 0, "tree_ops": 0, "tree_moved": 0,
                 "tree_refused": 0}
    for cwd, keys, an, pairs, g, m, tops, tg in two_jobs:
        go_l = open(g).read().splitlines()
        mo_l = open(m).read().splitlines()
        if len(go_l) != len(pairs) or len(mo_l) != len(pairs):
            corr_diffs.append({"stage": "two", "params": (cwd, keys), "why": "answered %d (impl) / %d (model) of %d pairs"
                               % (len(go_l), len(mo_l), len(pairs))})
            continue
        cache = {}
        for (p1, p2), gl, ml in zip(pairs, go_l, mo_l):
            evals += 1
            gv, mv = gl.partition("\t")[2], ml.partition("\t")[2]
            if gv != mv and len(corr_diffs) < 50:
                corr_diffs.append({"stage": "two", "params": (cwd, keys), "input": [p1, p2], "impl": gv, "model": mv})
            why = oracle_two(cwd, keys, p1, p2, gv, cache)
            two_stats["pairs"] += 1
            l1, l2 = cache[p1], cache[p2]
            if l1 is not None and l2 is not None and l1[0] == l2[0]:
                two_stats["served"] += 1
                if p1 != p2:
                    nontrivial.add(("two", tuple(keys), p1, p2))
            elif l1 is not None and l2 is not None:
                two_stats["refused_other_mount"] += 1
            elif l1 is not None:
                two_stats["refused_no_mount"] += 1
            if why and len(oracle_viol) < 200:
                oracle_viol.append({"stage": "two", "params": (cwd, keys), "input": [p1, p2],
                                    "call": "VirtualOS(cwd=%r, mounts=%r).Rename / Symlink(%r, %r)" % (cwd, keys, p1, p2),
                                    "impl": gv, "why": why})
        tl = open(tg).read().splitlines()
        if len(tl) != len(tops):
            corr_diffs.append({"stage": "twotree", "params": (cwd, keys), "why": "answered %d of %d operations" % (len(tl), len(tops))})
            continue
        for (op, p1, p2, l1, l2, cat), line in zip(tops, tl):
            f = line.split("\t")
            evals += 1
            two_stats["tree_ops"] += 1
            if len(f) != 3:
                corr_diffs.append({"stage": "twotree", "params": (cwd, keys), "input": [op, p1, p2], "why": "bad line " + line[:200]})
                continue
            changes = [c for c in bytes.fromhex(f[2]).decode("utf-8", "replace").split("\n") if c]
            why = judge_tree(op, keys, l1, l2, f[1], changes)
            if changes:
                two_stats["tree_moved"] += 1
                nontrivial.add(("twotree", tuple(keys), op, p1, p2))
            else:
                two_stats["tree_refused"] += 1
            if why:
                oracle_viol.append({"stage": "twotree", "params": (cwd, keys), "input": [op, p1, p2], "ops_line": line.split("\t")[0],
                                    "names": sorted({c for k in keys for c in comps(k)} | {a for a in TWO_ALPHA[an] if a not in ("", ".", "..")}),
                                    "call": "VirtualOS(cwd=%r, mounts=%r over real trees src0..src%d).%s(%r, %r)"
                                            % (cwd, keys, len(keys) - 1, op, p1, p2),
                                    "impl": {"status": f[1], "host_changes": changes}, "why": why})
    cov["two_path"] = two_stats
    if two_jobs:
        samples.append({"stage": "two", "params": two_jobs[6][:2], "pair": two_jobs[6][3][1234],
                        "impl": open(two_jobs[6][4]).read().splitlines()[1234].partition("\t")[2]})

    lfs_viol = []
    lfs_summary = ""
    for line in open(lfs_out, "rb"):
        line = line.decode("utf-8", "replace").rstrip("\n")
        if line.startswith("VIOL"):
            lfs_viol.append(line)
        elif line.startswith("SUMMARY"):
            lfs_summary = line
    if not lfs_summary:
        res.violation({"property": PROP, "kind": "harness-run-failed", "stage": "localfs sentinel run gave no summary"},
                      nofail=True, tag="lfs")
        return
    lfs_evals = int(lfs_summary.split("evals=")[1].split("\t")[0])
    evals += lfs_evals
    for v in lfs_viol[:20]:
        f = v.split("\t")
        oracle_viol.append({"stage": "localfs", "op": f[1], "arg1_hex": f[2], "arg2_hex": f[3] if len(f) > 3 else "",
                            "why": "effect outside the base: " + (f[4] if len(f) > 4 else "")})

    # every spelling of the base roots the filesystem at the directory it names
    known = load_known()
    kf_tmp = any(k.get("id") == "localfs-mkdirtemp-empty-dir-uses-host-tempdir" for k in known)
    base_stats = {"layouts": [], "refused_by_New": [], "evaluations": 0, "jail": True, "known_finding_cases": 0}
    if not base_outs:
        res.violation({"property": PROP, "kind": "harness-run-failed", "stage": "c13obs localfs-layouts gave no layouts"},
                      nofail=True, tag="lfsbase")
        return
    for (lname, lchdir, lbase), bo in base_outs:
        summ = ""
        for line in open(bo, "rb"):
            line = line.decode("utf-8", "replace").rstrip("\n")
            f = line.split("\t")
            if f[0] == "NOJAIL":
                base_stats["jail"] = False
            elif f[0] == "REFUSED":
                base_stats["refused_by_New"].append(lbase)
            elif f[0] == "SUMMARY":
                summ = line
            elif f[0] == "VIOL":
                a1 = bytes.fromhex(f[2]).decode("utf-8", "replace") if len(f) > 2 else ""
                a2 = bytes.fromhex(f[3]).decode("utf-8", "replace") if len(f) > 3 and f[1] != "ReadFile-leak" else ""
                eff = f[4] if len(f) > 4 else ""
                # known finding (decided on the observation): MkdirTemp with the EMPTY directory argument is handed to
                # os.MkdirTemp("", pattern) unresolved and lands in the host's temporary directory
                if (kf_tmp and f[1] == "MkdirTemp" and a1 == "" and eff
                        and all(c.startswith("created /tmp/t") and c.count("/") == 2 for c in eff.split(";"))):
                    base_stats["known_finding_cases"] += 1
                    continue
                oracle_viol.append({"stage": "localfs-base", "layout": lname, "working_directory": "<jail>" + lchdir,
                                    "base_text": lbase, "base_directory": "<jail>/base", "op": f[1], "arg1": a1, "arg2": a2,
                                    "arg1_hex": f[2] if len(f) > 2 else "", "layout_index": [x[0][0] for x in base_outs].index(lname),
                                    "call": "chdir(%r); localfs.New(WithBase(%r)).%s(%s)" % (
                                        lchdir, lbase, f[1], ", ".join(repr(x) for x in ([a1, a2] if f[1] in ("Rename", "Symlink") else [a1]))),
                                    "why": "the filesystem is rooted at <jail>/base (base text %r from the working directory %r) but the "
                                           "operation had an effect outside it: %s" % (lbase, lchdir, eff)})
        if base_stats["jail"] and not summ:
            res.violation({"property": PROP, "kind": "harness-run-failed", "stage": "localfs-base %s gave no summary" % lname},
                          nofail=True, tag="lfsbase")
            return
        if summ:
            n = int(summ.split("evals=")[1].split("\t")[0])
            evals += n
            base_stats["evaluations"] += n
            if n:
                base_stats["layouts"].append({"name": lname, "chdir": lchdir, "base": lbase})
                nontrivial.add(("localfs-base", lname))
    if base_stats["known_finding_cases"]:
        res.known_finding("localfs.MkdirTemp(\"\", pattern) on a rooted filesystem creates the directory in the host's "
                          "temporary directory, outside the base (%d cases over %d base spellings)"
                          % (base_stats["known_finding_cases"], len(base_stats["layouts"])))
    cov["localfs_base_spellings"] = base_stats
    if not base_stats["jail"]:
        res.assumptions.append("the base-spelling stage of localfs was NOT run: chroot is not permitted for this user")

    # script-level builtins under a VirtualOS: the host outside the mounts is neither written nor read
    so_stats = {"layouts": so_layouts, "evaluations": 0, "calls_with_effect_inside_the_mounts": 0, "builtins_with_effect": [], "jail": True}
    for lay, so in so_outs:
        summ = ""
        for line in open(so, "rb"):
            f = line.decode("utf-8", "replace").rstrip("\n").split("\t")
            if f[0] == "NOJAIL":
                so_stats["jail"] = False
            elif f[0] == "SUMMARY":
                summ = "\t".join(f)
            elif f[0] == "VIOL" and len(f) >= 7:
                un = lambda x: bytes.fromhex(x).decode("utf-8", "replace")
                src = un(f[3])
                v = {"stage": "scriptops", "layout": lay, "script": src, "builtin": src.split("(")[0],
                     "setting": "VirtualOS over rooted filesystems on real trees (mounts as in c13obs scriptops layout %r); the host outside "
                                "the mount sources has directories h, f.txt, m and files x, d at / and in the process's working "
                                "directory in world A, none of them in world B" % lay}
                if f[1] == "host-written":
                    v["world"] = f[4]
                    v["host_changes"] = un(f[5]).split(";")
                    v["impl"] = un(f[6]).split("\n")
                    v["why"] = "risor.Eval(%r) under the VirtualOS changed host entries OUTSIDE every mount source: %s" % (src, v["host_changes"][:4])
                else:
                    v["world_A"] = un(f[5]).split("\n")
                    v["world_B"] = un(f[6]).split("\n")
                    v["why"] = ("risor.Eval(%r) under the VirtualOS depends on the host OUTSIDE the mount sources: with host entries of "
                                "the same names present (world A) the result and the changes inside the mounts are %r, without them "
                                "(world B) %r - the mounts and the script are identical, so a host path outside every mount was read"
                                % (src, v["world_A"], v["world_B"]))
                oracle_viol.append(v)
        if not so_stats["jail"]:
            continue
        if not summ:
            res.violation({"property": PROP, "kind": "harness-run-failed", "stage": "scriptops %s gave no summary" % lay},
                          nofail=True, tag="scriptops")
            return
        n = int(summ.split("evals=")[1].split("\t")[0])
        evals += n
        so_stats["evaluations"] += n
        so_stats["calls_with_effect_inside_the_mounts"] += int(summ.split("effects=")[1].split("\t")[0])
        so_stats["builtins_with_effect"] = sorted(set(so_stats["builtins_with_effect"]) | set(summ.split("builtins_with_effect=")[1].split(",")))
        for b in summ.split("builtins_with_effect=")[1].split(","):
            nontrivial.add(("scriptops", lay, b))
    cov["script_builtins_under_virtual_os"] = so_stats
    if not so_stats["jail"]:
        res.assumptions.append("the script-builtin stage under a VirtualOS was NOT run: chroot is not permitted for this user")

    cov["evaluations"] = evals
    cov["distinct_nontrivial"] = len(nontrivial)
    cov["rule"] = ("exhaustive enumeration of the property's path alphabet {'', '.', '..', 'a', 'b', '..a', 'a..'} with <= %d "
                   "segments (absolute/relative, with/without trailing separator: %d distinct strings) through os.ResolvePath "
                   "for %d bases and, with <= %d segments (%d strings), through every single- and two-path method of VirtualOS "
                   "over %d mount layouts with recording filesystems; %d seeded random Unicode/byte paths through both; "
                   "%d operation histories on one VirtualOS (Chdir between mounts, the same relative strings reused); "
                   "TWO-path operations (Rename, Symlink) with two DIFFERENT arguments: %d pairs over %d layouts (the property's "
                   "alphabet and one with sibling names that extend a mount point's name - tmp / tmpfoo, data / datab -, mounts "
                   "nested in the first path's mount, relative paths from inside a nested mount; every pair of strings with <= 2 "
                   "segments plus random longer ones) on recording filesystems: each argument must be resolved on its own by the "
                   "longest component-wise mount prefix and the pair handed to ONE mount or refused (model: mount_two); and %d such "
                   "operations on a VirtualOS whose mounts are rooted filesystems over REAL directory trees (a skeleton of "
                   "directories in every source so that a wrongly resolved path lands): every host entry created / removed must be "
                   "the one the property allows; "
                   "every localfs method over a temp tree with sentinels outside the base (<= %d segments); %d histories of localfs "
                   "operations on a real tree (every two-link chain over a small alphabet, random histories of Mkdir / Symlink / "
                   "Rename / reads / writes / removes with paths that walk through links made earlier): after every operation every "
                   "symbolic link inside the base is resolved physically (as the kernel does) and must lead into the base, nothing "
                   "outside may change, no read may reveal outside content, and the stored link text must be the model's "
                   "resolve_path of the first argument; the same sentinel run of every localfs method for %d SPELLINGS of the "
                   "base (relative, '.', './', 'a/..', doubled / trailing separators, a symbolic link as working directory; each in "
                   "a chroot jail): the filesystem is rooted at the directory the text names; every builtin of the os module and "
                   "its top-level aliases (cp, rename, symlink, write_file, ...) evaluated by risor with one and two path arguments "
                   "under a VirtualOS over real trees (%d evaluations, %d layouts), in two worlds that differ only OUTSIDE the mount "
                   "sources: nothing outside changes and result + mount contents are identical in both worlds; each output compared "
                   "with the extracted Gallina model and judged by an independent Python oracle. Non-trivial = distinct inputs "
                   "containing '..' that resolve, or that are served by some mount." % (
                       maxseg, npaths, len(BASES), mount_seg, npaths_m, len(LAYOUTS), len(rnd), len(hists),
                       two_stats["pairs"], len(TWO_LAYOUTS), two_stats["tree_ops"], lfs_seg, len(lfs_h),
                       len(base_stats["layouts"]), so_stats["evaluations"], len(so_layouts)))
    cov["exhaustive"] = True
    cov["samples"] = samples
    cov["correspondence"] = {"cases": evals - lfs_evals, "differences": len(corr_diffs),
                             "resolve_rejected": rejected, "localfs": lfs_summary}
    cov["input_distribution"] = {"alphabet_paths": npaths, "mount_paths": npaths_m, "random_paths": len(rnd),
                                 "bases": BASES, "layouts": LAYOUTS}
    res.assumptions += [
        "Go's path/filepath.Clean/Join/IsAbs and strings.HasPrefix/TrimPrefix are modelled (Unix semantics), validated by the exhaustive comparison",
        "mount table keys equal Mount.Target and are clean absolute paths (hypothesis key_ok of the mount theorems)",
        "symbolic links: only links made THROUGH the rooted filesystem are judged (histories on a real tree); links planted in "
        "the base by the host are outside the property",
        "kernel path resolution is modelled by the harness's component-by-component resolver (physical) and by PhysLinks.v",
    ]

    # 6. decide (the reported sample takes failing inputs of every stage in turn)
    seen_per_stage = {}
    order = []
    for idx, v in enumerate(oracle_viol):
        k = seen_per_stage.get(v.get("stage"), 0)
        seen_per_stage[v.get("stage")] = k + 1
        order.append((k, idx))
    oracle_viol = [oracle_viol[i] for _, i in sorted(order)]
    if oracle_viol:
        cov["oracle_violations_by_stage"] = seen_per_stage
    for v in oracle_viol[:10]:
        v.update({"property": PROP, "kind": "oracle-violation",
                  "replay_cmd": "build/bin/c13obs (see stage/params/input)"})
        res.violation(v)
    if oracle_viol:
        return
    if not proved:
        res.violation({"property": PROP, "kind": "proof-obligation-broken", "theorem_file": "coq/props/C13.v",
                       "broken": res.broken, "search": "exhaustive alphabet + %d random paths: no failing input" % len(rnd)},
                      nofail=True, tag="proof")
        return
    if corr_diffs:
        res.violation({"property": PROP, "kind": "correspondence-broken", "stage": corr_diffs[0].get("stage"),
                       "first_difference": corr_diffs[0], "differences": corr_diffs[:20],
                       "search": "oracle evaluated on all %d implementation outputs: no failing input" % evals},
                      nofail=True, tag="corr")


def replay(data):
    import json
    print(json.dumps(data, indent=1))
    obs, err = C.go_build("c13obs")
    if not obs:
        print(err)
        return 2
    st = data.get("stage")
    if st in ("resolve", "resolve-hex"):
        inp = data["input"] if st == "resolve-hex" else data["input"].encode("utf-8", "surrogateescape").hex()
        rc, o, e = C.run([obs, "stdin-resolve", data["params"]], input=(inp + "\n").encode())
        print(o)
    elif st == "lfshist":
        rc, o, e = C.run([obs, "lfshist"], input=(";".join(data["ops"]) + "\n").encode())
        print(o, e)
    elif st == "two":
        a, b = data["input"]
        rc, o, e = C.run([obs, "two", data["params"][0], ",".join(data["params"][1])],
                         input=("%s %s\n" % (a.encode().hex(), b.encode().hex())).encode())
        print(o, e)
    elif st == "twotree":
        rc, o, e = C.run([obs, "twotree", data["params"][0], ",".join(data["params"][1]), ",".join(data["names"])],
                         input=(data["ops_line"] + "\n").encode())
        for line in o.splitlines():
            f = line.split("\t")
            print(f[:2], bytes.fromhex(f[2]).decode("utf-8", "replace").split("\n") if len(f) > 2 else "")
        print(e)
    elif st == "scriptops":
        rc, o, e = C.run([obs, "scriptops", data["layout"], data["builtin"]])
        for line in o.splitlines():
            f = line.split("\t")
            if f[0] == "VIOL" and bytes.fromhex(f[3]).decode("utf-8", "replace") == data["script"]:
                print(f[1], f[2], data["script"], f[4], [bytes.fromhex(x).decode("utf-8", "replace") for x in f[5:]])
        print(e)
    elif st == "localfs-base":
        rc, o, e = C.run([obs, "localfs-base", "1", str(data["layout_index"])])
        for line in o.splitlines():
            f = line.split("\t")
            if f[0] == "VIOL":
                print(f[1], [bytes.fromhex(x).decode("utf-8", "replace") for x in f[2:4]], f[4:])
            else:
                print(line)
    elif st in ("mounts", "mounts-hex"):
        inp = data["input"] if st == "mounts-hex" else data["input"].encode("utf-8", "surrogateescape").hex()
        rc, o, e = C.run([obs, "stdin-mounts", data["params"][0], ",".join(data["params"][1])], input=(inp + "\n").encode())
        print(o)
    return 0
