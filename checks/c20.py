"""C20 - layout and comments never change meaning; diagnostics point into the source."""
import os
import shutil
import subprocess
import tempfile

from lib import common as C, core, gen

PROP = "C20"
LEVEL = "proof"

BINOPS = {"+", "-", "*", "/", "%", "&&", "||", "==", "!=", "<", "<=", ">", ">=", "&", "**", "<<", ">>"}
FILLS = [" ", "  ", "\t", " \t ", " /* c */ ", " /* a */ /* b */ ", " /**/ ", "\t/* x\ty */\t", " /* // */ ", " /* * / */ "]


def parse_tokens(line):
    """lexobs token line -> list of (type, start_char, end_char) ; None if the lexer reported an error"""
    toks = []
    for part in line.split(" "):
        if not part:
            continue
        if part.startswith("ERR:"):
            return None
        f = part.rsplit(":", 3)
        if len(f) != 4:
            return None
        ty, lit, sp, ep = f
        sc = int(sp.split(",")[0])
        ec = int(ep.split(",")[0])
        toks.append((ty, sc, ec, bytes.fromhex(lit).decode("utf-8", "replace")))
    return toks


def variant(rng, src, toks, mode):
    """re-lay-out [src] (a list of code points) at its token gaps; only insertions, nothing is removed"""
    out = []
    pos = 0
    stack = []       # bracket kinds: line breaks after ',' are permitted inside list / argument / map literals
    for i, (ty, sc, ec, lit) in enumerate(toks):
        if ty == "EOF":
            break
        gap = src[pos:sc]
        out.append(gap)
        if i > 0:
            prev = toks[i - 1][0]
            if mode == "fill" and rng.chance(1, 2):
                out.append(rng.choice(FILLS))
            elif mode == "linecomment" and ty == "EOL":
                out.append(" // trailing" if rng.chance(1, 2) else "  # note")
            elif mode == "blank" and prev == "EOL" and ty != "EOL":
                out.append("\n" * (1 + rng.below(2)) + rng.choice(["", "// own line\n", "/* block */\n"]))
            elif mode == "break":
                if prev in BINOPS and i >= 2 and toks[i - 2][0] not in ("(", "[", ",", "=", ":=", "EOL", "{", ";", "RETURN", ":", "?") \
                        and prev not in ("-",) and rng.chance(2, 3):
                    out.append("\n  ")
                elif prev == "," and stack and stack[-1] in ("list", "args", "map") and rng.chance(2, 3):
                    out.append("\n    ")
                elif prev == "|" and rng.chance(2, 3):
                    out.append("\n  ")
        before = toks[i - 1][0] if i > 0 else ""
        before2 = toks[i - 2][0] if i > 1 else ""
        if ty == "(":
            if before == "FUNC" or (before == "IDENT" and before2 == "FUNC"):
                stack.append("params")
            elif before in ("IDENT", ")", "]", "}"):
                stack.append("args")
            else:
                stack.append("group")
        elif ty == "[":
            stack.append("index" if before in ("IDENT", ")", "]", "STRING") else "list")
        elif ty == "{":
            stack.append("map" if before in (":=", "=", "(", ",", "[", "RETURN", ":", "") else "block")
        elif ty in (")", "]", "}"):
            if stack:
                stack.pop()
        out.append(src[sc:ec + 1])
        pos = ec + 1
    out.append(src[pos:])
    s = "".join(out)
    if mode == "crlf":
        s = s.replace("\n", "\r\n")
    return s


def mutate(rng, src, toks):
    """single-token deletion, insertion or substitution of a valid program"""
    real = [t for t in toks if t[0] not in ("EOF",)]
    if not real:
        return src
    k = rng.below(5)
    t = rng.choice(real)
    if k == 4:
        # a keyword (or prefix operator) cut off by a line break, in place of / in front of a token: `f(1, if\n))`
        kw = rng.choice(["if", "switch", "func", "for", "go", "defer", "return", "import", "from", "const", "var", "!", "-",
                         "if x", "switch x {", "func(", "x.", "x[", "x ?", "case", "not", "in", "range"])
        brk = rng.choice(["\n", "\n\n", " \n ", "\r\n"])
        if rng.chance(1, 2):
            return src[:t[1]] + kw + brk + src[t[2] + 1:]
        return src[:t[1]] + kw + brk + src[t[1]:]
    if k == 3:
        # a line break / separator / comment right after an opener, operator or separator
        cand = [x for x in real if src[x[1]:x[2] + 1] in ("[", "(", "{", ",", ":", ":=", "=", "+", "-", "*", "==", "&&", "||", "?", "!", "in",
                                                          "return", "case", ".", "<-", "|")]
        if cand:
            t = rng.choice(cand)
            return src[:t[2] + 1] + rng.choice(["\n", "\n\n", "\r\n", ";", " \n ", "\n#c\n", "/*c*/\n"]) + src[t[2] + 1:]
        k = 1
    junk = rng.choice(["(", ")", "{", "}", "[", "]", ",", ":=", "=", "+", "if", "for", "func", "return", "1", "x", "\"s\"", "`a\nb`",
                       "switch", "case", "?", ":", ";", "\n", "in", "..", "@", "0x", "'{'", "break", "else", "=>", "/*"])
    if k == 0:
        return src[:t[1]] + src[t[2] + 1:]
    if k == 1:
        return src[:t[1]] + junk + " " + src[t[1]:]
    return src[:t[1]] + junk + src[t[2] + 1:]


def line_text(src, n):
    lines = src.split("\n")
    if 1 <= n <= len(lines):
        return lines[n - 1]
    return None


def run(res):
    tier = res.tier
    nprog = 700 if tier == "quick" else 12000
    nvar = 6 if tier == "quick" else 12
    nmut = 5000 if tier == "quick" else 150000
    cov = res.coverage

    ok, log = C.translate("precedence", "GenPrecedence.v")
    if not ok:
        res.violation({"property": PROP, "kind": "translator-failed", "stage": "GenPrecedence.v", "log": log[-2000:]}, nofail=True, tag="translate")
        return
    tools = core.build(res, PROP)
    if tools is None:
        return
    c20obs, err = C.go_build("c20obs")
    if not c20obs:
        res.violation({"property": PROP, "kind": "harness-build-failed", "stage": "go build c20obs", "log": err[-3000:]}, nofail=True, tag="build")
        return
    proved = C.prove(res, PROP)

    rng = C.Rng(res.seed)
    progs = []
    for i in range(nprog):
        g = gen.Gen(rng, features=["template"] if i % 4 == 0 else [], budget=35)
        progs.append(g.program())
    cdir = os.path.join(C.VERIF, "corpus", "C20")
    wit = [open(os.path.join(cdir, f)).read() for f in sorted(os.listdir(cdir))] if os.path.isdir(cdir) else []
    # constructs the statement generator does not produce: pipe chains (a line break is permitted after EVERY pipe), sends and
    # receives, method chains, multi-line calls
    def pipe_prog():
        stages = [rng.choice(["f", "g", "sorted", "len", "string", "h(1)", "func(v) { return v }"]) for _ in range(2 + rng.below(4))]
        head = rng.choice(["x", "[3, 1, 2]", "\"abc\"", "f(2)"])
        return "f := func(v) { return v }\ng := f\nh := func(a) { return func(v) { return v } }\nx := [1]\ny := %s | %s\ny" % (head, " | ".join(stages))
    progs += [pipe_prog() for _ in range(max(40, nprog // 10))]
    base = wit + progs

    work = tempfile.mkdtemp(prefix="c20-", dir=C.WORK)
    try:
        st0 = core.stages(base, tools, os.path.join(work, "base"), want=("tok", "past", "code"))
        modes = ["fill", "linecomment", "blank", "break", "crlf", "fill"]
        variants, origin = [], []
        for i, src in enumerate(base):
            toks = parse_tokens(st0["tok_go"][i])
            if toks is None or not st0["past_go"][i].startswith("(prog"):
                continue
            for k in range(nvar):
                m = modes[k % len(modes)]
                v = variant(rng, src, toks, m)
                if v != src:
                    variants.append(v)
                    origin.append((i, m))
        stv = core.stages(variants, tools, os.path.join(work, "var"), want=("tok", "past", "code"))
        muts, mut_origin = [], []
        j = 0
        while len(muts) < nmut:
            i = j % len(base)
            j += 1
            toks = parse_tokens(st0["tok_go"][i])
            if toks is None:
                continue
            muts.append(mutate(rng, base[i], toks))
            mut_origin.append(i)
        hexin = "\n".join(m.encode("utf-8", "surrogateescape").hex() for m in muts) + "\n"
        nsh = C.NCPU
        chunks = [muts[k::nsh] for k in range(nsh)]
        from concurrent.futures import ThreadPoolExecutor

        def diag(k):
            inp = "\n".join(m.encode("utf-8", "surrogateescape").hex() for m in chunks[k]) + "\n"
            return subprocess.run([c20obs, "diag"], input=inp.encode(), stdout=subprocess.PIPE).stdout.decode().splitlines()
        with ThreadPoolExecutor(max_workers=nsh) as ex:
            parts = list(ex.map(diag, range(nsh)))
        diags = [None] * len(muts)
        for k in range(nsh):
            for jj, l in enumerate(parts[k]):
                diags[k + jj * nsh] = l
        stm = core.stages(muts, tools, os.path.join(work, "mut"), want=("tok", "past"))
    finally:
        shutil.rmtree(work, ignore_errors=True)

    oracle, corr = [], []
    # model correspondence on base, variants and mutants (tokens with positions, ASTs / error class + position)
    for name, st, srcs in (("base", st0, base), ("variant", stv, variants), ("mutant", stm, muts)):
        for stage, a, b in (("tok", "tok_go", "tok_mo"), ("past", "past_go", "past_mo"), ("code", "code_go", "code_mo")):
            if a not in st or b not in st:
                continue
            for i in range(len(srcs)):
                x, y = st[a][i], st[b][i]
                if core.skipped(x) or core.skipped(y):
                    continue
                if x != y:
                    corr.append({"stage": stage + " (" + name + ")", "source": srcs[i], "impl": x[:400], "model": y[:400]})
    # layout oracle
    layout_ok = 0
    mode_hist = {}
    for v, (i, m), past, code in zip(variants, origin, stv["past_go"], stv["code_go"]):
        mode_hist[m] = mode_hist.get(m, 0) + 1
        if past == st0["past_go"][i] and code == st0["code_go"][i]:
            layout_ok += 1
            continue
        oracle.append({"kind": "oracle-violation", "stage": "layout variant (" + m + ")", "source": v, "original": base[i],
                       "ast_original": st0["past_go"][i][:400], "ast_variant": past[:400],
                       "why": "inserting only blanks / comments / permitted line breaks changed the syntax tree or the bytecode"})
    # diagnostics oracle
    kinds = {}
    diag_checked = 0
    for src, d in zip(muts, diags):
        if d is None:
            corr.append({"stage": "diag tool output", "source": src})
            continue
        f = d.split(" ")
        kinds[f[0]] = kinds.get(f[0], 0) + 1
        if f[0] == "GOPANIC":
            oracle.append({"kind": "oracle-violation", "stage": "diagnostics", "source": src, "impl": d,
                           "why": "parsing / compiling / rendering the error panicked"})
            continue
        if f[0] != "PERR":
            continue
        diag_checked += 1
        sl, scol, el, ecol = (int(x) for x in f[1:5])
        quoted = bytes.fromhex(f[5][1:]).decode("utf-8", "replace")
        friendly = f[6]
        text = src.encode("utf-8", "surrogateescape").decode("utf-8", "replace")
        lines = text.split("\n")
        why = None
        lt = line_text(text, sl)
        if friendly != "ok":
            why = "rendering the error message failed: " + friendly
        elif lt is None:
            why = "reported line %d does not exist (source has %d lines)" % (sl, len(lines))
        elif scol < 1 or scol > len(lt) + 1:
            why = "reported column %d does not exist in line %d (%d characters)" % (scol, sl, len(lt))
        elif quoted != lt:
            # deliberate: an error at the end of the input quotes the last line that has text
            at_eof = (sl == len(lines) and lt == "")
            prev_lines = [x for x in lines[:sl - 1]]
            if not (at_eof and prev_lines and quoted == prev_lines[-1]):
                why = "quoted source line %r is not line %d of the source (%r)" % (quoted, sl, lt)
        if why:
            oracle.append({"kind": "oracle-violation", "stage": "diagnostics", "source": src, "impl": d, "why": why})

    cov["evaluations"] = len(base) + len(variants) + len(muts)
    cov["distinct_nontrivial"] = len(set(variants)) + len(set(muts))
    cov["rule"] = ("generated programs re-laid-out at every token gap with the permitted insertions (blanks, tabs, block comments incl. "
                   "adjacent ones, line comments at line ends, blank/comment lines between statements, line breaks after ',' in "
                   "brackets, after a binary operator, after '|', CRLF): AST dump and bytecode must equal the original's; single-token "
                   "deletions/insertions/substitutions: the reported line and column must exist in the source, the quoted line must be "
                   "that line verbatim, rendering must not fail. All inputs also go through the lexer and parser models "
                   "(tokens with all position fields, AST or error class with line/column). Non-trivial = distinct variants + mutants.")
    cov["samples"] = [{"variant_mode": origin[0][1], "variant": variants[0]}, {"mutant": muts[0], "diagnostic": diags[0]}]
    cov["layout"] = {"variants": len(variants), "equal": layout_ok, "by_mode": mode_hist}
    cov["diagnostics"] = {"mutants": len(muts), "by_outcome": kinds, "parser_errors_checked": diag_checked}
    cov["model_correspondence_differences"] = len(corr)
    res.assumptions += [
        "an inserted block comment is delimited by blanks; `a //* c */ b` is a line comment as in every C-like lexer",
        "an error positioned at the very end of the input (after a trailing newline) quotes the last line that has text: deliberate",
        "C20 theorems are about the lexer model (coq/model/Lexer.v), tied by token-level correspondence incl. all position fields",
    ]
    for v in oracle[:10]:
        v["property"] = PROP
        res.violation(v)
    if oracle:
        return
    if not proved:
        res.violation({"property": PROP, "kind": "proof-obligation-broken", "theorem_file": "coq/props/C20.v", "broken": res.broken,
                       "search": "layout and diagnostics oracles found no failing input"}, nofail=True, tag="proof")
        return
    if corr:
        res.violation({"property": PROP, "kind": "correspondence-broken", "first_difference": corr[0], "count": len(corr),
                       "search": "layout and diagnostics oracles found no failing input"}, nofail=True, tag="corr")


def replay(data):
    import json
    print(json.dumps(data, indent=1)[:4000])
    return 0
