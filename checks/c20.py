"""C20 - layout and comments never change meaning; diagnostics point into the source."""
import os
import shutil
import subprocess
import tempfile

from lib import common as C, core, gen

PROP = "C20"
LEVEL = "proof"

BINOPS = {"+", "-", "*", "/", "%", "&&", "||", "==", "!=", "<", "<=", ">", ">=", "&", "**", "<<", ">>"}
FILLS = [" ", "  ", "\t", " \t ", " /* c */ ", " /* a */ /* b */ ", " /**/ ", "\t/* x\ty */\t", " /* // */ ", " /* * / */ "]
# what may stand wherever ONE line break may stand: the break itself, blank lines, lines that hold only a comment (several in a row),
# with LF or CRLF endings - each a composition of the insertions the property permits (break a line, add a line comment at a line
# end, add blanks / block comments between tokens)
BREAKS = ["\n", "\n\n", "\n\n\n", "\n// own line\n", "\n  # note\n", "\n// a\n// b\n", "\n\n  // c\n\n", "\n/* block */\n", "\n \t \n",
          "\r\n\r\n", "\r\n// c\r\n", " // at the end\n\n", "\n\t// c\n\t/* d */ // e\n", "\n#\n//\n", "\n\n\n\n\n"]
MULTI_BREAKS = BREAKS[1:]


def brk(rng, indent):
    """the text of a permitted line break: one break, or blank / comment-only lines"""
    return (rng.choice(BREAKS) if rng.chance(2, 3) else "\n") + indent


def parse_tokens(line):
    """lexobs token line -> list of (type, start_char, end_char) ; None if the lexer reported an error"""
    toks = []
    for part in line.split(" "):
        if not part:
            continue
        if part.startswith("ERR:"):
            return None
        f = part.rsplit(":", 3)
        if len(f) != 4:
            return None
        ty, lit, sp, ep = f
        sc = int(sp.split(",")[0])
        ec = int(ep.split(",")[0])
        toks.append((ty, sc, ec, bytes.fromhex(lit).decode("utf-8", "replace")))
    return toks


def variant(rng, src, toks, mode):
    """re-lay-out [src] (a list of code points) at its token gaps; only insertions, nothing is removed"""
    out = []
    pos = 0
    stack = []       # bracket kinds: line breaks after ',' are permitted inside list / argument / map literals
    for i, (ty, sc, ec, lit) in enumerate(toks):
        if ty == "EOF":
            break
        gap = src[pos:sc]
        out.append(gap)
        if i > 0:
            prev = toks[i - 1][0]
            if mode == "fill" and rng.chance(1, 2):
                out.append(rng.choice(FILLS))
            elif mode == "linecomment" and ty == "EOL":
                out.append(" // trailing" if rng.chance(1, 2) else "  # note")
            elif mode == "blank" and prev == "EOL" and ty != "EOL":
                out.append("\n" * (1 + rng.below(3)) + rng.choice(["", "// own line\n", "/* block */\n", "# a\n\n// b\n", "  // c\n\t\n"]))
            elif mode == "break":
                if prev in BINOPS and i >= 2 and toks[i - 2][0] not in ("(", "[", ",", "=", ":=", "EOL", "{", ";", "RETURN", ":", "?") \
                        and prev not in ("-",) and rng.chance(2, 3):
                    out.append(brk(rng, "  "))
                elif prev == "," and stack and stack[-1] in ("list", "args", "map") and rng.chance(2, 3):
                    out.append(brk(rng, "    "))
                elif prev == "|" and rng.chance(2, 3):
                    out.append(brk(rng, "  "))
        before = toks[i - 1][0] if i > 0 else ""
        before2 = toks[i - 2][0] if i > 1 else ""
        if ty == "(":
            if before == "FUNC" or (before == "IDENT" and before2 == "FUNC"):
                stack.append("params")
            elif before in ("IDENT", ")", "]", "}"):
                stack.append("args")
            else:
                stack.append("group")
        elif ty == "[":
            stack.append("index" if before in ("IDENT", ")", "]", "STRING") else "list")
        elif ty == "{":
            stack.append("map" if before in (":=", "=", "(", ",", "[", "RETURN", ":", "") else "block")
        elif ty in (")", "]", "}"):
            if stack:
                stack.pop()
        out.append(src[sc:ec + 1])
        pos = ec + 1
    out.append(src[pos:])
    s = "".join(out)
    if mode == "crlf":
        s = s.replace("\n", "\r\n")
    return s


def go_past(astobs, sources):
    """parser-mode AST dumps of the implementation only (no models), sharded"""
    from concurrent.futures import ThreadPoolExecutor
    nsh = max(1, min(C.NCPU, len(sources) // 500))
    chunks = [sources[k::nsh] for k in range(nsh)]

    def one(k):
        inp = "".join(m.encode("utf-8", "surrogateescape").hex() + "\n" for m in chunks[k])
        return subprocess.run([astobs, "lines", "past"], input=inp.encode(), stdout=subprocess.PIPE).stdout.decode("utf-8", "replace").splitlines()
    with ThreadPoolExecutor(max_workers=nsh) as ex:
        parts = list(ex.map(one, range(nsh)))
    out = [None] * len(sources)
    for k in range(nsh):
        for jj, l in enumerate(parts[k][:len(chunks[k])]):
            out[k + jj * nsh] = l
    return out


def mutate(rng, src, toks):
    """single-token deletion, insertion or substitution of a valid program"""
    real = [t for t in toks if t[0] not in ("EOF",)]
    if not real:
        return src
    k = rng.below(5)
    t = rng.choice(real)
    if k == 4:
        # a keyword (or prefix operator) cut off by a line break, in place of / in front of a token: `f(1, if\n))`
        kw = rng.choice(["if", "switch", "func", "for", "go", "defer", "return", "import", "from", "const", "var", "!", "-",
                         "if x", "switch x {", "func(", "x.", "x[", "x ?", "case", "not", "in", "range"])
        brk = rng.choice(["\n", "\n\n", " \n ", "\r\n"])
        if rng.chance(1, 2):
            return src[:t[1]] + kw + brk + src[t[2] + 1:]
        return src[:t[1]] + kw + brk + src[t[1]:]
    if k == 3:
        # a line break / separator / comment right after an opener, operator or separator
        cand = [x for x in real if src[x[1]:x[2] + 1] in ("[", "(", "{", ",", ":", ":=", "=", "+", "-", "*", "==", "&&", "||", "?", "!", "in",
                                                          "return", "case", ".", "<-", "|")]
        if cand:
            t = rng.choice(cand)
            return src[:t[2] + 1] + rng.choice(["\n", "\n\n", "\r\n", ";", " \n ", "\n#c\n", "/*c*/\n"]) + src[t[2] + 1:]
        k = 1
    junk = rng.choice(["(", ")", "{", "}", "[", "]", ",", ":=", "=", "+", "if", "for", "func", "return", "1", "x", "\"s\"", "`a\nb`",
                       "switch", "case", "?", ":", ";", "\n", "in", "..", "@", "0x", "'{'", "break", "else", "=>", "/*"])
    if k == 0:
        return src[:t[1]] + src[t[2] + 1:]
    if k == 1:
        return src[:t[1]] + junk + " " + src[t[1]:]
    return src[:t[1]] + junk + src[t[2] + 1:]


BROKEN_EXPRS = ["x + ", "a a", "(", "1 +* 2", "f(,)", "[1, ", "if", "x :=", "x.", "x[", ")", "1 2", "\"s", "x ? 1", "func(", "{", "x +\n", "@", "0x",
                "..", "a b c", "x == ", "!", "x | ", "x ? : 2", "[1 2]", "f(1 2)", "x.(", "1 +", "* 2", "x y", "return", "=", "x = = 1"]
VALID_EXPRS = ["x + 1", "f(1, 2)", "[1, 2][0]", "x ? 1 : 2", "len(xs)", "a.b(c)", "x * (y - 2)", "{\"k\": 1}[\"k\"]", "xs[1:2]", "!x && y", "x | f"]


def broken_fragment(rng):
    """the text of an interpolation that (most of the time) does not parse"""
    if rng.chance(1, 2):
        return rng.choice(BROKEN_EXPRS)
    e = rng.choice(VALID_EXPRS)
    pos = rng.below(len(e) + 1)
    k = rng.below(3)
    if k == 0 and e:
        pos = min(pos, len(e) - 1)
        return e[:pos] + e[pos + 1:]
    if k == 1:
        return e[:pos] + rng.choice(list("()[],+*:=?.|x1 ") + [" x", "if", ":="]) + e[pos:]
    return e[:pos] + e[max(0, pos - 2):]


def mutate_template(rng, src, toks):
    """a syntax error INSIDE the braces of a template string: in a template of the program, or in a new statement put at a line
    end anywhere in the program - after comments, after a multi-line raw string, inside nested blocks, behind multi-byte text"""
    real = [t for t in toks if t[0] not in ("EOF",)]
    tmpl = [t for t in real if src[t[1]:t[1] + 1] == "'" and "{" in src[t[1]:t[2] + 1]]
    if tmpl and rng.chance(1, 2):
        t = rng.choice(tmpl)
        text = src[t[1]:t[2] + 1]
        opens = [i for i, ch in enumerate(text) if ch == "{"]
        o = rng.choice(opens)
        c = text.find("}", o)
        if c > o:
            return src[:t[1]] + text[:o + 1] + broken_fragment(rng) + text[c:] + src[t[2] + 1:]
    pre = rng.choice(["", "total: ", "a {x} b ", "\u00e9\u4e16 ", "{1}{2}", "  ", "\\n"])
    post = rng.choice(["", " end", " {x}", "{1}", " \u00e9"])
    template = "'%s{%s}%s'" % (pre, broken_fragment(rng).replace("'", ""), post)
    lead = rng.choice(["", "", "// note\n", "/* block\n comment */\n", "raw_q := `line one\nline two`\n", "\n\n", "# hash\n"])
    stmt = rng.choice(["tq := %s", "print(%s)", "  tq := [1, %s]", "tq := {\"k\": %s}", "if true {\n    tq := %s\n}", "func() {\n  return %s\n}()",
                       "tq := \"\u00e9\u4e16\u754c\" + %s", "tq := `a\nb` + %s", "tq := [\n  1,\n  %s,\n]", "for i := range 2 {\n  if i > 0 {\n\tprint(%s)\n  }\n}",
                       "tq := 'ok {1}' + %s", "%s"]) % template
    eols = [t for t in real if t[0] == "EOL"]
    if eols and rng.chance(4, 5):
        t = rng.choice(eols)
        return src[:t[2] + 1] + lead + stmt + "\n" + src[t[2] + 1:]
    return lead + stmt + "\n" + src


K_LEXPOS = "lexer-error-position-lost"
K_NOFILE = "no-file-name-for-lexer-errors-in-the-first-two-tokens"


def load_known_ids():
    """open known findings of this property by id (known_findings.jsonl and the per-agent known_findings.*.jsonl)"""
    import glob, json
    ids = {}
    for fn in [os.path.join(C.VERIF, "known_findings.jsonl")] + sorted(glob.glob(os.path.join(C.VERIF, "known_findings.*.jsonl"))):
        if os.path.exists(fn):
            for line in open(fn):
                line = line.strip()
                if line and not line.startswith("#"):
                    j = json.loads(line)
                    if j.get("property") == PROP and not j.get("fixed") and j.get("id"):
                        ids.setdefault(j["id"], j)
    return ids


def line_text(src, n):
    lines = src.split("\n")
    if 1 <= n <= len(lines):
        return lines[n - 1]
    return None


def run(res):
    tier = res.tier
    nprog = 700 if tier == "quick" else 12000
    nvar = 6 if tier == "quick" else 12
    nmut = 5000 if tier == "quick" else 150000
    ngap = 60 if tier == "quick" else 100000      # token gaps probed per program
    nmulti = 9000 if tier == "quick" else 120000  # multi-line fills judged
    nper = 12 if tier == "quick" else 60          # ... at least this many per kind of gap
    cov = res.coverage

    ok, log = C.translate("precedence", "GenPrecedence.v")
    if not ok:
        res.violation({"property": PROP, "kind": "translator-failed", "stage": "GenPrecedence.v", "log": log[-2000:]}, nofail=True, tag="translate")
        return
    tools = core.build(res, PROP)
    if tools is None:
        return
    c20obs, err = C.go_build("c20obs")
    if not c20obs:
        res.violation({"property": PROP, "kind": "harness-build-failed", "stage": "go build c20obs", "log": err[-3000:]}, nofail=True, tag="build")
        return
    proved = C.prove(res, PROP)

    rng = C.Rng(res.seed)
    progs = []
    for i in range(nprog):
        g = gen.Gen(rng, features=["template"] if i % 4 == 0 else [], budget=35)
        progs.append(g.program())
    cdir = os.path.join(C.VERIF, "corpus", "C20")
    wit = [open(os.path.join(cdir, f)).read() for f in sorted(os.listdir(cdir))] if os.path.isdir(cdir) else []
    # constructs the statement generator does not produce: pipe chains (a line break is permitted after EVERY pipe), sends and
    # receives, method chains, multi-line calls
    def pipe_prog():
        stages = [rng.choice(["f", "g", "sorted", "len", "string", "h(1)", "func(v) { return v }"]) for _ in range(2 + rng.below(4))]
        head = rng.choice(["x", "[3, 1, 2]", "\"abc\"", "f(2)"])
        return "f := func(v) { return v }\ng := f\nh := func(a) { return func(v) { return v } }\nx := [1]\ny := %s | %s\ny" % (head, " | ".join(stages))
    progs += [pipe_prog() for _ in range(max(40, nprog // 10))]
    base = wit + progs

    work = tempfile.mkdtemp(prefix="c20-", dir=C.WORK)
    try:
        st0 = core.stages(base, tools, os.path.join(work, "base"), want=("tok", "past", "code"))
        modes = ["fill", "linecomment", "blank", "break", "crlf", "fill"]
        variants, origin = [], []
        for i, src in enumerate(base):
            toks = parse_tokens(st0["tok_go"][i])
            if toks is None or not st0["past_go"][i].startswith("(prog"):
                continue
            for k in range(nvar):
                m = modes[k % len(modes)]
                v = variant(rng, src, toks, m)
                if v != src:
                    variants.append(v)
                    origin.append((i, m))
        stv = core.stages(variants, tools, os.path.join(work, "var"), want=("tok", "past", "code"))
        # where ONE line break is accepted (the implementation parses the program with a break put into that token gap to the tree
        # of the original), blank lines and comment-only lines, LF or CRLF, must be accepted too: every gap of every program is
        # probed with a single break, a sample of the accepting gaps gets each a multi-line fill
        probes, porigin = [], []
        for i, src in enumerate(base):
            toks = parse_tokens(st0["tok_go"][i])
            if toks is None or not st0["past_go"][i].startswith("(prog"):
                continue
            gaps = list(range(1, len(toks)))
            if len(gaps) > ngap:
                gaps = sorted(rng.choice(gaps) for _ in range(ngap))
            for g in gaps:
                sc = toks[g][1] if toks[g][0] != "EOF" else len(src)
                probes.append(src[:sc] + "\n" + src[sc:])
                porigin.append((i, sc, toks[g - 1][0], toks[g][0]))
        single = go_past(tools["astobs"], probes)
        accepting = [k for k in range(len(probes)) if single[k] is not None and single[k] == st0["past_go"][porigin[k][0]]]
        # every kind of gap (token before / token after) is represented before volume is added
        by_kind = {}
        for k in accepting:
            by_kind.setdefault(porigin[k][2:], []).append(k)
        chosen = []
        for kind in sorted(by_kind):
            ks = by_kind[kind]
            chosen += [ks[rng.below(len(ks))] for _ in range(min(len(ks), nper))]
        while len(chosen) < min(nmulti, len(accepting)):
            chosen.append(accepting[rng.below(len(accepting))])
        multis, morigin = [], []
        for k in chosen:
            i, sc, before, after = porigin[k]
            fill = rng.choice(MULTI_BREAKS)
            multis.append(base[i][:sc] + fill + base[i][sc:])
            morigin.append((i, before, after, fill))
        stb = core.stages(multis, tools, os.path.join(work, "brk"), want=("tok", "past", "code"))
        muts, mut_origin = [], []
        j = 0
        # mutants of the programs and of their re-laid-out variants (errors after comments, blank lines, CRLF, line breaks)
        vpool = []
        for vi in range(0, len(variants), 3):
            vt = parse_tokens(stv["tok_go"][vi])
            if vt is not None and stv["past_go"][vi].startswith("(prog"):
                vpool.append((variants[vi], vt))
        while len(muts) < nmut:
            i = j % len(base)
            j += 1
            src, toks = base[i], parse_tokens(st0["tok_go"][i])
            if j % 3 == 2 and vpool:
                src, toks = vpool[(j // 3) % len(vpool)]
            if toks is None:
                continue
            if j % 4 == 1:
                muts.append(mutate_template(rng, src, toks))
            else:
                muts.append(mutate(rng, src, toks))
            mut_origin.append(i)
        hexin = "\n".join(m.encode("utf-8", "surrogateescape").hex() for m in muts) + "\n"
        nsh = C.NCPU
        chunks = [muts[k::nsh] for k in range(nsh)]
        from concurrent.futures import ThreadPoolExecutor

        def diag(k):
            inp = "\n".join(m.encode("utf-8", "surrogateescape").hex() for m in chunks[k]) + "\n"
            return subprocess.run([c20obs, "diag"], input=inp.encode(), stdout=subprocess.PIPE).stdout.decode().splitlines()
        with ThreadPoolExecutor(max_workers=nsh) as ex:
            parts = list(ex.map(diag, range(nsh)))
        diags = [None] * len(muts)
        for k in range(nsh):
            for jj, l in enumerate(parts[k]):
                diags[k + jj * nsh] = l
        stm = core.stages(muts, tools, os.path.join(work, "mut"), want=("tok", "past"))
    finally:
        shutil.rmtree(work, ignore_errors=True)

    oracle, corr = [], []
    # model correspondence on base, variants and mutants (tokens with positions, ASTs / error class + position)
    for name, st, srcs in (("base", st0, base), ("variant", stv, variants), ("line-break fill", stb, multis), ("mutant", stm, muts)):
        for stage, a, b in (("tok", "tok_go", "tok_mo"), ("past", "past_go", "past_mo"), ("code", "code_go", "code_mo")):
            if a not in st or b not in st:
                continue
            for i in range(len(srcs)):
                x, y = st[a][i], st[b][i]
                if core.skipped(x) or core.skipped(y):
                    continue
                if x != y:
                    corr.append({"stage": stage + " (" + name + ")", "source": srcs[i], "impl": x[:400], "model": y[:400]})
    brk_ok = 0
    brk_kinds = {}
    for v, (i, before, after, fill), past, code in zip(multis, morigin, stb["past_go"], stb["code_go"]):
        kind = before + " . " + after
        brk_kinds[kind] = brk_kinds.get(kind, 0) + 1
        if past == st0["past_go"][i] and code == st0["code_go"][i]:
            brk_ok += 1
            continue
        oracle.append({"kind": "oracle-violation", "stage": "blank / comment-only lines where one line break is accepted", "source": v,
                       "original": base[i], "gap": "between %s and %s" % (before, after), "fill": fill,
                       "ast_original": st0["past_go"][i][:400], "ast_variant": past[:400],
                       "why": "a single line break between %s and %s leaves the syntax tree as it is, but %r in the same place (blank lines / "
                              "comment-only lines) changed the syntax tree or the bytecode, or made the program an error" % (before, after, fill)})
    # layout oracle
    layout_ok = 0
    mode_hist = {}
    for v, (i, m), past, code in zip(variants, origin, stv["past_go"], stv["code_go"]):
        mode_hist[m] = mode_hist.get(m, 0) + 1
        if past == st0["past_go"][i] and code == st0["code_go"][i]:
            layout_ok += 1
            continue
        oracle.append({"kind": "oracle-violation", "stage": "layout variant (" + m + ")", "source": v, "original": base[i],
                       "ast_original": st0["past_go"][i][:400], "ast_variant": past[:400],
                       "why": "inserting only blanks / comments / permitted line breaks changed the syntax tree or the bytecode"})
    # diagnostics oracle
    known_ids = load_known_ids()
    known_seen = {}
    kinds = {}
    diag_checked = 0
    for src, d in zip(muts, diags):
        if d is None:
            corr.append({"stage": "diag tool output", "source": src})
            continue
        f = d.split(" ")
        kinds[f[0]] = kinds.get(f[0], 0) + 1
        if f[0] == "GOPANIC":
            oracle.append({"kind": "oracle-violation", "stage": "diagnostics", "source": src, "impl": d,
                           "why": "parsing / compiling / rendering the error panicked"})
            continue
        if f[0] != "PERR":
            continue
        diag_checked += 1
        sl, scol, el, ecol = (int(x) for x in f[1:5])
        quoted = bytes.fromhex(f[5][1:]).decode("utf-8", "replace")
        friendly = f[6]
        files = [bytes.fromhex(x[1:]).decode("utf-8", "replace") for x in f[8:10]]
        in_template = "{" in (line_text(src.encode("utf-8", "surrogateescape").decode("utf-8", "replace"), sl) or "") 
        if in_template:
            kinds["PERR on a line with a template"] = kinds.get("PERR on a line with a template", 0) + 1
        text = src.encode("utf-8", "surrogateescape").decode("utf-8", "replace")
        lines = text.split("\n")
        why = None
        lt = line_text(text, sl)
        if friendly != "ok":
            why = "rendering the error message failed: " + friendly
        elif lt is None:
            why = "reported line %d does not exist (source has %d lines)" % (sl, len(lines))
        elif scol < 1 or scol > len(lt) + 1:
            why = "reported column %d does not exist in line %d (%d characters)" % (scol, sl, len(lt))
        elif quoted != lt:
            # deliberate: an error at the end of the input quotes the last line that has text
            at_eof = (sl == len(lines) and lt == "")
            prev_lines = [x for x in lines[:sl - 1]]
            if not (at_eof and prev_lines and quoted == prev_lines[-1]):
                why = "quoted source line %r is not line %d of the source (%r)" % (quoted, sl, lt)
        # a lexer error must not be reported before the end of the last token the lexer could read (reference: lexing the
        # source on its own in c20obs)
        lx = f[10][3:] if len(f) > 10 and f[10].startswith("lx=") else "-"
        if not bytes.fromhex(f[7]).startswith(b"syntax error:"):
            lx = "-"        # the parser stopped at an error of its own before it came to the text the lexer rejects
        known = None
        if not why and lx != "-":
            ntok, ll, lc = (int(x) for x in lx.split(":"))
            if (sl, scol) < (ll, lc):
                why = ("a lexer error is reported at line %d column %d, before the end (line %d column %d) of the last token that was read "
                       "before it" % (sl, scol, ll, lc))
                if (sl, scol) == (1, 1):
                    known = K_LEXPOS
        if not why and files and files[0] != "prog.risor":
            why = "the diagnostic does not carry the file name given to the parser (error file: %r)" % files[0]
            if lx != "-" and int(lx.split(":")[0]) <= 1:
                known = K_NOFILE
        if why and known and known in known_ids:
            k = known_seen.setdefault(known, {"count": 0, "source": src, "why": why})
            k["count"] += 1
            why = None
        if why:
            oracle.append({"kind": "oracle-violation", "stage": "diagnostics", "source": src, "impl": d, "why": why})

    cov["evaluations"] = len(base) + len(variants) + len(probes) + len(multis) + len(muts)
    cov["distinct_nontrivial"] = len(set(variants)) + len(set(multis)) + len(set(muts))
    cov["rule"] = ("generated programs re-laid-out at every token gap with the permitted insertions (blanks, tabs, block comments incl. "
                   "adjacent ones, line comments at line ends, blank/comment lines between statements, line breaks after ',' in "
                   "brackets, after a binary operator, after '|' - the break being one line break or blank / comment-only lines, several in a row -, CRLF): AST dump and bytecode must equal the original's; "
                   "every token gap probed with one line break, and where the tree is unchanged by it a fill of blank lines / comment-only lines (LF, CRLF) in the same gap "
                   "must leave tree and bytecode unchanged too (all kinds of gap: inside lists, argument and parameter lists, maps, sets, after operators, pipes and dots, "
                   "between statements, inside blocks and switch cases); single-token "
                   "deletions/insertions/substitutions of the programs AND of their re-laid-out variants, and syntax errors put inside the braces of template "
                   "strings (existing templates, and new statements at any line end: after comments, after multi-line raw strings, in nested "
                   "blocks, behind multi-byte text): the reported line and column must exist in the source, the quoted line must be "
                   "that line verbatim, the error and its position carry the file name given to the parser, rendering must not fail. All inputs also go through the lexer and parser models "
                   "(tokens with all position fields, AST or error class with line/column). Non-trivial = distinct variants + mutants.")
    cov["samples"] = [{"variant_mode": origin[0][1], "variant": variants[0]}, {"mutant": muts[0], "diagnostic": diags[0]}]
    cov["layout"] = {"variants": len(variants), "equal": layout_ok, "by_mode": mode_hist}
    cov["line_breaks"] = {"gaps_probed_with_one_break": len(probes), "accepting": len(accepting), "multi_line_fills": len(multis),
                          "equal": brk_ok, "kinds_of_gap": len(brk_kinds),
                          "most_frequent_kinds": dict(sorted(brk_kinds.items(), key=lambda kv: -kv[1])[:40])}
    cov["diagnostics"] = {"mutants": len(muts), "by_outcome": kinds, "parser_errors_checked": diag_checked}
    cov["model_correspondence_differences"] = len(corr)
    res.assumptions += [
        "an inserted block comment is delimited by blanks; `a //* c */ b` is a line comment as in every C-like lexer",
        "an error positioned at the very end of the input (after a trailing newline) quotes the last line that has text: deliberate",
        "C20 theorems are about the lexer model (coq/model/Lexer.v), tied by token-level correspondence incl. all position fields",
    ]
    for kid, k in sorted(known_seen.items()):
        res.known_finding("%s: %s [%d mutants this run, e.g. %r: %s]" % (kid, known_ids[kid]["what"], k["count"], k["source"][:120], k["why"]))
    for v in oracle[:10]:
        v["property"] = PROP
        res.violation(v)
    if oracle:
        return
    if not proved:
        res.violation({"property": PROP, "kind": "proof-obligation-broken", "theorem_file": "coq/props/C20.v", "broken": res.broken,
                       "search": "layout and diagnostics oracles found no failing input"}, nofail=True, tag="proof")
        return
    if corr:
        res.violation({"property": PROP, "kind": "correspondence-broken", "first_difference": corr[0], "count": len(corr),
                       "search": "layout and diagnostics oracles found no failing input"}, nofail=True, tag="corr")


def replay(data):
    import json
    print(json.dumps(data, indent=1)[:4000])
    return 0
