"""C01 - execution of a program matches its source-level meaning."""
import json
import os
import re
import shutil
import tempfile

from lib import common as C, core, gen
from lib.sexp import parse_sexp

PROP = "C01"
LEVEL = "proof"


def has_call(n):
    if not isinstance(n, list) or not n:
        return False
    if n[0] in ("call", "ocall"):
        return True
    return any(has_call(c) for c in n[1:])


def compound_target_effects(ast_line):
    """Known-finding class #20: compound assignment to an index/attribute target whose target
    sub-expressions have effects (the implementation evaluates them twice)."""
    try:
        tree = parse_sexp(ast_line)
    except Exception:
        return False

    def walk(n):
        if not isinstance(n, list) or not n:
            return False
        if n[0] in ("assignidx", "setattr"):
            # (assignidx <l> <i> h:<op> <v>) / (setattr <o> h:<name> h:<op> <v>)
            ops = [x for x in n[1:] if isinstance(x, str) and x.startswith("h:")]
            opx = ops[-1] if ops else "h:3d"
            if opx != "h:3d":
                targets = [x for x in n[1:-1] if isinstance(x, list)]
                if any(has_call(t) for t in targets):
                    return True
        return any(walk(c) for c in n[1:])

    return walk(tree)


# ---------------------------------------------------------------- Pratt oracle on the implementation

def load_binops():
    txt = open(os.path.join(C.COQ, "gen", "GenPrecedence.v")).read()
    m = re.search(r"Definition gen_binops[^\[]*\[(.*?)\]\.", txt, re.S)
    ops = re.findall(r'\("([A-Z_]+)", "([^"]*)", (\d+)\)', m.group(1))
    lv = dict(re.findall(r'\("([A-Z]+)", (\d+)\)', re.search(r"Definition gen_levels[^\[]*\[(.*?)\]\.", txt, re.S).group(1)))
    return [(n, l, int(p)) for n, l, p in ops], int(lv["PREFIX"]), int(lv["LOWEST"])


def rand_tree(rng, ops, d):
    if d <= 0 or rng.chance(1, 4):
        return ("int", rng.below(10))
    k = rng.below(8)
    if k == 0:
        return ("pre", rng.choice(["-", "!"]), rand_tree(rng, ops, d - 1))
    o = rng.choice(ops)
    return ("inf", o, rand_tree(rng, ops, d - 1), rand_tree(rng, ops, d - 1))


def flat(t, q, PREFIX):
    """the printer of the theorem C01_front_parse_print, on source text"""
    if t[0] == "int":
        return str(t[1])
    if t[0] == "pre":
        inner = flat(t[2], PREFIX, PREFIX)
        # "--" would lex as the decrement token and "- 1" keeps literal and sign apart
        return t[1] + " " + inner
    _, (nm, lit, bp), l, r = t
    s = flat(l, bp - 1, PREFIX) + " " + lit + " " + flat(r, bp, PREFIX)
    return "(" + s + ")" if bp <= q else s


def tree_sexp(t):
    if t[0] == "int":
        return "(int i:%d)" % t[1]
    if t[0] == "pre":
        return "(prefix h:%s %s)" % (t[1].encode().hex(), tree_sexp(t[2]))
    return "(infix h:%s %s %s)" % (t[1][1].encode().hex(), tree_sexp(t[2]), tree_sexp(t[3]))


def frag_program(rng):
    """a program of the fragment for which compile-then-execute = source meaning is PROVED (props/C01.v, C01_var_programs):
    declarations (at the top level and inside blocks, where they last until the block ends), assignments, expression statements, if/else, if and (counted, hence ending) condition loops and three-clause loops with break / continue
    nested up to three deep, over scalar expressions on integers, booleans, nil and strings; here it is rendered to source text and pushed through the real pipeline like every other program"""
    nvars = [0]
    kinds = []          # 'i' / 'b' / '?' per variable (what it was last given; a guide for the generator, not a type system)

    def iexpr(d, tern_ok=True):
        k = rng.below(11 if d < 3 else 3)
        ivars = [j for j, t in enumerate(kinds) if t in ('i', 'c')]
        if k == 0 or (k < 3 and not ivars):
            return str(rng.choice([0, 1, 2, 3, 7, 10, -1, -5, 100, 9223372036854775807]))
        if k < 3:
            return "v%d" % rng.choice(ivars)
        if k == 3:
            return "(-(%s))" % iexpr(d + 1, tern_ok)
        if k < 8:
            return "(%s %s %s)" % (iexpr(d + 1, tern_ok), rng.choice(["+", "-", "*", "/", "%", "&"]), iexpr(d + 1, tern_ok))
        if k == 8 and tern_ok:
            return "(%s ? %s : %s)" % (bexpr(d + 1, False), iexpr(d + 1, False), iexpr(d + 1, False))
        if k == 9:
            return "(%s %s %s)" % (iexpr(d + 1, tern_ok), rng.choice(["&&", "||"]), iexpr(d + 1, tern_ok))
        if k == 10 and rng.chance(1, 4):
            return rng.choice(["nil", "true", "(1 + nil)", "(nil < 1)", '("a" - "b")', '(1 + "a")', '("a" < 1)', '("a" * 2)'])      # the occasional type error
        return str(rng.below(20))

    def bexpr(d, tern_ok=True):
        k = rng.below(8 if d < 3 else 2)
        bvars = [j for j, t in enumerate(kinds) if t == 'b']
        if k == 0:
            return rng.choice(["true", "false"])
        if k == 1 and bvars:
            return "v%d" % rng.choice(bvars)
        if k < 5:
            return "(%s %s %s)" % (iexpr(d + 1, tern_ok), rng.choice(["<", "<=", "==", "!=", ">", ">="]), iexpr(d + 1, tern_ok))
        if k == 5:
            return "(!(%s))" % bexpr(d + 1, tern_ok)
        if k == 6:
            return "(%s %s %s)" % (bexpr(d + 1, tern_ok), rng.choice(["&&", "||", "==", "!="]), bexpr(d + 1, tern_ok))
        return "(%s == nil)" % iexpr(d + 1, tern_ok)

    def sexpr(d):
        k = rng.below(6 if d < 3 else 2)
        svars = [j for j, t in enumerate(kinds) if t == 's']
        if k == 0 or (k == 1 and not svars):
            return rng.choice(['""', '"a"', '"ab"', '"b"', '"abc"', '"A"', '"é"', '"a b"', '"0"'])
        if k == 1:
            return "v%d" % rng.choice(svars)
        if k < 5:
            return "(%s + %s)" % (sexpr(d + 1), sexpr(d + 1))
        return "(%s ? %s : %s)" % (bexpr(d + 1, False), sexpr(d + 1), sexpr(d + 1))

    def expr(d):
        k = rng.below(8)
        if k < 5:
            return iexpr(d), 'i'
        if k < 7:
            return bexpr(d), 'b'
        return sexpr(d), 's'

    free_counters = []      # loop counters: declared first, assigned only by the loop that uses them

    def simple():
        cand = [j for j in range(nvars[0]) if kinds[j] not in ('c', 'x')]
        if cand and rng.chance(1, 2):
            j = rng.choice(cand)
            c = rng.below(6)
            if c == 0:
                return "v%d%s" % (j, rng.choice(["++", "--"]))
            if c == 1:
                return "v%d %s %s" % (j, rng.choice(["+=", "-=", "*=", "/=", "+="]), iexpr(1) if kinds[j] != 's' or rng.chance(1, 2) else sexpr(1))
            e, t = expr(1)
            kinds[j] = '?' if kinds[j] != t else t     # assigned on one path only: not relied upon afterwards
            return "v%d = %s" % (j, e)
        return expr(1)[0]

    def block(depth, in_loop=False):
        n0 = nvars[0]
        saved = list(kinds)
        text = "; ".join(x for _ in range(rng.below(4)) for x in inner(depth, in_loop))
        for j in range(n0, nvars[0]):
            kinds[j] = 'x'                      # declared in this block: gone when it ends
        for j in range(n0):
            if kinds[j] != saved[j]:
                kinds[j] = '?'                  # assigned on one path only
        return text

    def inner(depth, in_loop=False):
        """the statements a block may hold: assignments, expressions, conditionals, counted loops (nesting <= 3); inside a loop
        also break and continue (the counter is advanced first, so every loop still ends)"""
        k = rng.below(12 if in_loop else 10)
        if k >= 10:
            w = rng.choice(["break", "continue"])
            return [w] if rng.chance(1, 4) else ["if %s { %s }" % (bexpr(1), w)]
        if k >= 8 and depth < 3:
            if rng.chance(1, 3):
                # an else-if chain: the parser turns `else if c { .. }` into an else-block holding that one conditional
                return ["if %s { %s } else if %s { %s } else { %s }" % (bexpr(1), block(depth + 1, in_loop), bexpr(1), block(depth + 1, in_loop),
                                                                         block(depth + 1, in_loop))]
            return ["if %s { %s } else { %s }" % (bexpr(1), block(depth + 1, in_loop), block(depth + 1, in_loop))]
        if k == 7 and depth < 3:
            return ["if %s { %s }" % (bexpr(1), block(depth + 1, in_loop))]
        if k == 5 and depth > 0:
            e, t = expr(1)
            nvars[0] += 1
            kinds.append(t)
            return ["v%d := %s" % (nvars[0] - 1, e)]
        if k == 4 and depth < 3 and rng.chance(1, 2):
            # a three-clause loop: its own counter, visible in condition, post and body only
            j = nvars[0]
            nvars[0] += 1
            kinds.append('c')
            body = block(depth + 1, True)
            kinds[j] = 'x'
            return ["for v%d := %d; v%d %s %d; %s { %s }" % (j, rng.below(3), j, rng.choice(["<", "<=", "!="]), 3 + rng.below(2),
                                                             rng.choice(["v%d++" % j, "v%d += 1" % j, "v%d = v%d + 1" % (j, j)]), body)]
        if k == 3 and depth < 3 and free_counters and rng.chance(1, 2):
            # a plain loop: the counter is advanced and tested first, so the loop ends whatever the body does
            j = free_counters.pop()
            body = block(depth + 1, True)
            free_counters.append(j)
            return ["v%d = 0" % j,
                    "for { v%d++; if v%d > %d { break }%s }" % (j, j, rng.below(4), "; " + body if body else "")]
        if k == 6 and depth < 3 and free_counters:
            j = free_counters.pop()
            body = block(depth + 1, True)
            free_counters.append(j)
            return ["v%d = 0" % j,
                    "for v%d < %d { %s }" % (j, rng.below(4), rng.choice(["v%d = v%d + 1" % (j, j), "v%d++" % j, "v%d += 1" % j]) + ("; " + body if body else ""))]
        return [simple()]

    lines = []
    for _ in range(rng.below(3)):
        lines.append("v%d := 0" % nvars[0])
        free_counters.append(nvars[0])
        nvars[0] += 1
        kinds.append('c')
    for _ in range(2 + rng.below(7)):
        k = rng.below(9)
        cand = [j for j in range(nvars[0]) if kinds[j] not in ('c', 'x')]
        if k < 3 or not cand:
            e, t = expr(0)
            lines.append("v%d := %s" % (nvars[0], e))
            nvars[0] += 1
            kinds.append(t)
        elif k < 5:
            j = rng.choice(cand)
            e, t = expr(0)
            kinds[j] = t
            lines.append("v%d = %s" % (j, e))
        elif k == 5:
            lines.append(expr(0)[0])
        else:
            lines.extend(inner(0) if rng.chance(1, 2) else
                         ["if %s { %s } else { %s }" % (bexpr(1), block(1), block(1))])
    return "\n".join(lines)


def map_program(rng):
    """maps as objects with a history: literals, index assignment of new and of existing keys (directly and through an
    alias), and - before, between and after the writes - every way of observing a map the core grammar has (range with one
    and with two variables, len, in, index): all observers must agree with the contents at that moment, however often the
    map was observed before"""
    n = [0]
    lines = []
    contents = {}            # variable -> dict (aliases share the dict)
    keys = ["a", "b", "c", "d", "e", "k1", "k2", "zz"]

    def new():
        name = "m%d" % n[0]
        n[0] += 1
        ks = [k for k in keys if rng.chance(1, 3)]
        d = {k: rng.below(50) for k in ks}
        lines.append("%s := {%s}" % (name, ", ".join('"%s": %d' % (k, v) for k, v in d.items())))
        contents[name] = d
        return name

    def observe(m):
        c = rng.below(5)
        if c == 0:
            lines.append("for k, v := range %s { print(k, v) }" % m)
        elif c == 1:
            lines.append("for k := range %s { print(k) }" % m)
        elif c == 2:
            lines.append("print(len(%s))" % m)
        elif c == 3:
            lines.append('print("%s" in %s)' % (rng.choice(keys), m))
        elif contents[m]:
            lines.append('print(%s["%s"])' % (m, rng.choice(sorted(contents[m]))))

    new()
    for _ in range(4 + rng.below(8)):
        m = rng.choice(sorted(contents))
        c = rng.below(10)
        if c < 4:
            observe(m)
        elif c < 7:
            k = rng.choice(keys)                                  # a new key or an existing one
            v = rng.below(100)
            lines.append('%s["%s"] = %d' % (m, k, v))
            contents[m][k] = v
        elif c == 7 and len(contents) < 3:
            new()
        elif c == 8 and len(contents) < 4:
            name = "m%d" % n[0]
            n[0] += 1
            lines.append("%s := %s" % (name, m))
            contents[name] = contents[m]
        else:
            observe(m)
            k = rng.choice(keys)
            lines.append('%s["%s"] = %d' % (m, k, rng.below(100)))
            contents[m][k] = 0
            observe(m)
    for m in sorted(contents):
        lines.append("for k, v := range %s { print(k, v) }" % m)
    lines.append("[" + ", ".join("len(%s)" % m for m in sorted(contents)) + "]")
    return "\n".join(lines)


def render_program(rng):
    """a scalar rendered three ways - interpolated into a template string, converted with string(), concatenated after an empty
    string template - must give one text (floats of very small and very large magnitude, negative zero, big ints, bools, nil,
    strings): a rule of the language that needs no model.  The program returns [interpolated, converted, ...]"""
    def flt():
        return rng.choice(["0.00001", "(1.0 / 3000000.0)", "(2.0 ** 70.0)", "(2.0 ** 64.0)", "1.5", "(0.1 + 0.2)", "(-0.0)", "123456789.125",
                           "(1.0 / 8.0)", "(10.0 ** 21.0)", "(10.0 ** 20.0)", "(7.0 / 1000000.0)", "(-2.5e-7 * 1.0)" if False else "(-(1.0 / 4000000.0))",
                           "%d.%d" % (rng.below(1000), rng.below(1000)), "(%d.0 ** %d.0)" % (2 + rng.below(9), rng.below(40)),
                           "(1.0 / (%d.0 ** %d.0))" % (2 + rng.below(9), rng.below(20))])
    vals = [flt() for _ in range(1 + rng.below(3))] + [rng.choice(["9223372036854775807", "-1", "true", "nil", '"a b"', "0", "(7 / 2)", "(7.0 / 2)"])]
    lines = []
    outs = []
    for i, v in enumerate(vals):
        lines.append("x%d := %s" % (i, v))
        outs += ["'{x%d}'" % i, "string(x%d)" % i]
        if rng.chance(1, 2):
            outs += ["'{%s}'" % v.replace("'", ""), "string(%s)" % v]
    lines.append("[" + ", ".join(outs) + "]")
    return "\n".join(lines)


def list_program(rng):
    """lists as values with identity: literals, + (always a NEW list), append / index assignment (in place, seen through
    every alias), aliases, slices (copies); every variable is printed at the end, so storage shared by mistake between
    two results of + (or a result and its operand) shows as a wrong element"""
    n = [0]
    lines = []

    def new(e):
        lines.append("l%d := %s" % (n[0], e))
        n[0] += 1

    def lit():
        return "[" + ", ".join(str(rng.below(50)) for _ in range(rng.below(5))) + "]"

    new(lit())
    for _ in range(4 + rng.below(10)):
        k = rng.below(12)
        a = "l%d" % rng.below(n[0])
        b = "l%d" % rng.below(n[0])
        if k < 3:
            new("%s + %s" % (a, rng.choice([lit(), b, "[%d]" % rng.below(50), "[]"])))
        elif k < 6:
            lines.append("%s.append(%d)" % (a, 100 + rng.below(100)))
        elif k == 6:
            lines.append("if len(%s) > 0 { %s[%s] = %d }" % (a, a, rng.choice(["0", "-1", "len(%s) / 2" % a]), 200 + rng.below(100)))
        elif k == 7:
            new(a)                                   # an alias: later appends / assignments are seen through both names
        elif k == 8:
            new("%s[%s]" % (a, rng.choice(["1:", ":1", ":", "0:2", "-1:"])) if rng.chance(1, 2) else "%s + []" % a)
        elif k == 9:
            new(lit())
        elif k == 10:
            lines.append("%s = %s + %s" % (a, a, rng.choice([lit(), b])))
        else:
            lines.append("for i := range 2 { %s.append(i) }" % a)
    lines.append("[" + ", ".join("l%d" % i for i in range(n[0])) + "]")
    return "\n".join(lines)


def run(res):
    tier = res.tier
    nprog = 4000 if tier == "quick" else 100000
    npratt = 3000 if tier == "quick" else 100000
    budget = 40 if tier == "quick" else 90
    cov = res.coverage

    ok, log = C.translate("precedence", "GenPrecedence.v")
    if not ok:
        res.violation({"property": PROP, "kind": "translator-failed", "stage": "GenPrecedence.v", "log": log[-2000:]},
                      nofail=True, tag="translate")
        return
    tools = core.build(res, PROP)
    if tools is None:
        return
    proved = C.prove(res, PROP)

    rng = C.Rng(res.seed)
    srcs, stats = [], {}
    feats_all = ["compound-index"]
    for i in range(nprog):
        feats = feats_all if i % 5 == 0 else (["defer"] if i % 5 in (1, 3) else [])
        g = gen.Gen(rng, features=feats, budget=budget)
        srcs.append(g.program())
        for k, v in g.stats.items():
            stats[k] = stats.get(k, 0) + v
    # lexical scoping of closures: nestings with shadowing after capture, frames of more than 8 locals, two activations
    from lib import gen_closure as G
    for i in range(max(200, nprog // 5)):
        srcs.append(G.model_program(rng)[0])
    stats["closure programs"] = max(200, nprog // 5)
    for i in range(max(300, nprog // 4)):
        srcs.append(frag_program(rng))
    stats["programs of the proved fragment"] = max(300, nprog // 4)
    for i in range(max(200, nprog // 8)):
        srcs.append(list_program(rng))
    stats["list identity programs"] = max(200, nprog // 8)
    for i in range(max(200, nprog // 8)):
        srcs.append(map_program(rng))
    stats["map history programs"] = max(200, nprog // 8)
    renders = [render_program(rng) for i in range(max(150, nprog // 10))]
    stats["rendering programs"] = len(renders)
    corpus = []
    for f in ("harvest.hex", "semgen.hex", "edge.hex"):
        for line in open(os.path.join(C.VERIF, "corpus", "core", f)):
            if line.strip():
                corpus.append(bytes.fromhex(line.strip()).decode("utf-8", "surrogateescape"))
    cdir = os.path.join(C.VERIF, "corpus", "C01")
    wit = [open(os.path.join(cdir, f)).read() for f in sorted(os.listdir(cdir))] if os.path.isdir(cdir) else []
    allsrc = wit + corpus + srcs

    ops_now, PREFIX_now, LOWEST_now = load_binops()
    # the oracle's expectation does not come from the source under test: the reference table (corpus/core/precedence.ref.json)
    # says which tree a text has; the table regenerated from the current source is what the theorems are instantiated with
    ref = json.load(open(os.path.join(C.VERIF, "corpus", "core", "precedence.ref.json")))
    ops, PREFIX, LOWEST = [tuple(o) for o in ref["ops"]], ref["PREFIX"], ref["LOWEST"]
    stats["precedence table equals the reference"] = int([tuple(o) for o in ops_now] == ops and PREFIX_now == PREFIX and LOWEST_now == LOWEST)
    trees = [rand_tree(rng, ops, 2 + rng.below(4)) for _ in range(npratt)]
    pratt_src = [flat(t, LOWEST, PREFIX) for t in trees]

    work = tempfile.mkdtemp(prefix="c01-", dir=C.WORK)
    try:
        st = core.stages(allsrc, tools, work)
        pst = core.stages(pratt_src, tools, os.path.join(work, "pratt"), want=("past",))
    finally:
        shutil.rmtree(work, ignore_errors=True)
    if st["_problems"] or pst["_problems"]:
        res.violation({"property": PROP, "kind": "harness-run-failed", "stage": "stage tools", "problems": st["_problems"] + pst["_problems"]},
                      nofail=True, tag="run")
        return

    corr = []        # model vs implementation, per stage
    oracle = []      # Sem (the property) vs implementation
    agree = {"tok": 0, "past": 0, "code": 0, "vm": 0, "sem": 0}
    skipped = {"tok": 0, "past": 0, "code": 0, "vm": 0, "sem": 0}
    outcomes = {}
    distinct = set()
    for i, src in enumerate(allsrc):
        for stage, a, b in (("tok", "tok_go", "tok_mo"), ("past", "past_go", "past_mo"), ("code", "code_go", "code_mo"),
                            ("vm", "eval_go", "vm_mo"), ("sem", "eval_go", "sem_mo")):
            x, y = core.canon_eval(st[a][i]), core.canon_eval(st[b][i])
            if core.skipped(x) or core.skipped(y) or x in ("PARSEERR",):
                skipped[stage] += 1
                continue
            if x.startswith("ERR FUEL") and y.startswith("ERR FUEL"):
                agree[stage] += 1
                continue
            if y.startswith("ERR FUEL"):
                # the MODEL ran out of fuel: not an observation of anything (an implementation that does not end while the
                # model gives a result is still compared)
                skipped[stage] += 1
                continue
            if x == y:
                agree[stage] += 1
                continue
            if stage == "vm" and x.startswith("ERR XPanic(") and y.startswith("ERR XPanic ") and \
                    x.split(" TRACE", 1)[-1] == y.split(" TRACE", 1)[-1]:
                # a Go panic recovered by the VM (frame stack exhausted, Go-nil operand): the implementation's line carries
                # the panic text, the VM model only the class
                agree[stage] += 1
                continue
            rec = {"stage": stage, "source": src, "impl": x[:600], "model": y[:600]}
            if stage == "sem":
                if compound_target_effects(st["ast"][i]):
                    res.known_finding("compound assignment to an index or attribute target evaluates the target's "
                                      "sub-expressions twice (e.g. `l[idx()] += 10` calls idx twice)")
                    continue
                rec.update({"kind": "oracle-violation",
                            "why": "the value, error class or print trace differs from what the source-level semantics (Sem) assigns"})
                oracle.append(rec)
            else:
                corr.append(rec)
        e = st["eval_go"][i]
        key = e.split(" TRACE")[0].split(" ")
        k = " ".join(key[:2]) if key[0] in ("ERR", "SKIP") else key[0]
        outcomes[k] = outcomes.get(k, 0) + 1
        if st["code_go"][i].startswith("code "):
            distinct.add(hash(st["code_go"][i]))

    # rendering: interpolation and string() give one text (judged on the implementation's own result, pair by pair)
    render_checked = 0
    c02obs, _err = C.go_build("c02obs")          # an evaluator with the default builtins (string())
    rlines = []
    if c02obs:
        import subprocess
        pr = subprocess.run([c02obs, "eval"], input=("\n".join(r.encode().hex() for r in renders) + "\n").encode(), stdout=subprocess.PIPE)
        rlines = pr.stdout.decode("utf-8", "replace").splitlines()
    for src_r, line in zip(renders, rlines):
        if not line.startswith("OK (l "):
            continue
        items = re.findall(r"\(s ([0-9a-f]*)\)", line.split(" TRACE")[0])
        if len(items) % 2:
            continue
        render_checked += 1
        for a, b in zip(items[0::2], items[1::2]):
            if a != b:
                oracle.append({"kind": "oracle-violation", "stage": "rendering", "source": src_r, "impl": line[:400],
                               "interpolated": bytes.fromhex(a).decode("utf-8", "replace"), "converted": bytes.fromhex(b).decode("utf-8", "replace"),
                               "why": "a value interpolated into a template string is rendered differently from string() of the same value"})
                break
    cov["rendering_programs_checked"] = render_checked

    # C01_front on the implementation: parse (print e) = e
    pratt_bad = 0
    for t, s, got in zip(trees, pratt_src, pst["past_go"]):
        want = "(prog " + tree_sexp(t) + ")"
        if got != want:
            pratt_bad += 1
            oracle.append({"kind": "oracle-violation", "stage": "parse(print e) = e", "source": s, "impl": got[:400],
                           "expected_tree": want[:400],
                           "why": "the parser does not rebuild the tree the precedence table assigns to this text"})

    cov["evaluations"] = len(allsrc) + len(trees)
    cov["distinct_nontrivial"] = len(distinct)
    cov["rule"] = ("seeded grammar-directed, well-scoped programs (size budget %d) with effectful operand logging, the harvested "
                   "corpus and %d random operator trees; every program goes through the real lexer, parser, compiler and VM and "
                   "through the extracted Gallina models of each stage (tokens with positions, AST, bytecode with constants/names, "
                   "result/error class/print trace) and is judged by the independent source-level semantics Sem. "
                   "Non-trivial = distinct compiled programs." % (budget, len(trees)))
    cov["samples"] = [{"source": allsrc[len(wit) + len(corpus) + j], "impl": st["eval_go"][len(wit) + len(corpus) + j][:200]} for j in (0, 1, 2)] + \
                     [{"pratt_source": pratt_src[0], "tree": tree_sexp(trees[0])}]
    cov["stage_agreement"] = agree
    cov["stage_skipped"] = skipped
    cov["outcome_distribution"] = dict(sorted(outcomes.items(), key=lambda kv: -kv[1])[:15])
    cov["input_distribution"] = dict(sorted(stats.items(), key=lambda kv: -kv[1])[:70])
    cov["pratt_trees"] = {"checked": len(trees), "mismatches": pratt_bad}
    res.assumptions += [
        "Sem (coq/model/Sem.v) is the statement of the source-level rules: left-to-right operands, short-circuit, lexical "
        "block scoping, one binding per declaration site per activation, value-first item assignment, live iteration",
        "fragment modelled by Sem/VM: nil, bool, int64, ASCII strings, lists, string-keyed maps, closures; constructs outside it "
        "are skipped and counted (stage_skipped)",
        "C01_front_parse_print is a theorem about the reduced Pratt model instantiated with the regenerated precedence table; "
        "the full parser model is tied by the AST correspondence",
    ]
    for v in oracle[:10]:
        v["property"] = PROP
        res.violation(v)
    if oracle:
        return
    if not proved:
        res.violation({"property": PROP, "kind": "proof-obligation-broken", "theorem_file": "coq/props/C01.v",
                       "broken": res.broken, "search": "Sem oracle on %d programs, %d operator trees: no failing input" % (len(allsrc), len(trees))},
                      nofail=True, tag="proof")
        return
    if corr:
        res.violation({"property": PROP, "kind": "correspondence-broken", "stage": corr[0]["stage"],
                       "first_difference": corr[0], "count": len(corr),
                       "search": "Sem oracle agreed on every comparable program: no failing input"}, nofail=True, tag="corr")


def replay(data):
    import json
    print(json.dumps(data, indent=1)[:4000])
    src = data.get("source") or (data.get("first_difference") or {}).get("source")
    if src:
        exe, err = C.go_build("evalobs")
        rc, o, e = C.run([exe], input=(src.encode("utf-8", "surrogateescape").hex() + "\n").encode())
        print("implementation now:", o)
    return 0
