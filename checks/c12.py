"""C12 - a host-supplied OS mediates all file, environment, process and stdio access."""
import json
import os
import re
import shutil
import tempfile
from concurrent.futures import ThreadPoolExecutor

from lib import common as C
from checks import c11 as C11

PROP = "C12"
LEVEL = "proof"
XT = os.path.join(C.VERIF, "harness_xt")


# ------------------------------------------------------------------ plumbing owned by this check

def sync_xt_mod():
    """harness_xt is a separate Go module (it needs golang.org/x/tools); keep its replace line equal to the harness's."""
    repo = C11.repo_dir()
    p = os.path.join(XT, "go.mod")
    txt = open(p).read()
    new = re.sub(r"(replace\s+github.com/risor-io/risor\s*=>\s*)\S+", lambda m: m.group(1) + repo, txt)
    if new != txt:
        open(p, "w").write(new)
    return repo


def build_xt(name):
    os.makedirs(C.BIN, exist_ok=True)
    out = os.path.join(C.BIN, name)
    with C.Lock("go"):
        rc, o, e = C.run(["go", "build", "-o", out, "./cmd/" + name], cwd=XT, env=dict(C.GOENV), timeout=900)
    if rc != 0:
        return None, o + e
    return out, ""


# ------------------------------------------------------------------ the specification table (oracle side)
# name -> (setup, call, groups of operations of which at least one must be recorded by the supplied OS; [] = pure)

def table(P, D):
    N = D + "/new.txt"
    q = lambda s: json.dumps(s)
    osm = {
        "args": ("", "os.args()", [["Args"]]),
        "chdir": ("", "os.chdir(%s)" % q(D), [["Chdir"]]),
        "create": ("", "os.create(%s)" % q(N), [["Create", "OpenFile"]]),
        "current_user": ("", "os.current_user()", [["CurrentUser"]]),
        "environ": ("", "os.environ()", [["Environ"]]),
        "exit": ("", "os.exit(3)", [["Exit"]]),
        "getenv": ("", 'os.getenv("C12_SENTINEL")', [["Getenv", "LookupEnv"]]),
        "getpid": ("", "os.getpid()", [["Getpid"]]),
        "getuid": ("", "os.getuid()", [["Getuid"]]),
        "getwd": ("", "os.getwd()", [["Getwd"]]),
        "hostname": ("", "os.hostname()", [["Hostname"]]),
        "lookup_gid": ("", 'os.lookup_gid("0")', [["LookupGid"]]),
        "lookup_group": ("", 'os.lookup_group("root")', [["LookupGroup"]]),
        "lookup_uid": ("", 'os.lookup_uid("0")', [["LookupUid"]]),
        "lookup_user": ("", 'os.lookup_user("root")', [["LookupUser"]]),
        "mkdir": ("", "os.mkdir(%s)" % q(D + "/newdir"), [["Mkdir"]]),
        "mkdir_all": ("", "os.mkdir_all(%s)" % q(D + "/a/b"), [["MkdirAll"]]),
        "mkdir_temp": ("", "os.mkdir_temp(%s, \"pat\")" % q(D), [["MkdirTemp"]]),
        "open": ("", "os.open(%s)" % q(P), [["Open", "OpenFile"]]),
        "read_dir": ("", "os.read_dir(%s)" % q(D), [["ReadDir"]]),
        "read_file": ("", "string(os.read_file(%s))" % q(P), [["ReadFile", "Open", "OpenFile"]]),
        "remove": ("", "os.remove(%s)" % q(P), [["Remove"]]),
        "remove_all": ("", "os.remove_all(%s)" % q(D), [["RemoveAll"]]),
        "rename": ("", "os.rename(%s, %s)" % (q(P), q(D + "/renamed.txt")), [["Rename"]]),
        "setenv": ("", 'os.setenv("C12_NEW", "x"); os.setenv("C12_SENTINEL", "changed")', [["Setenv"]]),
        "stat": ("", "os.stat(%s)" % q(P), [["Stat"]]),
        "stdout": ("", 'os.stdout.write("to-stdout")', [["Stdout"], ["File.Write"]]),
        "stderr": ("", 'os.stderr.write("to-stderr")', [["Stderr"], ["File.Write"]]),
        "stdin": ("", "os.stdin.read()", [["Stdin"], ["File.Read"]]),
        "symlink": ("", "os.symlink(%s, %s)" % (q(P), q(D + "/link")), [["Symlink"]]),
        "temp_dir": ("", "os.temp_dir()", [["TempDir"]]),
        "unsetenv": ("", 'os.unsetenv("C12_SENTINEL")', [["Unsetenv"]]),
        "user_cache_dir": ("", "os.user_cache_dir()", [["UserCacheDir"]]),
        "user_config_dir": ("", "os.user_config_dir()", [["UserConfigDir"]]),
        "user_home_dir": ("", "os.user_home_dir()", [["UserHomeDir"]]),
        "write_file": ("", "os.write_file(%s, \"overwritten\")" % q(P), [["WriteFile", "Create", "OpenFile"]]),
    }
    for e in ("err_closed", "err_deadline_exceeded", "err_exist", "err_invalid", "err_no_deadline", "err_not_exist",
              "err_permission"):
        osm[e] = ("", "os." + e, [])
    fpm = {
        "abs": ("", 'filepath.abs("rel/path")', [["Getwd"]]),
        "base": ("", "filepath.base(%s)" % q(P), []),
        "clean": ("", "filepath.clean(%s)" % q(P + "/../x"), []),
        "dir": ("", "filepath.dir(%s)" % q(P), []),
        "ext": ("", "filepath.ext(%s)" % q(P), []),
        "is_abs": ("", "filepath.is_abs(%s)" % q(P), []),
        "join": ("", "filepath.join(%s, \"x\")" % q(D), []),
        "match": ("", 'filepath.match("*.txt", "a.txt")', []),
        "rel": ("", "filepath.rel(%s, %s)" % (q(D), q(P)), []),
        "split": ("", "filepath.split(%s)" % q(P), []),
        "split_list": ("", 'filepath.split_list("/a:/b")', []),
        "walk_dir": ("seen := []", "filepath.walk_dir(%s, func(p, d, err) { seen.append(p) }); seen" % q(D), [["WalkDir"]]),
    }
    fmtm = {
        "errorf": ("", 'fmt.errorf("e %d", 1)', []),
        "sprintf": ("", 'fmt.sprintf("s %d", 1)', []),
        "printf": ("", 'fmt.printf("p %d\\n", 1)', [["Stdout"], ["File.Write"]]),
        "println": ("", 'fmt.println("line")', [["Stdout"], ["File.Write"]]),
    }
    glob = {
        "cat": ("", "cat(%s)" % q(P), [["Open", "OpenFile", "ReadFile"]]),
        "cd": ("", "cd(%s)" % q(D), [["Chdir"]]),
        "cp": ("", "cp(%s, %s)" % (q(P), q(D + "/copy.txt")), [["Open", "OpenFile", "ReadFile"], ["Create", "OpenFile", "WriteFile"]]),
        "errorf": ("", 'errorf("e %d", 1)', []),
        "sprintf": ("", 'sprintf("s %d", 1)', []),
        "getenv": ("", 'getenv("C12_SENTINEL")', [["Getenv", "LookupEnv"]]),
        "ls": ("", "ls(%s)" % q(D), [["ReadDir"]]),
        "open": ("", "open(%s)" % q(P), [["Open", "OpenFile"]]),
        "print": ("", 'print("printed")', [["Stdout"], ["File.Write"]]),
        "printf": ("", 'printf("p %d\\n", 1)', [["Stdout"], ["File.Write"]]),
        "setenv": ("", 'setenv("C12_NEW", "x"); setenv("C12_SENTINEL", "changed")', [["Setenv"]]),
        "unsetenv": ("", 'unsetenv("C12_SENTINEL")', [["Unsetenv"]]),
    }
    filem = {
        "close": ("f := os.open(%s)" % q(P), "f.close()", [["File.Close"]]),
        "name": ("f := os.open(%s)" % q(P), "f.name()", []),
        "position": ("f := os.open(%s)" % q(P), "f.position()", [["File.Seek"]]),
        "read": ("f := os.open(%s)" % q(P), "string(f.read())", [["File.Read"]]),
        "read_lines": ("f := os.open(%s)" % q(P), "f.read_lines()", [["File.Read"]]),
        "seek": ("f := os.open(%s)" % q(P), "f.seek(0, 0)", [["File.Seek"]]),
        "stat": ("f := os.open(%s)" % q(P), "f.stat()", [["File.Stat"]]),
        "write": ("f := os.create(%s)" % q(N), 'f.write("written")', [["File.Write"]]),
    }
    return {"os": osm, "filepath": fpm, "fmt": fmtm, "globals": glob, "file": filem}


CONTEXTS = ["top", "spawn", "spawn2", "clone", "hostcall", "apicall", "withvm", "clone2", "import", "import_top", "callback", "spawn_import",
            "nest", "nest2", "nest_spawn", "nest_import", "nest_inherit"]
QUICK_CONTEXTS = ["top", "spawn", "clone", "apicall", "withvm", "import", "import_top", "callback", "nest", "nest_spawn"]
NEST_OS = 2       # the OS the host builtin places on the context of a nested evaluation


def nest_call(program, layer, withos=0):
    """script text: the host builtin c12nest evaluates `program` on the context it is called with, layered with OS `layer`"""
    return "c12nest(%s, %d, %d)" % (json.dumps(program, ensure_ascii=False), layer, withos)


def fn_body(setup, call):
    parts = call.split("; ")
    return "\n".join(([setup] if setup else []) + parts[:-1] + ["return " + parts[-1]])


def render_ctx(ctxname, setup, call):
    """-> (main, modules, host step kinds after top)"""
    body = fn_body(setup, call)
    top = (setup + "\n" if setup else "") + "\n".join(call.split("; "))
    if ctxname == "top":
        return top, {}, []
    if ctxname == "spawn":
        return "t := spawn(func() {\n%s\n})\nt.wait()" % body, {}, []
    if ctxname == "spawn2":
        return "t := spawn(func() {\nu := spawn(func() {\n%s\n})\nreturn u.wait()\n})\nt.wait()" % body, {}, []
    if ctxname == "clone":
        return "func target() {\n%s\n}" % body, {}, ["hostclone"]
    if ctxname == "clone2":
        return "func target() {\n%s\n}" % body, {}, ["hostclone", "hostclone"]
    if ctxname == "hostcall":
        return "func target() {\n%s\n}" % body, {}, ["hostcall"]
    if ctxname == "apicall":       # risor.Call(ctx, code, "target", nil, options...): the embedding API's own way to call a function
        return "func target() {\n%s\n}" % body, {}, ["apicall"]
    if ctxname == "withvm":        # risor.EvalCode(..., WithVM(vm), options...), then vm.Call
        return "func target() {\n%s\n}" % body, {}, ["withvm"]
    if ctxname == "import":
        return "import c12m\nc12m.f()", {"c12m": "func f() {\n%s\n}" % body}, []
    if ctxname == "import_top":
        lines = call.split("; ")
        src = (setup + "\n" if setup else "") + "\n".join(lines[:-1]) + ("\n" if len(lines) > 1 else "") + "result := " + lines[-1]
        return "import c12m\nc12m.result", {"c12m": src}, []
    if ctxname == "callback":
        return "[0].map(func(x) {\n%s\n})[0]" % body, {}, []
    if ctxname == "spawn_import":
        return "t := spawn(func() {\nimport c12m\nreturn c12m.f()\n})\nt.wait()", {"c12m": "func f() {\n%s\n}" % body}, []
    # nested evaluations: a host builtin, called by the (outer) script, evaluates the program under an OS of its own that it
    # places on the context it received (which already carries the outer evaluation's OS)
    if ctxname == "nest":
        return nest_call(top, NEST_OS), {}, []
    if ctxname == "nest2":          # a nested evaluation inside a nested evaluation (the middle one under OS 3)
        return nest_call(nest_call(top, NEST_OS), 3), {}, []
    if ctxname == "nest_spawn":     # the nested script starts a thread
        return nest_call("t := spawn(func() {\n%s\n})\nt.wait()" % body, NEST_OS), {}, []
    if ctxname == "nest_import":    # the nested script imports a module
        return nest_call("import c12m\nc12m.f()", NEST_OS), {"c12m": "func f() {\n%s\n}" % body}, []
    if ctxname == "nest_inherit":   # no OS of its own: the nested evaluation inherits the context's OS (a WithOS option loses)
        return nest_call(top, 0, 3), {}, []
    raise ValueError(ctxname)


def gen_builtin_cases(listing, tbl, tier, rng, tag="b", groups=("os", "filepath", "fmt", "globals", "file")):
    cases, unlisted = [], []
    ctxs = CONTEXTS if tier == "thorough" else QUICK_CONTEXTS
    k = 0
    for group in groups:
        for name in listing.get(group, []):
            spec = tbl[group].get(name)
            if spec is None:
                unlisted.append(group + "." + name)
                continue
            setup, call, expect = spec
            for ctxname in ctxs:
                if ctxname.startswith("nest"):
                    supplies = ("over-withos", "over-ctx") + (("over-default",) if ctxname != "nest_inherit" else ())
                else:
                    supplies = ("withos", "ctx", "layered") + (("both", "layered-both") if tier == "thorough" else ())
                for supply in supplies:
                    main, mods, host = render_ctx(ctxname, setup, call)
                    if supply == "withos":
                        withos, cid, want = 1, 0, 1
                    elif supply == "ctx":
                        withos, cid, want = 0, 2, 2
                    elif supply == "layered":        # a per-request OS placed over a base context that has an OS already
                        withos, cid, want = 0, 12, 2
                    elif supply == "layered-both":
                        withos, cid, want = 3, 31, 1
                    elif supply == "over-withos":    # the OUTER evaluation's OS; the nested one runs under NEST_OS
                        withos, cid, want = 1, 0, (1 if ctxname == "nest_inherit" else NEST_OS)
                    elif supply == "over-ctx":
                        withos, cid, want = 0, 1, (1 if ctxname == "nest_inherit" else NEST_OS)
                    elif supply == "over-default":   # the outer evaluation runs under the default (real) OS
                        withos, cid, want = 0, 0, NEST_OS
                    else:
                        withos, cid, want = 3, 3, 3
                    k += 1
                    cases.append({"id": "%s%d" % (tag, k), "kind": "builtin", "builtin": group + "." + name, "context": ctxname,
                                  "supply": supply, "expect": expect, "want_os": want,
                                  "spec": {"id": "%s%d" % (tag, k), "main": main, "modules": mods, "withos": withos,
                                           "steps": [{"kind": "top", "ctx": cid}] + [{"kind": h, "ctx": cid} for h in host],
                                           "fn": "target"}})
    # one VM used with two different OSes, one after the other: the main program calls target() under OS 1 (anything the
    # module objects cache is resolved then), afterwards the host calls target() again with OS 2 in the context
    for group in groups:
        for name in listing.get(group, []):
            spec = tbl[group].get(name)
            if spec is None:
                continue
            setup, call, expect = spec
            if not expect:
                continue
            main, mods, host = render_ctx("hostcall", setup, call)
            k += 1
            cases.append({"id": "%s%d" % (tag, k), "kind": "builtin", "builtin": group + "." + name, "context": "rebind",
                          "supply": "rebind", "expect": expect, "want_os": 2,
                          "spec": {"id": "%s%d" % (tag, k), "main": main + "\ntarget()", "modules": mods, "withos": 0,
                                   "steps": [{"kind": "top", "ctx": 1}, {"kind": "hostcall", "ctx": 2}], "fn": "target"}})
    return cases, unlisted


def render_script(script):
    """Script-level steps, chronological; the last one is innermost. -> (expression, imports of the unit, modules)"""
    expr, imports, modules = 'getenv("WHO")', [], {}
    for j, s in reversed(list(enumerate(script))):
        if s.startswith("N"):   # N:<layer>:<withos> - a host builtin starts a nested evaluation of everything inside
            _, layer, wo = s.split(":")
            expr = nest_call("".join("import %s\n" % m for m in imports) + expr, int(layer), int(wo))
            imports = []
        elif s == "S":
            expr = "spawn(func() { return %s }).wait()" % expr
        elif s == "B":      # a builtin spawned directly (only as the innermost step)
            expr = 'spawn(getenv, "WHO").wait()' if j % 2 else 'getenv.spawn("WHO").wait()'
        elif s == "G":      # go statement
            expr = "func() { c := chan(1); go func() { v := %s; c <- v }(); return <-c }()" % expr
        elif s == "F":
            expr = "[0].map(func(x) { return %s })[0]" % expr
        else:
            name = "c12m%d" % j
            modules[name] = "".join("import %s\n" % m for m in imports) + "func f() {\nreturn %s\n}" % expr
            expr, imports = "%s.f()" % name, [name]
    return expr, imports, modules


MODEL_TOK = {"S": "S", "B": "S", "G": "S", "F": "F", "I": "I"}


def model_tok(x):
    return "N %s %s" % tuple(x.split(":")[1:]) if x.startswith("N") else MODEL_TOK[x]


def ctx_os(c):
    """the OS a host context carries: the one placed last (decimal digits = layers, 0 = none)"""
    ds = [int(ch) for ch in str(c) if ch != "0"]
    return ds[-1] if ds else 0


def gen_derivations(rng, n):
    """Random derivations of execution contexts; the probe is getenv("WHO")."""
    cases = []
    for i in range(n):
        vm_os = rng.choice([0, 1, 1, 2])
        ctx0 = rng.choice([0, 0, 1, 2, 3, 12, 21, 31, 123])
        if i % 3 == 0:      # mostly derivations where the host does supply one OS
            o = rng.choice([1, 2])
            other = 3 - o
            vm_os, ctx0 = rng.choice([(o, 0), (0, o), (o, o), (0, other * 10 + o), (other, 30 + o)])
        host = []
        for _ in range(rng.below(4)):
            kind = rng.choice(["hostcall", "hostclone"])
            if i % 3 == 0:
                c = rng.choice([o, other * 10 + o] + ([0] if vm_os == o else []))
            else:
                c = rng.choice([0, 0, 1, 2, 3, 13, 32])
            host.append((kind, c))
        script = [rng.choice(["S", "I", "F", "G"]) for _ in range(rng.below(5))]
        # nested evaluations started by a host builtin, anywhere among the script-level steps, to any depth
        for _ in range(rng.choice([0, 0, 1, 1, 2, 3])):
            script.insert(rng.below(len(script) + 1), "N:%d:%d" % (rng.choice([0, 1, 2, 3, 3, 2]), rng.choice([0, 0, 1, 2])))
        if rng.chance(1, 5):
            script.append("B")
        expr, imports, modules = render_script(script)
        pre = "".join("import %s\n" % m for m in imports)
        if host:
            main = pre + "func target() {\nreturn %s\n}" % expr
        else:
            main = pre + expr
        toks = ["T", str(vm_os), str(ctx0)]
        for kind, c in host:
            toks += ["HC" if kind == "hostcall" else "HL", str(c)]
        toks += [model_tok(x) for x in script]
        cid = "p%d" % i
        cases.append({"id": cid, "kind": "deriv", "deriv": " ".join(toks),
                      "spec": {"id": cid, "main": main, "modules": modules, "withos": vm_os,
                               "steps": [{"kind": "top", "ctx": ctx0}] + [{"kind": k, "ctx": c} for k, c in host], "fn": "target"}})
    return cases


def host_supplies(toks):
    """The decidable hypothesis of C12_propagates, evaluated independently of the Coq model: returns o or None."""
    vm_os, c0 = int(toks[1]), ctx_os(toks[2])
    cands = []
    for o in (1, 2, 3):
        ok = (c0 == o) or (c0 == 0 and vm_os == o)
        i = 3
        while ok and i < len(toks):
            if toks[i] in ("HC", "HL"):
                c = ctx_os(toks[i + 1])
                ok = (c == o) or (c == 0 and vm_os == o)
                i += 2
            else:
                i += 1
        if ok:
            cands.append(o)
    o = cands[0] if cands else None
    # nested evaluations: the OS the host builtin placed on the context of the (innermost) nested evaluation is the one the
    # host supplied for it; a nested evaluation without one inherits whatever the context it derives from was supplied with
    i = 3
    while i < len(toks):
        if toks[i] == "N":
            if int(toks[i + 1]) != 0:
                o = int(toks[i + 1])
            i += 3
        elif toks[i] in ("HC", "HL"):
            i += 2
        else:
            i += 1
    return o


def observed_os(obs):
    r = obs.get("result", "")
    m = re.match(r'^"?(os(\d)|real)"?$', r)
    if not m:
        return None
    return 0 if m.group(1) == "real" else int(m.group(2))


SENT = "@@SENT@@"


def run_cases(exe, work, specs, nshard):
    """Every shard gets its own real sentinel tree; the placeholder in the scripts is replaced by its path."""
    shards = [specs[i::nshard] for i in range(nshard)]
    env = dict(os.environ)
    env.update({"C12_SENTINEL": "real", "WHO": "real"})
    env.pop("C12_NEW", None)

    def one(i):
        """Run a shard; if the harness process dies (e.g. the REAL os.Exit was reached), the first case without an
        observation is the culprit: record that and go on with the rest in a new process."""
        if not shards[i]:
            return {}
        sw = os.path.join(work, "shard%d" % i)
        os.makedirs(sw, exist_ok=True)
        sentdir = make_sentinels(sw, repair=True)
        todo = list(shards[i])
        out = {}
        while todo:
            inp = "\n".join(json.dumps(s).replace(SENT, sentdir) for s in todo) + "\n"
            rc, o, e = C.run([exe, "run", sentdir], input=inp.encode(), env=env, cwd=sentdir, timeout=1800)
            done = 0
            for line in o.split("\n"):
                if line.strip():
                    try:
                        j = json.loads(line)
                    except ValueError:
                        break
                    out[j["id"]] = j
                    done += 1
            if rc == 0 and done == len(todo):
                break
            if done >= len(todo):
                break
            culprit = todo[done]
            out[culprit["id"]] = {"id": culprit["id"], "result": "", "err": "", "log": [],
                                  "real": ["the harness process died during this case (exit status %s): %s" % (rc, e[-300:])]}
            todo = todo[done + 1:]
            make_sentinels(sw, repair=True)
        ok, names = sentinels_intact(sentdir)
        if not ok:
            out["@final%d" % i] = names
        return out
    with ThreadPoolExecutor(max_workers=nshard) as ex:
        outs = list(ex.map(one, range(nshard)))
    res = {}
    for o in outs:
        res.update(o)
    return res, ""


def make_sentinels(work, repair=False):
    d = os.path.join(work, "sentinel")
    if repair:
        shutil.rmtree(d, ignore_errors=True)
    os.makedirs(os.path.join(d, "sub"))
    open(os.path.join(d, "sentinel.txt"), "w").write("real-content\n")
    open(os.path.join(d, "sub", "inner.txt"), "w").write("real-inner")
    return d


def sentinels_intact(d):
    try:
        ok = open(os.path.join(d, "sentinel.txt")).read() == "real-content\n"
        ok = ok and open(os.path.join(d, "sub", "inner.txt")).read() == "real-inner"
        names = sorted(os.path.relpath(os.path.join(r, f), d) for r, ds, fs in os.walk(d) for f in fs + ds)
        return ok and names == ["sentinel.txt", "sub", "sub/inner.txt"], names
    except OSError as e:
        return False, [str(e)]


def run(res):
    tier = res.tier
    cov = res.coverage
    repo = sync_xt_mod()
    ov = C11.make_overlay()
    obs, err = C.go_build("c12obs", overlay=ov)
    gen, err2 = build_xt("c12gen")
    if not obs or not gen:
        res.violation({"property": PROP, "kind": "harness-build-failed", "stage": "go build c12obs / harness_xt c12gen",
                       "log": ((err or "") + (err2 or ""))[-3000:]}, nofail=True, tag="build")
        return
    # 2. translate: the static call graph of the current source
    env = dict(C.GOENV)
    tmpd = tempfile.mkdtemp(prefix="c12gen-", dir=C.WORK if os.path.isdir(C.WORK) else None)
    try:
        cf, jf = os.path.join(tmpd, "g.v"), os.path.join(tmpd, "g.json")
        rc, o, e = C.run([gen, "both", XT, cf, jf], env=env, timeout=600)
        coq_text = open(cf).read() if rc == 0 and os.path.exists(cf) else ""
        cg = json.load(open(jf)) if rc == 0 and os.path.exists(jf) else None
    finally:
        shutil.rmtree(tmpd, ignore_errors=True)
    if rc != 0 or "Definition calls" not in coq_text or cg is None:
        res.violation({"property": PROP, "kind": "translator-failed", "stage": "c12gen", "log": (o + e)[-2500:]},
                      nofail=True, tag="translate")
        return
    C.write_if_changed(os.path.join(C.COQ, "gen", "GenOsCallGraph.v"), coq_text)
    # 3. prove, extract
    proved = C.prove(res, PROP)
    model, err = C.build_extracted("osprop", "ExtractOsProp.v", "osprop_driver.ml")
    if not model:
        res.violation({"property": PROP, "kind": "model-build-failed", "stage": "extraction", "log": err[-3000:],
                       "broken": getattr(res, "broken", None)}, nofail=True, tag="extract")
        return
    work = tempfile.mkdtemp(prefix="c12-", dir=C.WORK if os.path.isdir(C.WORK) else None)
    try:
        _body(res, tier, repo, obs, model, cg, proved, work)
    finally:
        shutil.rmtree(work, ignore_errors=True)


def _body(res, tier, repo, obs, model, cg, proved, work):
    cov = res.coverage
    rng = C.Rng(res.seed)
    sent = SENT
    P, D = SENT + "/sentinel.txt", SENT
    rc, o, e = C.run([obs, "list", repo], timeout=120)
    if rc != 0:
        res.violation({"property": PROP, "kind": "harness-run-failed", "stage": "c12obs list", "log": e[-2000:]}, nofail=True, tag="run")
        return
    listing = json.loads(o)
    tbl = table(P, D)
    bcases, unlisted = gen_builtin_cases(listing, tbl, tier, rng)
    if tier == "thorough":
        # the same calls with RELATIVE paths: the real working directory of the harness is the real sentinel directory, the
        # virtual one is elsewhere, so a leaked call would hit the real sentinels
        rel, _ = gen_builtin_cases(listing, table("sentinel.txt", "."), tier, rng, tag="r", groups=("os", "filepath", "globals"))
        bcases += rel
    dcases = gen_derivations(rng, 300 if tier == "quick" else 6000)
    # corpus: documented fall-backs (witnesses of what the hypothesis excludes)
    corpus = [("T 1 2", "ctx-wins"), ("T 0 2 HL 0", "bare-clone-falls-back"), ("T 1 0 HL 0 S I F", "withos-everywhere"),
              ("T 0 12", "layered-context"), ("T 1 0 N:2:0", "nested-own-os"), ("T 0 0 N:2:0 S", "nested-over-default"),
              ("T 1 0 I N:2:0 N:3:1 F", "nested-twice"), ("T 1 0 N:0:2", "nested-inherits")]
    for toks, name in corpus:
        t = toks.split()
        host = []
        i = 3
        while i < len(t) and t[i] in ("HC", "HL"):
            host.append(("hostcall" if t[i] == "HC" else "hostclone", int(t[i + 1])))
            i += 2
        script = t[i:]
        toks = " ".join(t[:i] + [model_tok(x) for x in script])
        expr, imports, modules = render_script(script)
        pre = "".join("import %s\n" % m for m in imports)
        main = pre + ("func target() {\nreturn %s\n}" % expr if host else expr)
        dcases.insert(0, {"id": "corpus-" + name, "kind": "deriv", "deriv": toks,
                          "spec": {"id": "corpus-" + name, "main": main, "modules": modules, "withos": int(t[1]),
                                   "steps": [{"kind": "top", "ctx": int(t[2])}] + [{"kind": k, "ctx": c} for k, c in host],
                                   "fn": "target"}})
    # every builtin once more under risor's own VirtualOS (nothing mounted, no user configured): served from the virtual
    # configuration or refused, never from the host
    vcases = []
    for c in bcases:
        if c["context"] == "top" and c["supply"] == "withos":
            sp = dict(c["spec"], id="v" + c["id"], withos=9)
            vcases.append({"id": "v" + c["id"], "kind": "virtual", "builtin": c["builtin"], "context": "top", "supply": "virtualos",
                           "expect": [], "want_os": 9, "spec": sp})
    for i, src in enumerate(["os.current_user()", "os.current_user().username", "os.current_user().home_dir", "os.lookup_uid(\"0\")",
                             "os.lookup_user(\"root\")", "os.lookup_gid(\"0\")", "os.lookup_group(\"root\")", "os.hostname()",
                             "os.getpid()", "os.getuid()", "os.environ()", "os.getenv(\"C12_SENTINEL\")", "os.getenv(\"HOME\")",
                             "os.getwd()", "os.temp_dir()", "os.user_home_dir()", "os.user_cache_dir()", "os.user_config_dir()", "os.args()"]):
        vcases.append({"id": "vx%d" % i, "kind": "virtual", "builtin": src, "context": "top", "supply": "virtualos", "expect": [], "want_os": 9,
                       "spec": {"id": "vx%d" % i, "main": "try(func() { return " + src + " }, func(e) { return string(e) })", "modules": {},
                                "withos": 9, "steps": [{"kind": "top", "ctx": 0}], "fn": "target"}})
    import getpass
    import socket
    host_facts = {"the real host name": socket.gethostname(), "the real process id is not observable here": None,
                  "the real user name": getpass.getuser(), "the real home directory": os.path.expanduser("~"),
                  "the real sentinel directory": sent, "the real sentinel environment value": '"real"',
                  "the real HOME": os.environ.get("HOME")}
    allcases = dcases + bcases + vcases
    nshard = min(C.NCPU, 16)
    got, err = run_cases(obs, work, [c["spec"] for c in allcases], nshard)
    if got is None:
        res.violation({"property": PROP, "kind": "harness-run-failed", "stage": "c12obs run", "log": err}, nofail=True, tag="run")
        return
    rc, mo, e = C.run([model], input=("\n".join(c["id"] + " " + c["deriv"] for c in dcases) + "\n").encode(), timeout=600)
    pred = {}
    for line in mo.split("\n"):
        if "\t" in line:
            a, b = line.split("\t")
            pred[a] = int(b)

    oracle_viol, corr, harness_bad = [], [], []
    evals = 0
    nontrivial = set()
    samples = []
    ops_seen = set()
    per_ctx = {}
    for c in allcases:
        g = got.get(c["id"])
        if g is None:
            harness_bad.append({"case": c["id"], "why": "no output"})
            continue
        evals += 1
        why = []
        # ---- ORACLE 1: the real process is untouched, whatever the case
        for r in g.get("real") or []:
            why.append("REAL OS touched: " + r)
        log = g.get("log") or []
        if c["kind"] == "virtual":
            per_ctx["virtualos"] = per_ctx.get("virtualos", 0) + 1
            # (the scripts name files of the harness's own work directory; when the framework lives under the user's home
            # directory that path contains the home directory and the user name: it is the script's text, not an answer)
            txt = ((g.get("result") or "") + " " + (g.get("err") or "")).replace(work, "<WORKDIR>")
            for what, fact in host_facts.items():
                if fact and len(fact) > 2 and fact in txt and not (fact in c["spec"]["main"]):
                    why.append("under a VirtualOS the call %s answered with %s (%s): %s" % (c["builtin"], what, fact, txt[:160]))
            if "real-content" in txt or "real-inner" in txt:
                why.append("under a VirtualOS the call %s read a real file: %s" % (c["builtin"], txt[:120]))
            nontrivial.add(("virtual", c["builtin"]))
        elif c["kind"] == "builtin":
            per_ctx[c["context"]] = per_ctx.get(c["context"], 0) + 1
            if g.get("err", "").startswith(("parse:", "compile:", "get:", "no steps")):
                harness_bad.append({"case": c["id"], "builtin": c["builtin"], "context": c["context"], "why": g["err"]})
                continue
            want = c["want_os"]
            if c["supply"] == "rebind" and g.get("err", "").startswith("run:"):
                continue          # the operation ends the evaluation (exit): no second phase to observe
            ops = [e2["op"] for e2 in log if e2["os"] == want]
            foreign = [e2 for e2 in log if e2["os"] != want and not (c["supply"] == "rebind" and e2["os"] == 1)]
            if c["supply"] == "rebind":
                ops1 = [e2["op"] for e2 in log if e2["os"] == 1]
                for grp in c["expect"]:
                    if not any(op in ops1 for op in grp):
                        why.append("first use: operation %s of %s not served by OS 1 (log of OS 1: %s)" % ("/".join(grp), c["builtin"], ops1[:6]))
            # ---- ORACLE 2: the supplied OS (and only it) served the operation
            for grp in c["expect"]:
                if not any(op in ops for op in grp):
                    why.append("operation %s of %s not served by the supplied OS %d (log of that OS: %s; result %s; err %s)" % (
                        "/".join(grp), c["builtin"], want, ops[:6], g.get("result", "")[:80], g.get("err", "")[:120]))
            if foreign:
                why.append("operations served by a different OS: %s" % foreign[:3])
            if "real-content" in g.get("result", "") or "real-inner" in g.get("result", "") or g.get("result") == '"real"':
                why.append("result carries data of the real OS: " + g.get("result", "")[:80])
            if c["expect"]:
                nontrivial.add((c["builtin"], c["context"], c["supply"], c["id"][0]))
            ops_seen.update(ops)
        else:
            toks = c["deriv"].split()
            seen = observed_os(g)
            o = host_supplies(toks)
            if seen is None:
                harness_bad.append({"case": c["id"], "deriv": c["deriv"], "why": "probe gave no OS identity",
                                    "result": g.get("result"), "err": g.get("err")})
                continue
            # ---- ORACLE 3: the property on derivations in which the host supplies o
            if o is not None:
                nontrivial.add(("deriv", c["deriv"]))
                if seen != o:
                    why.append("the host supplied OS %d for the evaluation that runs the probe (every host step of [%s]; for a nested "
                               "evaluation N <layer> <withos>: the OS its host builtin placed on the context) but the probe was served by %s" % (
                        o, c["deriv"], "the REAL OS" if seen == 0 else "OS %d" % seen))
            # ---- CORRESPONDENCE: effective_os of the model
            if pred.get(c["id"]) != seen:
                corr.append({"stage": "effective_os", "deriv": c["deriv"], "impl": seen, "model": pred.get(c["id"])})
        if why:
            oracle_viol.append({"case": {k: c[k] for k in c if k != "spec"}, "spec": c["spec"], "sentinel_dir": sent, "why": why,
                                "impl": {"result": g.get("result"), "err": g.get("err"), "log": log[:12]}})
        if len(samples) < 10 and (evals % max(1, len(allcases) // 10) == 1):
            samples.append({"case": {k: c[k] for k in c if k not in ("spec",)}, "main": c["spec"]["main"][:300],
                            "result": g.get("result", "")[:80], "err": g.get("err", "")[:80], "log": log[:5]})
    for k, names in got.items():
        if k.startswith("@final"):
            oracle_viol.append({"case": {"kind": "final"}, "why": ["real sentinel tree changed after the run: %s" % names]})

    cov["evaluations"] = evals
    cov["distinct_nontrivial"] = len(nontrivial)
    cov["rule"] = ("every member of the os, filepath and fmt modules of the running packages, every OS-facing global builtin and "
                   "every file object method (%d builtins, enumerated at run time), each called from %s with a recording OS supplied "
                   "by risor.WithOS and, separately, placed in the context; plus %d random derivations of execution contexts "
                   "(host calls / clones with arbitrary contexts - also LAYERED ones, an OS placed over a context that carries "
                   "another -, spawn, import, callback, and NESTED evaluations started by a host builtin on the context it "
                   "received with an OS of its own placed on it, nested to depth 7) probed with getenv; the builtin cases "
                   "include the nested contexts (outer evaluation under WithOS / a context OS / the default OS) and the layered "
                   "supply. After every case the real sentinel file, directory, environment, working directory and standard "
                   "streams are compared. Non-trivial = distinct (OS-touching builtin, context, supply) triples and distinct "
                   "derivations in which the host supplies one OS throughout." % (
                       sum(len(v) for v in listing.values()), "/".join(sorted(per_ctx)), len(dcases)))
    cov["samples"] = samples
    cov["input_distribution"] = {"builtin_cases": len(bcases), "derivations": len(dcases), "per_context": per_ctx,
                                 "os_methods_exercised": sorted(ops_seen)}
    cov["correspondence"] = {"cases": len(dcases), "differences": len(corr)}
    cov["call_graph"] = {k: cg.get(k) for k in ("total_functions", "reached_functions", "roots_by_pkg", "mediated_sites",
                                                 "function_value_sites", "cuts", "real_reached")}
    cov["call_graph"]["edges"] = len(cg.get("edges") or [])
    cov["call_graph"]["real_functions"] = len(cg.get("real") or [])
    cov["call_graph"]["dynamic_sites_by_interface"] = cg.get("dynamic_sites_by_interface")
    res.assumptions += [
        "the call graph is static (go/ssa + callgraph/static; creation/use of function values counted as calls): calls through "
        "interfaces other than risor's os.OS/FS/File are not followed; the listed modules are reflection-free by inspection",
        "cut: " + "; ".join("%s (%s)" % kv for kv in (cg.get("cuts") or {}).items()),
        "the call-graph generator (harness_xt/cmd/c12gen) is trusted",
        "a context value takes precedence over the WithOS option, and a clone called with a bare context falls back to the real "
        "OS when the OS was supplied in the context only (documented in vm.Clone): outside the hypothesis host_supplies",
        "import statements themselves (module source loading) are outside this property (C14)",
    ]

    # 6. decide
    for v in oracle_viol[:10]:
        v.update({"property": PROP, "kind": "oracle-violation"})
        res.violation(v)
    if oracle_viol:
        return
    if cg.get("real_reached"):
        # the generator's own search found a static path to the real OS: a concrete failing call chain
        res.violation({"property": PROP, "kind": "oracle-violation", "why": ["a builtin statically reaches the real OS"],
                       "real_reached": cg["real_reached"][:20], "witness_paths": cg.get("witness_paths")})
        return
    if cg.get("virtual_os_real_reached"):
        res.violation({"property": PROP, "kind": "oracle-violation", "why": ["a method of risor's VirtualOS statically reaches the real OS"],
                       "real_reached": cg["virtual_os_real_reached"][:20], "witness_paths": cg.get("virtual_os_witness_paths")})
        return
    if not proved:
        res.violation({"property": PROP, "kind": "proof-obligation-broken", "theorem_file": "coq/props/C12.v",
                       "broken": res.broken, "search": "%d cases: no failing input" % evals}, nofail=True, tag="proof")
        return
    if corr or harness_bad or unlisted:
        res.violation({"property": PROP, "kind": "correspondence-broken",
                       "stage": "effective_os" if corr else ("spec-table" if unlisted else "harness"),
                       "first_difference": (corr or harness_bad or [{"unlisted_builtins": unlisted}])[0],
                       "differences": corr[:20], "harness": harness_bad[:20], "unlisted_builtins": unlisted,
                       "search": "oracle evaluated on all %d cases: no failing input" % evals}, nofail=True, tag="corr")
    if tier == "thorough":
        C.coqchk(res, PROP)


def replay(data):
    print(json.dumps({k: data[k] for k in data if k != "spec"}, indent=1)[:5000])
    spec = data.get("spec")
    if not spec:
        return 0
    ov = C11.make_overlay()
    obs, err = C.go_build("c12obs", overlay=ov)
    if not obs:
        print(err)
        return 2
    work = tempfile.mkdtemp(prefix="c12-replay-")
    try:
        got, err = run_cases(obs, work, [spec], 1)
        print(json.dumps(got, indent=1) if got else err)
    finally:
        shutil.rmtree(work, ignore_errors=True)
    return 0
