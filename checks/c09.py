"""C09 - evaluations on separate VMs are safe to run concurrently.

Every run:
  1. translator  harness/cmd/c09gen (go/ast over the CURRENT source of the risor main module) regenerates
     coq/gen/GenLockSites.v: every access site of the package-level mutable state (auto-discovered) and of the lazily
     filled fields of shared objects, with the locks that must be held there; plus the calls of compiler-code mutators
     from the run-time packages;
  2. proof       coq/props/C09.v: the lock discipline is sound for any number of threads and any schedule
     (C09_lockset_sound); the whole generated list obeys it (C09_sites_ok, kernel computation), hence conforming
     evaluations never race (C09_no_race); a list that does not obey it yields a checked racy program
     (C09_refuted_or_full); compiled code is read-only at run time (C09_code_readonly);
  3. tie         a -race build of harness/cmd/c09obs runs 2..16 evaluations at the same time, each on its own VM with
     its own globals, over programs that first-touch every registry (16 disjoint families of Go types, codecs, importer
     cache, shared compiled code, spawned clones); each concurrent trial has a sequential twin in a fresh process and
     the per-evaluation results must be equal; every race report is mapped back (file:line of the two racing frames)
     to a pair of generated sites, and the extracted model must agree that this pair can race (pair_ok = false);
     first-use rounds (harness/cmd/c09obs/firstuse.go): in one process, round after round, 2..16 evaluations are released
     together on Go types the process has never seen (reflect.StructOf: a record type of 8..250 fields, an inner type, a
     wrapper, slices / maps / pointers over them), each handing a value of its own to its script through one of the routes
     an embedder has (object.NewProxy, object.NewGoType, the raw pointer or the struct by value as a global, inside a
     slice / map / field, a host builtin wrapping it at run time), on a module nobody has imported yet and on a codec
     registered a moment ago; every evaluation must return what its Go value holds (read with reflect) and what the
     sequential twin returns;
  4. oracle      (independent of the model) no race report, no crash, results equal to the sequential run; on the
     site list: a Python re-implementation of "two conflicting sites of one location share no excluding lock".
"""
import json
import os
import re
import shutil
import subprocess
import tempfile
from concurrent.futures import ThreadPoolExecutor

from lib import common as C

PROP = "C09"
LEVEL = "proof"
KNOWN_LOCS = ()       # no open finding: 7737ada (GoType.GetConverter takes goTypeMutex) closed typeconv-unlocked-getconverter
KNOWN_ID = None
KNOWN_PATH = ("(*GoType).GetConverter", "object.getTypeConverter", "object.createTypeConverter", "object.newGoType")

PROXY = ["proxy_slices", "proxy_structs", "proxy_maps", "proxy_fields"]
GUARDED = ["globals", "codecs", "codecs_held", "codecs_held", "arith", "modules", "import", "shared_code", "spawn", "spawn_import", "spawn_import_many", "bad_import", "syntax"]
# programs that check themselves: every element of the result must be true, alone and under concurrency
SELF_CHECKING = {"codecs_held": [True] * 5, "spawn_import": [3, 7, 42], "spawn_import_many": [[4, 5, 6, 7, 8, 9], 13, 6]}


def load_known():
    out = []
    for name in ("known_findings.jsonl",):
        p = os.path.join(C.VERIF, name)
        if not os.path.exists(p):
            continue
        for line in open(p):
            line = line.strip()
            if not line or line.startswith("#"):
                continue
            j = json.loads(line)
            if j.get("property") == PROP and not j.get("fixed") and j.get("id") not in [x.get("id") for x in out]:
                out.append(j)
    return out


# ------------------------------------------------------------------ independent oracle on the site list

def py_excluded(a, b):
    ha = dict(x.split(":") for x in a["locks"])
    hb = dict(x.split(":") for x in b["locks"])
    for m, mode in ha.items():
        if m in hb and (mode == "W" or hb[m] == "W"):
            return True
    return False


def py_bad_pairs(sites):
    bad = []
    for i, a in enumerate(sites):
        for j, b in enumerate(sites):
            if a["loc"] != b["loc"] or not (a["write"] or b["write"]):
                continue
            if not py_excluded(a, b):
                bad.append((i, j))
    return bad


# ------------------------------------------------------------------ race reports

def parse_races(stderr, repo):
    """-> list of reports; a report = list of accesses; an access = list of (func, relpath:line) frames inside the repo"""
    reports = []
    for blk in stderr.split("=================="):
        if "WARNING: DATA RACE" not in blk:
            continue
        accesses = []
        for part in re.split(r"\n(?=(?:Read|Write|Previous read|Previous write|Atomic|Previous atomic)[^\n]* by )", blk):
            m = re.match(r"\s*(?:WARNING: DATA RACE\n)?(Read|Write|Previous read|Previous write)[^\n]* by ", part)
            if not m:
                continue
            frames = re.findall(r"^  (\S+)\(\)\n\s+(\S+):(\d+)", part, re.M)
            inrepo = []
            for fn, path, line in frames:
                if path.startswith(repo.rstrip("/") + "/"):
                    inrepo.append((fn.split("/")[-1], os.path.relpath(path, repo) + ":" + line))
            # stop at the goroutine creation stack
            accesses.append({"kind": m.group(1), "frames": inrepo[:12]})
        reports.append({"accesses": accesses[:2], "text": blk.strip()[:1500]})
    return reports


def run_trial(exe, jobs, mode, moddir, register):
    req = {"mode": mode, "jobs": jobs, "dir": moddir, "register": register}
    env = dict(os.environ, GORACE="halt_on_error=0")
    try:
        p = subprocess.run([exe], input=json.dumps(req).encode(), stdout=subprocess.PIPE, stderr=subprocess.PIPE,
                           env=env, timeout=240)
        rc, out, err = p.returncode, p.stdout.decode("utf-8", "replace"), p.stderr.decode("utf-8", "replace")
    except subprocess.TimeoutExpired:
        return 124, None, "timeout"
    try:
        res = json.loads(out)["results"]
    except (ValueError, KeyError):
        res = None
    return rc, res, err


def run_req(exe, req, key, timeout=240):
    """one request to c09obs -> (exit status, the list under `key` or None, stderr)"""
    env = dict(os.environ, GORACE="halt_on_error=0")
    try:
        p = subprocess.run([exe], input=json.dumps(req).encode(), stdout=subprocess.PIPE, stderr=subprocess.PIPE,
                           env=env, timeout=timeout)
        rc, out, err = p.returncode, p.stdout.decode("utf-8", "replace"), p.stderr.decode("utf-8", "replace")
    except subprocess.TimeoutExpired:
        return 124, None, "timeout"
    try:
        res = json.loads(out)[key]
    except (ValueError, KeyError):
        res = None
    return rc, res, err


def run_embed(exe, req, timeout=240):
    """one embedding request -> (exit status, {"embed": [...], "modified": [...]} or None, stderr)"""
    env = dict(os.environ, GORACE="halt_on_error=0")
    try:
        p = subprocess.run([exe], input=json.dumps(req).encode(), stdout=subprocess.PIPE, stderr=subprocess.PIPE, env=env, timeout=timeout)
    except subprocess.TimeoutExpired:
        return 124, None, "timeout"
    try:
        doc = json.loads(p.stdout.decode("utf-8", "replace"))
        doc["embed"], doc["modified"]
    except (ValueError, KeyError):
        doc = None
    return p.returncode, doc, p.stderr.decode("utf-8", "replace")


FU_MODULES = 128


def write_modules(moddir):
    open(os.path.join(moddir, "c09mod.risor"), "w").write("func add(a, b) { return a + b }\n")
    open(os.path.join(moddir, "c09mod2.risor"), "w").write("func twice(x) { return x * 2 }\n")
    for _k in range(3, 9):
        open(os.path.join(moddir, "c09mod%d.risor" % _k), "w").write("base := %d\nfunc plus(x) { return x + base }\n" % _k)
    # one module per first-use round: nobody has imported it when the round starts
    for _k in range(FU_MODULES):
        open(os.path.join(moddir, "fu%d.risor" % _k), "w").write("base := %d\nfunc plus(x) { return x + base }\n" % _k)


def gen_firstuse(rng, quick):
    return {"rounds": (24 if quick else 60) + rng.below(8), "workers": rng.choice([2, 4, 8, 8, 16]), "seed": 1 + rng.below(1 << 30)}


def gen_jobs(rng, guarded_only):
    n = rng.choice([2, 4, 8, 16])
    pool = GUARDED if guarded_only else (PROXY * 2 + GUARDED)
    jobs = []
    # several evaluations meet on the SAME type family, others on different ones
    base = rng.below(16)
    for i in range(n):
        prog = rng.choice(pool)
        tag = base if rng.chance(1, 2) else rng.below(16)
        jobs.append({"prog": prog, "tag": tag})
    if not guarded_only and not any(j["prog"] in PROXY for j in jobs):
        jobs[0]["prog"] = rng.choice(PROXY)
        jobs[1 % n]["prog"] = rng.choice(PROXY)
    return jobs


def run(res):
    tier = res.tier
    quick = tier == "quick"
    cov = res.coverage
    known = load_known()
    known_ok = KNOWN_ID is not None and any(k.get("id") == KNOWN_ID for k in known)

    gen, err = C.go_build("c09gen")
    if not gen:
        res.violation({"property": PROP, "kind": "harness-build-failed", "stage": "go build c09gen", "log": err[-3000:]},
                      nofail=True, tag="build")
        return
    obs, err = C.go_build("c09obs", race=True)
    if not obs:
        res.violation({"property": PROP, "kind": "harness-build-failed", "stage": "go build -race c09obs", "log": err[-3000:]},
                      nofail=True, tag="build")
        return

    # ---- 1. translate
    env = dict(os.environ, VERIF_REPO=C.REPO)
    rc, coq_text, e1 = C.run([gen, "coq"], env=env, timeout=300)
    rc2, js, e2 = C.run([gen, "json"], env=env, timeout=300)
    if rc != 0 or rc2 != 0 or "Definition gen_sites" not in coq_text:
        res.violation({"property": PROP, "kind": "proof-obligation-broken", "stage": "translator c09gen",
                       "broken": {"log_tail": (e1 + e2)[-3000:]},
                       "search": "not started: the site list could not be generated from the source"}, nofail=True, tag="translate")
        return
    C.write_if_changed(os.path.join(C.COQ, "gen", "GenLockSites.v"), coq_text)
    facts = json.loads(js)
    sites = facts["sites"]

    # ---- 2. prove
    proved = C.prove(res, PROP)
    if proved and not quick:
        if not C.coqchk(res, PROP):
            proved = False
            res.broken = {"log_tail": "coqchk rejected the .vo closure of props/C09: " + res.coverage["coqchk"]["tail"], "errors": []}
    model, err = C.build_extracted("lockset", "ExtractLockset.v", "lockset_driver.ml")
    if not model:
        res.violation({"property": PROP, "kind": "model-build-failed", "stage": "extraction", "log": err[-3000:],
                       "broken": getattr(res, "broken", None)}, nofail=True, tag="extract")
        return

    oracle_viol, corr, known_hits, samples = [], [], [], []
    nontrivial = set()
    evals = 0

    # ---- static: the oracle's own reading of the site list, and the model's
    bad = py_bad_pairs(sites)
    bad_locs = sorted({sites[i]["loc"] for i, _ in bad})
    lock_idx = {n: k for k, n in enumerate(facts["locks"])}
    loc_idx = {n: k for k, n in enumerate(facts["locations"])}
    lines = []
    for s in sites:
        lines.append("site %d %d %s" % (loc_idx[s["loc"]], 1 if s["write"] else 0,
                                        ",".join("%d:%d" % (lock_idx[x.split(":")[0]], 1 if x.endswith(":W") else 0) for x in s["locks"])))
    lines += ["allok", "badpairs"]
    rc, mout, merr = C.run([model], input=("\n".join(lines) + "\n").encode(), timeout=120)
    mlines = mout.split("\n")
    m_allok = next((l for l in mlines if l.startswith("allok=")), "")
    m_bad = next((l for l in mlines if l.startswith("badpairs=")), "badpairs=")
    model_bad = sorted(tuple(int(x) for x in p.split(",")) for p in m_bad[len("badpairs="):].split(";") if p)
    evals += len(sites) * len(sites)
    if model_bad != sorted(bad):
        corr.append({"stage": "static-pairs", "impl": "oracle bad pairs %r" % (sorted(bad)[:10],), "model": "model bad pairs %r" % (model_bad[:10],)})
    for i, j in bad:
        a, b = sites[i], sites[j]
        item = {"stage": "static-sites", "location": a["loc"],
                "why": "%s of %s at %s (%s, holding %s) can run at the same time as the %s at %s (%s, holding %s): no lock excludes them" % (
                    "write" if a["write"] else "read", a["loc"], a["pos"], a["func"], a["locks"] or "no lock",
                    "write" if b["write"] else "read", b["pos"], b["func"], b["locks"] or "no lock")}
        if a["loc"] in KNOWN_LOCS and known_ok:
            known_hits.append(item)
        else:
            oracle_viol.append(dict(item, static=True))
    for s in sites:
        if s["write"]:
            nontrivial.add(("site", s["loc"], s["pos"]))
    if facts.get("runtime_calls_of_code_mutators"):
        for c in facts["runtime_calls_of_code_mutators"]:
            oracle_viol.append({"stage": "static-code-readonly", "static": True,
                                "why": "a run-time package calls a method that mutates compiled code: " + c})

    # ---- 3/4. dynamic
    work = tempfile.mkdtemp(prefix="c09-", dir=C.WORK if os.path.isdir(C.WORK) else None)
    try:
        moddir = os.path.join(work, "mods")
        os.makedirs(moddir)
        write_modules(moddir)
        rng = C.Rng(res.seed)
        ntr_g = 20 if quick else 150
        ntr_f = 20 if quick else 150
        trials = []
        cdir = os.path.join(C.VERIF, "corpus", PROP)
        if os.path.isdir(cdir):
            for fn in sorted(os.listdir(cdir)):
                if fn.endswith(".jobs.json"):
                    cj = json.load(open(os.path.join(cdir, fn)))
                    trials.append((cj.get("kind", "full"), cj["jobs"], bool(cj.get("register"))))
        trials += [("guarded", gen_jobs(rng, True), rng.chance(1, 2)) for _ in range(ntr_g)] + \
                 [("full", gen_jobs(rng, False), rng.chance(1, 2)) for _ in range(ntr_f)]

        def one(tr):
            kind, jobs, reg = tr
            conc = run_trial(obs, jobs, "conc", moddir, reg)
            seq = run_trial(obs, jobs, "seq", moddir, False)
            return conc, seq
        fu_trials = [gen_firstuse(rng, quick) for _ in range(8 if quick else 60)]
        # evaluations with different configurations (dotted denies / overrides on the default modules): lib/c09config.py
        from lib import c09config
        cf_trials = [c09config.gen_trial(rng) for _ in range(40 if quick else 600)]

        def one_cf(jobs):
            w = c09config.wire(jobs)
            return run_trial(obs, w, "conc", moddir, False), run_trial(obs, w, "seq", moddir, False)

        def one_fu(fu):
            conc = run_req(obs, dict(fu, mode="firstuse-conc", dir=moddir), "firstuse")
            seq = run_req(obs, dict(fu, mode="firstuse-seq", dir=moddir), "firstuse")
            return conc, seq
        # embedding rounds (harness/cmd/c09obs/embed.go): the lower-level route (parser + compiler.New/Compile with ONE shared
        # names slice + vm.New + Run) behind ONE shared importer; one evaluation may be cancelled while it loads the module
        em_trials = [{"rounds": (10 if quick else 30) + rng.below(6), "workers": rng.choice([2, 3, 4, 8, 16]), "seed": 1 + rng.below(1 << 30)}
                     for _ in range(8 if quick else 80)]

        def one_em(em):
            return run_embed(obs, dict(em, mode="embed-conc", dir=moddir)), run_embed(obs, dict(em, mode="embed-seq", dir=moddir))
        with ThreadPoolExecutor(max_workers=6) as ex:
            em_outs = list(ex.map(one_em, em_trials))
            outs = list(ex.map(one, trials))
            fu_outs = list(ex.map(one_fu, fu_trials))
            cf_outs = list(ex.map(one_cf, cf_trials))
        C.log("C09: %d concurrent trials and %d first-use trials done" % (len(trials), len(fu_trials)))
        site_by_pos = {}
        for k, s in enumerate(sites):
            site_by_pos.setdefault(s["pos"], []).append(k)
        pair_queries = {}
        stats = {"trials": len(trials), "evaluations": 0, "race_reports": 0, "reports_mapped_to_site_pairs": 0,
                 "results_equal_to_sequential": 0, "clean_trials": 0}
        def judge_reports(case, kind, reports):
            for rp in reports:
                acc = rp["accesses"]
                idx = []
                for a in acc:
                    hit = None
                    for fn, pos in a["frames"]:
                        if pos in site_by_pos:
                            hit = pos
                            break
                    idx.append(hit)
                top = [a["frames"][0] if a["frames"] else ("?", "?") for a in acc]
                if len(idx) == 2 and idx[0] and idx[1]:
                    stats["reports_mapped_to_site_pairs"] += 1
                    locs = {sites[site_by_pos[idx[0]][0]]["loc"], sites[site_by_pos[idx[1]][0]]["loc"]}
                    for i in site_by_pos[idx[0]]:
                        for j in site_by_pos[idx[1]]:
                            if sites[i]["loc"] == sites[j]["loc"]:
                                pair_queries[(i, j)] = rp
                    item = dict(case, why="data race between %s and %s on %s" % (idx[0], idx[1], "/".join(sorted(locs))),
                                report=rp["text"])
                    nontrivial.add(("race", idx[0], idx[1]))
                    if locs <= set(KNOWN_LOCS) and known_ok and kind == "full":
                        known_hits.append(item)
                    else:
                        oracle_viol.append(item)
                else:
                    # an object created on the unlocked converter path and published through the unprotected registries
                    # (no happens-before edge to its readers) belongs to the same class
                    through = [fn for a in acc for fn, _ in a["frames"] if any(x in fn for x in KNOWN_PATH)]
                    item = dict(case, why="data race at a location the translator does not list: %s / %s" % (top[0], top[1] if len(top) > 1 else "?"),
                                report=rp["text"])
                    if through and known_ok and kind == "full":
                        item["why"] = "data race on a converter object published through the unlocked path (%s): %s / %s" % (
                            through[0], top[0], top[1] if len(top) > 1 else "?")
                        known_hits.append(item)
                    else:
                        oracle_viol.append(item)

        for (kind, jobs, reg), ((rc, cres, cerr), (src, sres, serr)) in zip(trials, outs):
            evals += len(jobs)
            stats["evaluations"] += len(jobs)
            case = {"stage": "dynamic-" + kind, "jobs": jobs, "register_codecs_concurrently": reg}
            if len(samples) < 4:
                samples.append(dict(case, results=(cres or [])[:3]))
            if sres is None or src not in (0,):
                corr.append(dict(case, impl="sequential twin failed (exit %s): %s" % (src, serr[-300:]), model="-"))
                continue
            reports = parse_races(cerr, C.REPO)
            stats["race_reports"] += len(reports)
            crashed = cres is None
            if crashed:
                m0 = re.search(r"^(fatal error: |panic: )", cerr, re.M)
                txt = cerr[m0.start():m0.start() + 6000] if m0 else cerr[-3000:]
                kn = known_ok and any(f in txt for f in ("createTypeConverter", "getTypeConverter", "GetConverter", "newGoType"))
                item = dict(case, why="the process running the concurrent evaluations died (exit %s): %s" % (
                    rc, (re.search(r"fatal error: [^\n]*", txt) or re.search(r"panic: [^\n]*", txt) or [txt[-200:]])[0]),
                    report=txt[-1500:])
                (known_hits if kn and kind == "full" else oracle_viol).append(item)
                continue
            # self-checking programs: an independent expectation (a defect that shows in a single evaluation too would
            # agree with the sequential twin)
            for k, j in enumerate(jobs):
                want = SELF_CHECKING.get(j["prog"])
                if want is not None:
                    for lab, rr in (("concurrently", cres), ("alone", sres)):
                        got = rr[k].get("value") if k < len(rr) and isinstance(rr[k], dict) else None
                        if got != want:
                            oracle_viol.append(dict(case, why="evaluation %d (%s, tag %s) run %s gave %r, not %r: this program checks itself (values of "
                                                              "codecs still held while other encodings run; modules first imported on a spawned thread and then used "
                                                              "by the main code and other threads)" % (
                                                                  k, j["prog"], j["tag"], lab, rr[k] if k < len(rr) else None, want)))
                            break
            # results against the sequential twin
            diff = [k for k in range(len(jobs)) if k >= len(cres) or cres[k] != sres[k]]
            if diff:
                k = diff[0]
                item = dict(case, why="evaluation %d (%s) gave %r when run concurrently and %r when run alone" % (
                    k, jobs[k]["prog"], cres[k] if k < len(cres) else None, sres[k]))
                (known_hits if known_ok and jobs[k]["prog"] in PROXY and reports else oracle_viol).append(item)
            else:
                stats["results_equal_to_sequential"] += 1
            if not reports and rc == 0:
                stats["clean_trials"] += 1
            judge_reports(case, kind, reports)
            if rc not in (0, 66) and not crashed:
                oracle_viol.append(dict(case, why="concurrent run exited with status %s" % rc, report=cerr[-800:]))
        # ---- first-use rounds: fresh Go types / modules / codecs met by several evaluations at once
        fstats = {"trials": len(fu_trials), "rounds": 0, "evaluations": 0, "as_the_go_value": 0, "equal_to_sequential": 0,
                  "routes": {}, "race_reports": 0}
        for fu, ((rc, cres, cerr), (src, sres, serr)) in zip(fu_trials, fu_outs):
            case = {"stage": "dynamic-firstuse", "firstuse": fu}
            fstats["rounds"] += fu["rounds"]
            evals += fu["rounds"] * fu["workers"]
            stats["evaluations"] += fu["rounds"] * fu["workers"]
            if sres is None or src != 0:
                corr.append(dict(case, impl="sequential twin of the first-use rounds failed (exit %s): %s" % (src, serr[-300:]), model="-"))
                continue
            # the harness's own expectation must hold when the evaluations run alone; otherwise it is the expectation that is wrong
            wrong_alone = [r for r in sres if r.get("error") or r.get("got") != r.get("want")]
            if wrong_alone:
                r = wrong_alone[0]
                corr.append(dict(case, impl="run alone, evaluation (round %d, worker %d, route %s) returned %r (error %r)" % (
                    r["round"], r["worker"], r["route"], r.get("got"), r.get("error")), model="the Go value holds %r" % (r.get("want"),),
                    script=r.get("script")))
                continue
            reports = parse_races(cerr, C.REPO)
            stats["race_reports"] += len(reports)
            fstats["race_reports"] += len(reports)
            if cres is None:
                m0 = re.search(r"^(fatal error: |panic: )", cerr, re.M)
                txt = cerr[m0.start():m0.start() + 6000] if m0 else cerr[-3000:]
                oracle_viol.append(dict(case, why="the process running the first-use rounds died (exit %s): %s" % (
                    rc, (re.search(r"fatal error: [^\n]*", txt) or re.search(r"panic: [^\n]*", txt) or [txt[-200:]])[0]),
                    report=txt[-1500:]))
                continue
            seq_by = {(r["round"], r["worker"]): r for r in sres}
            first_bad = None
            for r in cres:
                fstats["evaluations"] += 1
                fstats["routes"][r["route"]] = fstats["routes"].get(r["route"], 0) + 1
                tw = seq_by.get((r["round"], r["worker"]), {})
                ok_want = not r.get("error") and r.get("got") == r.get("want")
                ok_seq = r.get("error") == tw.get("error") and r.get("got") == tw.get("got")
                fstats["as_the_go_value"] += 1 if ok_want else 0
                fstats["equal_to_sequential"] += 1 if ok_seq else 0
                if not (ok_want and ok_seq) and first_bad is None:
                    first_bad = r
                nontrivial.add(("firstuse", r["route"], r["fields"] // 50))
            if first_bad is not None:
                r = first_bad
                mates = sorted({x["route"] for x in cres if x["round"] == r["round"]})
                oracle_viol.append(dict(case, why="first use of Go types new to the process by %d evaluations at once (round %d, routes %s): evaluation "
                                        "%d (route %s, record type of %d fields) %s; alone it returns what its Go value holds, %r" % (
                                            fu["workers"], r["round"], mates, r["worker"], r["route"], r["fields"],
                                            ("failed with %r" % r["error"]) if r.get("error") else ("returned %r" % (r.get("got"),)), r.get("want")),
                                        script=r.get("script")))
            elif not reports and rc == 0:
                stats["clean_trials"] += 1
            judge_reports(case, "firstuse", reports)
            if rc not in (0, 66):
                oracle_viol.append(dict(case, why="the first-use rounds exited with status %s" % rc, report=cerr[-800:]))
        stats["first_use"] = fstats
        # ---- embedding rounds: every evaluation whose own context was not cancelled returns what its own globals make it,
        # concurrently and in sequence; the host's shared inputs are as the host made them
        estats = {"trials": len(em_trials), "rounds": 0, "evaluations": 0, "as_its_own_globals_make_it": 0,
                  "rounds_with_an_evaluation_cancelled_during_the_shared_load": 0, "race_reports": 0}
        for em, ((rc, cdoc, cerr), (src, sdoc, serr)) in zip(em_trials, em_outs):
            case = {"stage": "dynamic-embed", "embed": em}
            estats["rounds"] += em["rounds"]
            evals += 2 * em["rounds"] * em["workers"]
            stats["evaluations"] += 2 * em["rounds"] * em["workers"]
            reports = parse_races(cerr, C.REPO)
            stats["race_reports"] += len(reports)
            estats["race_reports"] += len(reports)
            ebad = False
            for how, code, doc, err in (("one after the other", src, sdoc, serr), ("at the same time", rc, cdoc, cerr)):
                if doc is None:
                    if code == 124:
                        continue            # a wall-clock bound: not an observation
                    m0 = re.search(r"^(fatal error: |panic: )", err, re.M)
                    txt = err[m0.start():m0.start() + 6000] if m0 else err[-3000:]
                    oracle_viol.append(dict(case, why="the process running the embedding rounds (%s) died (exit %s): %s" % (
                        how, code, (re.search(r"fatal error: [^\n]*", txt) or re.search(r"panic: [^\n]*", txt) or [txt[-200:]])[0]), report=txt[-1500:]))
                    ebad = True
                    continue
                for r in doc["embed"]:
                    estats["evaluations"] += 1
                    nontrivial.add(("embed", r["route"], r["victim"], em["workers"]))
                    if r["victim"]:
                        estats["rounds_with_an_evaluation_cancelled_during_the_shared_load"] += 1
                        ok = (r.get("error") == "context canceled") or (not r.get("error") and r.get("got") == r.get("want"))
                    else:
                        ok = not r.get("error") and r.get("got") == r.get("want")
                    estats["as_its_own_globals_make_it"] += 1 if ok else 0
                    if not ok and not ebad:
                        ebad = True
                        mates = [x for x in doc["embed"] if x["round"] == r["round"]]
                        vic = [x["worker"] for x in mates if x["victim"]]
                        oracle_viol.append(dict(case, script=r["script"], why="%d evaluations on separate VMs (own globals, own contexts) sharing one global-names slice and one importer, run %s "
                                                "(round %d%s): evaluation %d (route %s, context %s) %s; its own globals make it %r" % (
                                                    em["workers"], how, r["round"],
                                                    (", evaluation %d cancelled while the importer loads the module for it" % vic[0]) if vic else "",
                                                    r["worker"], r["route"], "cancelled by the host during the load" if r["victim"] else "never cancelled",
                                                    ("failed with %r" % r["error"]) if r.get("error") else ("returned %r" % (r.get("got"),)), r.get("want"))))
                if doc["modified"] and not ebad:
                    ebad = True
                    oracle_viol.append(dict(case, why="evaluations run %s changed an input the host shares between them and never writes: %s" % (how, doc["modified"][0][:600]),
                                            script=doc["embed"][0]["script"]))
            judge_reports(case, "embed", reports)
            if rc not in (0, 66, 124) and cdoc is not None:
                oracle_viol.append(dict(case, why="the embedding rounds exited with status %s" % rc, report=cerr[-800:]))
        stats["embedding_rounds"] = estats
        if len(samples) < 6 and fu_trials:
            samples.append({"stage": "dynamic-firstuse", "firstuse": fu_trials[0], "routes": fstats["routes"]})
        # ---- evaluations with different configurations: each must see exactly its own (expectation from its own options)
        cstats = {"trials": len(cf_trials), "evaluations": 0, "sandboxed_evaluations": 0, "as_configured_concurrently": 0,
                  "as_configured_in_sequence": 0, "race_reports": 0}
        for jobs, ((rc, cres, cerr), (src, sres, serr)) in zip(cf_trials, cf_outs):
            case = {"stage": "dynamic-config", "jobs": c09config.wire(jobs),
                    "configurations": [c09config.describe(j["config"]) for j in jobs], "script": jobs[0]["src"],
                    "expected": [j["_want"] for j in jobs]}
            evals += 2 * len(jobs)
            stats["evaluations"] += 2 * len(jobs)
            cstats["evaluations"] += 2 * len(jobs)
            cstats["sandboxed_evaluations"] += sum(1 for j in jobs if j["config"])
            for j in jobs:
                for o in j["config"]:
                    nontrivial.add(("config", o["k"], o.get("name") or ",".join(o.get("names") or [])))
            reports = parse_races(cerr, C.REPO)
            stats["race_reports"] += len(reports)
            cstats["race_reports"] += len(reports)
            cbad = False
            for how, code, rr, err in (("in sequence (same process, this order)", src, sres, serr), ("concurrently", rc, cres, cerr)):
                if rr is None:
                    m0 = re.search(r"^(fatal error: |panic: )", err or "", re.M)
                    txt = err[m0.start():m0.start() + 6000] if m0 else (err or "")[-3000:]
                    oracle_viol.append(dict(case, why="the process running the differently configured evaluations %s died (exit %s): %s" % (
                        how, code, (re.search(r"fatal error: [^\n]*", txt) or re.search(r"panic: [^\n]*", txt) or [txt[-200:]])[0]),
                        report=txt[-1500:]))
                    cbad = True
                    break
                why = c09config.judge(jobs, rr, how)
                if why:
                    oracle_viol.append(dict(case, why=why))
                    cbad = True
                    break
                cstats["as_configured_in_sequence" if how.startswith("in seq") else "as_configured_concurrently"] += len(jobs)
            if not cbad and not reports and rc == 0:
                stats["clean_trials"] += 1
            judge_reports(case, "config", reports)
            if rc not in (0, 66) and cres is not None:
                oracle_viol.append(dict(case, why="the concurrent run of the differently configured evaluations exited with status %s" % rc,
                                        report=cerr[-800:]))
        stats["different_configurations"] = cstats
        if cf_trials:
            samples.append({"stage": "dynamic-config", "configurations": [c09config.describe(j["config"]) for j in cf_trials[0]],
                            "script": cf_trials[0][0]["src"]})
        # the model must agree that every observed racing pair of sites can race
        if pair_queries:
            q = lines[:len(sites)] + ["pair %d %d" % p for p in pair_queries]
            rc, mo, me = C.run([model], input=("\n".join(q) + "\n").encode(), timeout=120)
            answers = [l for l in mo.split("\n") if l.startswith("pair_ok=")]
            for (p, rp), a in zip(pair_queries.items(), answers):
                if a != "pair_ok=0":
                    corr.append({"stage": "race-vs-model", "impl": "race reported between %s and %s" % (sites[p[0]]["pos"], sites[p[1]]["pos"]),
                                 "model": "pair_ok = true (the generated lock sets exclude this pair): the must-lock analysis is wrong here",
                                 "report": rp["text"]})
        stats["observed_racing_site_pairs"] = len(pair_queries)
    finally:
        shutil.rmtree(work, ignore_errors=True)

    cov["evaluations"] = evals
    cov["distinct_nontrivial"] = len(nontrivial)
    cov["rule"] = ("embedding rounds: the lower-level route (parser.Parse, compiler.New(WithGlobalNames)+Compile or compiler.Compile, vm.New(WithGlobals, WithImporter), Run) "
                   "with ONE unsorted global-names slice and ONE importer (FSImporter over a hooked fs / LocalImporter) shared by 2-16 evaluations on separate VMs with own globals and "
                   "contexts, all importing a module nobody imported before; in every second round one evaluation is cancelled by the host while the importer loads the module on "
                   "its behalf and the others are arriving; every evaluation not cancelled must return what its own globals make it (concurrently and one after the other), and the "
                   "host's shared inputs (names slice, module bytes, globals maps) must be as the host made them. "
                   "translator: %d packages, %d functions of the risor main module scanned; %d package-level variables are never written "
                   "after init, %d locations are mutable at run time with %d access sites under %d locks (every ordered pair of sites "
                   "checked: by the kernel, by the extracted model and by an independent Python reading). dynamic: seeded trials of "
                   "2/4/8/16 simultaneous evaluations (own VM, own globals) in a -race build, programs drawn from %s (guarded stream) "
                   "and additionally %s (first use of 16 disjoint families of Go types through proxy calls), half of the evaluations "
                   "meeting on the same family; optionally a host goroutine registering codecs meanwhile; each trial has a sequential "
                   "twin in a fresh process. First-use rounds: 24..31 rounds per process (60..67 thorough), in each 2..16 evaluations released "
                   "together on Go types made with reflect.StructOf that the process has never seen (record of 8..250 fields, inner struct, "
                   "wrapper, slices / maps / pointers over them), handed over by object.NewProxy / NewGoType / raw pointer / by value / in a "
                   "slice, map or field / wrapped by a host builtin at run time, plus a module nobody has imported and a codec registered "
                   "just before; results must equal the Go values (reflect) and the sequential twin. Different configurations: trials of 2..16 evaluations, "
                   "each with its own option list (WithoutGlobal / WithoutGlobals with dotted names, WithGlobalOverride with dotted names to constants "
                   "and host builtins, top-level denies, extra globals, in seeded order) over a small pool of attributes of the default modules, "
                   "through risor.Eval, through a host-edited DefaultGlobals() map and through NewConfig + compiler + vm.Run; every script probes "
                   "every attribute in play; run concurrently (-race) and in sequence in one new process; each evaluation must see exactly "
                   "what its OWN options make of the defaults. Non-trivial = distinct write sites + distinct racing site pairs observed." % (
                       facts["packages"], facts["functions"], facts["package_vars_never_written_after_init"], len(facts["locations"]),
                       len(sites), len(facts["locks"]), GUARDED, PROXY))
    cov["samples"] = samples + [{"site": s} for s in sites[:3]]
    cov["correspondence"] = dict(stats, static_bad_pairs=len(bad), static_bad_locations=bad_locs, model_allok=m_allok,
                                 differences=len(corr))
    cov["site_list"] = {"locations": facts["locations"], "locks": facts["locks"], "sites": len(sites),
                        "host_only_sites": [s["pos"] + " " + s["func"] for s in facts.get("host_only_sites") or []],
                        "entry_locksets": facts.get("entry_locksets"), "code_mutators": facts.get("compiler_mutating_methods"),
                        "package_level_objects": facts.get("package_level_objects")}
    res.assumptions += [
        "the must-lock analysis of c09gen (go/ast, intra-procedural lock tracking + intersection over static callers, documented in "
        "harness/cmd/c09gen/main.go) is part of the trusted base; the race-report cross-check validates it on every observed race",
        "Go's sync.Mutex / sync.RWMutex meet the modelled semantics; the race detector and real interleavings are run-time evidence",
        "methods of the package-level singleton objects (coverage.site_list.package_level_objects: object.Nil/True/False, the "
        "disassembler's colour objects) do not mutate them; state reached only through method calls on such objects is not tracked",
        "host configuration setters (errz.SetTypeErrorsAreFatal, os.SetScriptArgs, internal/color.Enable/DisableColors) are not called "
        "while evaluations run",
    ]

    # ---- decide
    if known_hits:      # unreachable while KNOWN_ID is None; kept for a future open class
        res.known_finding("%d observations in the open class %s, e.g. %s" % (len(known_hits), KNOWN_ID, known_hits[0]["why"][:200]))
    dyn_viol = [v for v in oracle_viol if not v.get("static")]
    # an evaluation that returned something else than alone says more than the race reports of the same rounds: list those first
    dyn_viol.sort(key=lambda v: 0 if v.get("stage") in ("dynamic-firstuse", "dynamic-config", "dynamic-embed") and v.get("script") and "data race" not in v.get("why", "") else 1)
    for v in dyn_viol[:10]:
        v.update({"property": PROP, "kind": "oracle-violation"})
        res.violation(v)
    if dyn_viol:
        return
    if oracle_viol or not proved:
        res.violation({"property": PROP, "kind": "proof-obligation-broken", "theorem_file": "coq/props/C09.v",
                       "broken": getattr(res, "broken", None), "unprotected": oracle_viol[:10],
                       "search": "%d concurrent evaluations in %d trials under the race detector: no race report, crash or differing "
                                 "result" % (stats["evaluations"], stats["trials"])},
                      nofail=True, tag="proof")
        return
    if corr:
        res.violation({"property": PROP, "kind": "correspondence-broken", "stage": corr[0].get("stage"),
                       "first_difference": corr[0], "differences": corr[:20],
                       "search": "no failing input"}, nofail=True, tag="corr")


def replay(data):
    print(json.dumps({k: v for k, v in data.items() if k != "report"}, indent=1)[:4000])
    if data.get("embed"):
        obs, err = C.go_build("c09obs", race=True)
        if not obs:
            print(err)
            return 2
        work = tempfile.mkdtemp(prefix="c09r-")
        try:
            for attempt, mode in enumerate(["embed-seq"] + ["embed-conc"] * 5):
                rc, doc, err = run_embed(obs, dict(data["embed"], mode=mode, dir=work))
                n = err.count("WARNING: DATA RACE")
                bad = [r for r in (doc or {}).get("embed", []) if not ((not r.get("error") and r.get("got") == r.get("want")) or
                                                                         (r["victim"] and r.get("error") == "context canceled"))]
                print("attempt %d (%s): exit %s, %d race reports, %s evaluations not returning what their own globals make them, shared inputs modified: %s" % (
                    attempt, mode, rc, n, len(bad) if doc is not None else "process died;", (doc or {}).get("modified", [])[:1]))
                for r in bad[:3]:
                    print("  round %d evaluation %d route %s victim %s: error %r got %r want %r" % (r["round"], r["worker"], r["route"], r["victim"], r.get("error"), r.get("got"), r.get("want")))
                if n or bad or rc != 0 or (doc or {}).get("modified"):
                    print(err[:3000])
                    return 1
        finally:
            shutil.rmtree(work, ignore_errors=True)
        return 0
    if not data.get("jobs") and not data.get("firstuse"):
        return 0
    if data.get("stage") == "dynamic-config":
        obs, err = C.go_build("c09obs", race=True)
        if not obs:
            print(err)
            return 2
        differs = 0
        for mode in ("seq", "conc", "conc", "conc"):
            rc, resu, err = run_trial(obs, data["jobs"], mode, tempfile.gettempdir(), False)
            print("mode %s: exit %s, %d race reports" % (mode, rc, err.count("WARNING: DATA RACE")))
            differs += 1 if rc != 0 or resu is None else 0
            for k, r in enumerate(resu or []):
                want = (data.get("expected") or [])[k] if k < len(data.get("expected") or []) else None
                ok = want is None or (r.get("value") == want and not r.get("error"))
                differs += 0 if ok else 1
                print("  evaluation %d [%s]: %s %s%s" % (k, data["configurations"][k], r.get("value"), r.get("error") or "",
                                                       "" if ok else "   <-- its own configuration makes it %r" % (want,)))
        return 1 if differs else 0
    obs, err = C.go_build("c09obs", race=True)
    if not obs:
        print(err)
        return 2
    work = tempfile.mkdtemp(prefix="c09r-")
    try:
        write_modules(work)
        for attempt in range(5 if data.get("firstuse") else 0):
            rc, resu, err = run_req(obs, dict(data["firstuse"], mode="firstuse-conc", dir=work), "firstuse")
            n = err.count("WARNING: DATA RACE")
            bad = [r for r in (resu or []) if r.get("error") or r.get("got") != r.get("want")]
            print("attempt %d: exit %s, %d race reports, %s evaluations not returning what their Go value holds" % (
                attempt, rc, n, len(bad) if resu is not None else "process died;"))
            for r in bad[:3]:
                print("  round %d worker %d route %s: error %r got %r want %r" % (r["round"], r["worker"], r["route"], r.get("error"), r.get("got"), r.get("want")))
            if n or bad or rc != 0:
                print(err[:3000])
                return 1
        if data.get("firstuse"):
            return 0
        for attempt in range(5):
            rc, resu, err = run_trial(obs, data["jobs"], "conc", work, data.get("register_codecs_concurrently", False))
            n = err.count("WARNING: DATA RACE")
            print("attempt %d: exit %s, %d race reports" % (attempt, rc, n))
            if n or rc not in (0,):
                print(err[:3000])
                return 1
    finally:
        shutil.rmtree(work, ignore_errors=True)
    return 0
