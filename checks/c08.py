"""C08 - Go values cross the host/script boundary faithfully or are rejected cleanly.

The check owns a zoo of declared named types and a receiver type with methods (harness/cmd/c08obs) and builds all
other types with reflect (StructOf/SliceOf/ArrayOf/MapOf/PointerTo) to depth 3.  Four kinds of cases:
  global   risor.Eval(ctx, "g0", risor.WithGlobal("g0", v))  -> result object, result.Interface()
  field    a struct field of every generated type read through a proxy
  set      `c0.F = <expr>; c0.F`: Go-side struct state afterwards and the value read back
  call/ret methods of the receiver zoo: arguments received on the Go side, results converted back
  reuse    2..4 evaluations that pass a global under the same name, on ONE VM (vm.NewEmpty + risor.WithVM) and on a VM each: the
           same pointer / slice / map again, after the host stored new contents in place, an equal copy of a value type after a
           script changed its view, another value, another type - the Go value a script sees is the one passed to THIS evaluation
Every case runs through the implementation (under recover) and through the extracted Gallina model of
object/typeconv.go + proxy.go (exact agreement of outcome class, result object, Interface() value, Go-side heap and
received arguments), and an oracle that knows nothing of the model judges the implementation's observations:
no panic, Interface() equals the original modulo the documented widening, a field reads back as written (script and
Go side), arguments arrive exactly when representable."""
import json
import os
import shutil
import struct
import subprocess
import tempfile
from concurrent.futures import ThreadPoolExecutor

from lib import common as C

PROP = "C08"
LEVEL = "proof"

INT_KINDS = ["int", "int8", "int16", "int32", "int64", "uint", "uint8", "uint16", "uint32", "uint64"]
BITS = {"int": 64, "int8": 8, "int16": 16, "int32": 32, "int64": 64, "uint": 64, "uint8": 8, "uint16": 16, "uint32": 32, "uint64": 64}


def irange(k):
    b = BITS[k]
    return (0, 2 ** b - 1) if k.startswith("u") else (-2 ** (b - 1), 2 ** (b - 1) - 1)


# named zoo: id -> underlying type (must mirror harness/cmd/c08obs)
def T_int(k):
    return ("int", k)


NAMED = {
    1: ("int", "int"), 2: ("int", "int8"), 3: ("int", "uint64"), 4: ("str",), 5: ("bool",), 6: ("f64",), 7: ("f32",),
    8: ("int", "uint8"), 9: ("int", "int64"), 10: ("slice", ("int", "int")), 11: ("slice", ("str",)),
    12: ("slice", ("named", 1, ("int", "int"))), 13: ("map", ("int", "int")), 14: ("array", 2, ("int", "int")),
    15: ("ptr", ("int", "int")), 16: ("slice", ("int", "uint8")),
}
NAMED_SCALARS = [1, 2, 3, 4, 5, 6, 7, 8, 9]
NAMED_COMPOSITES = [10, 11, 12, 13, 14, 15, 16]
INNER = ("struct", 100, [(b"A", ("int", "int")), (b"B", ("str",))])


def named(i):
    return ("named", i, NAMED[i])


# ------------------------------------------------------------------ known findings

def load_known():
    out = []
    for fn in ("known_findings.e.jsonl", "known_findings.jsonl"):
        p = os.path.join(C.VERIF, fn)
        if not os.path.exists(p):
            continue
        for line in open(p):
            line = line.strip()
            if not line or line.startswith("#"):
                continue
            j = json.loads(line)
            if j.get("property") == PROP and not j.get("fixed"):
                out.append(j)
        if out:
            break
    return out


# ------------------------------------------------------------------ encoders

def hx(b):
    return b.hex() if b else "-"


def t_json(t):
    k = t[0]
    if k == "int":
        return {"k": t[1]}
    if k in ("bool", "time", "iface"):
        return {"k": k}
    if k == "f32":
        return {"k": "float32"}
    if k == "f64":
        return {"k": "float64"}
    if k == "str":
        return {"k": "string"}
    if k == "named":
        return {"k": "named", "id": t[1]}
    if k in ("ptr", "slice", "map"):
        return {"k": k, "e": t_json(t[1])}
    if k == "array":
        return {"k": "array", "n": t[1], "e": t_json(t[2])}
    if k == "struct":
        return {"k": "struct", "id": t[1], "f": [[n.decode(), t_json(ft)] for n, ft in t[2]]}
    raise ValueError(t)


def t_tok(t, out):
    k = t[0]
    if k == "int":
        out.append("i:" + t[1])
    elif k in ("bool", "f32", "f64", "str", "time", "iface"):
        out.append(k)
    elif k == "named":
        out += ["N", str(t[1])]
        t_tok(t[2], out)
    elif k == "ptr":
        out.append("P")
        t_tok(t[1], out)
    elif k == "slice":
        out.append("SL")
        t_tok(t[1], out)
    elif k == "map":
        out.append("MP")
        t_tok(t[1], out)
    elif k == "array":
        out += ["AR", str(t[1])]
        t_tok(t[2], out)
    elif k == "struct":
        out += ["ST", str(t[1]), str(len(t[2]))]
        for n, ft in t[2]:
            out.append(hx(n))
            t_tok(ft, out)
    else:
        raise ValueError(t)


def v_json(v):
    k = v[0]
    if k == "nil":
        return "nil"
    if k == "b":
        return {"b": v[1]}
    if k == "i":
        return {"i": str(v[1])}
    if k == "f":
        return {"f": "%016x" % v[1]}
    if k == "s":
        return {"s": v[1].hex()}
    if k == "t":
        return {"t": str(v[1])}
    if k == "box":
        return {"box": v_json(v[1])}
    if k == "cell":
        return {"cell": v[1]}
    if k in ("sl", "arr", "st"):
        return {k: [v_json(x) for x in v[1]]}
    if k == "map":
        return {"map": [[kk.hex(), v_json(x)] for kk, x in v[1]]}
    if k == "dyn":
        return {"dyn": [t_json(v[1]), v_json(v[2])]}
    raise ValueError(v)


def v_tok(v, out):
    k = v[0]
    if k == "nil":
        out.append("nil")
    elif k == "b":
        out.append("b1" if v[1] else "b0")
    elif k == "i":
        out += ["I", str(v[1])]
    elif k == "f":
        out += ["F", "%016x" % v[1]]
    elif k == "s":
        out += ["S", hx(v[1])]
    elif k == "t":
        out += ["T", str(v[1])]
    elif k == "box":
        out.append("BOX")
        v_tok(v[1], out)
    elif k == "cell":
        out += ["REF", str(v[1]), "0"]
    elif k in ("sl", "arr", "st"):
        out += [{"sl": "SL", "arr": "ARR", "st": "STV"}[k], str(len(v[1]))]
        for x in v[1]:
            v_tok(x, out)
    elif k == "map":
        out += ["MAP", str(len(v[1]))]
        for kk, x in v[1]:
            out.append(hx(kk))
            v_tok(x, out)
    elif k == "dyn":
        out.append("DYN")
        t_tok(v[1], out)
        v_tok(v[2], out)
    else:
        raise ValueError(v)


def o_tok(o, out):
    k = o[0]
    if k == "nil":
        out.append("nil")
    elif k == "b":
        out.append("b1" if o[1] else "b0")
    elif k == "i":
        out += ["I", str(o[1])]
    elif k == "y":
        out += ["Y", str(o[1])]
    elif k == "f":
        out += ["F", "%016x" % o[1]]
    elif k == "s":
        out += ["S", hx(o[1])]
    elif k == "l":
        out += ["L", str(len(o[1]))]
        for x in o[1]:
            o_tok(x, out)
    elif k == "m":
        out += ["M", str(len(o[1]))]
        for kk, x in o[1]:
            out.append(hx(kk))
            o_tok(x, out)
    elif k == "bs":
        out += ["BS", str(len(o[1]))] + [str(x) for x in o[1]]
    elif k == "fs":
        out += ["FS", str(len(o[1]))] + ["%016x" % x for x in o[1]]
    else:
        raise ValueError(o)


def x_tok(e, out):
    k = e[0]
    if k == "lit":
        out.append("LIT")
        o_tok(e[1], out)
    elif k == "g":
        out += ["G", str(e[1])]
    elif k == "c":
        out += ["C", str(e[1])]
    elif k == "at":
        out.append("AT")
        x_tok(e[1], out)
        out.append(hx(e[2]))
    elif k == "ix":
        out.append("IX")
        x_tok(e[1], out)
        out.append(str(e[2]))
    elif k == "xl":
        out += ["XL", str(len(e[1]))]
        for x in e[1]:
            x_tok(x, out)
    elif k == "xm":
        out += ["XM", str(len(e[1]))]
        for kk, x in e[1]:
            out.append(hx(kk))
            x_tok(x, out)
    else:
        raise ValueError(e)


def float_text(bits):
    f = struct.unpack(">d", struct.pack(">Q", bits))[0]
    if f != f or f in (float("inf"), float("-inf")):
        return None
    s = repr(f)
    if "e" in s or "E" in s:
        s = "%.40f" % f
        if struct.unpack(">Q", struct.pack(">d", float(s)))[0] != bits:
            return None
        s = s.rstrip("0")
        if s.endswith("."):
            s += "0"
    if s.startswith("-"):
        return "(" + s + ")"
    return s


def str_lit(b):
    out = ['"']
    for o in b:
        if 32 <= o < 127 and chr(o) not in '"\\{}':
            out.append(chr(o))
        else:
            out.append("\\%03o" % o)
    out.append('"')
    return "".join(out)


def o_src(o):
    try:
        return o_src1(o)
    except TypeError:
        return None      # a float with no plain decimal spelling somewhere inside


def o_src1(o):
    k = o[0]
    if k == "nil":
        return "nil"
    if k == "b":
        return "true" if o[1] else "false"
    if k == "i":
        z = o[1]
        if z == -2 ** 63:
            return "(-9223372036854775807 - 1)"
        return str(z) if z >= 0 else "(%d)" % z
    if k == "y":
        return "byte(%d)" % o[1]
    if k == "f":
        return float_text(o[1])
    if k == "s":
        return str_lit(o[1])
    if k == "l":
        return "[" + ", ".join(o_src1(x) for x in o[1]) + "]"
    if k == "m":
        return "{" + ", ".join(str_lit(kk) + ": " + o_src1(x) for kk, x in o[1]) + "}"
    if k == "bs":
        return "byte_slice([" + ", ".join(str(x) for x in o[1]) + "])"
    if k == "fs":
        return "float_slice([" + ", ".join(float_text(x) for x in o[1]) + "])"
    raise ValueError(o)


def x_src(e):
    k = e[0]
    if k == "lit":
        return o_src(e[1])
    if k == "g":
        return "g%d" % e[1]
    if k == "c":
        return "c%d" % e[1]
    if k == "at":
        return x_src(e[1]) + "." + e[2].decode()
    if k == "ix":
        return x_src(e[1]) + "[%d]" % e[2]
    if k == "xl":
        return "[" + ", ".join(x_src(x) for x in e[1]) + "]"
    if k == "xm":
        return "{" + ", ".join(str_lit(kk) + ": " + x_src(x) for kk, x in e[1]) + "}"
    raise ValueError(e)


def encode_case(case):
    """case: dict(cells=[(t, v) | 'rec'], globals=[(t, v) | None], script=...) -> (json line for Go, token line for the model)"""
    cells_j = []
    toks = ["CASE"]
    model_cells = [c for c in case["cells"] if c != "rec"]
    toks.append(str(len(model_cells)))
    for c in case["cells"]:
        if c == "rec":
            cells_j.append({"rec": True})
        else:
            cells_j.append({"t": t_json(c[0]), "v": v_json(c[1])})
            t_tok(c[0], toks)
            v_tok(c[1], toks)
    globals_j = []
    toks.append(str(len(case["globals"])))
    for g in case["globals"]:
        if g is None:
            globals_j.append({"untyped": True})
            toks.append("U")
        else:
            globals_j.append({"t": t_json(g[0]), "v": v_json(g[1])})
            t_tok(g[0], toks)
            v_tok(g[1], toks)
    s = case["script"]
    rec_idx = len(case["cells"]) - 1
    if s[0] == "expr":
        src = x_src(s[1])
        toks.append("EXPR")
        x_tok(s[1], toks)
    elif s[0] == "set":
        tgt = x_src(s[1]) + "." + s[2].decode()
        src = tgt + " = " + x_src(s[3]) + "\n" + tgt
        toks.append("SET")
        x_tok(s[1], toks)
        toks.append(hx(s[2]))
        x_tok(s[3], toks)
    elif s[0] == "call":
        src = "c%d.%s(%s)" % (rec_idx, s[1], ", ".join(x_src(a) for a in s[3]))
        toks += ["CALL", str(len(s[2]))]
        for pt in s[2]:
            t_tok(pt, toks)
        toks.append(str(len(s[3])))
        for a in s[3]:
            x_tok(a, toks)
    elif s[0] == "ret":
        src = "c%d.%s()" % (rec_idx, s[1])
        toks.append("RET")
        t_tok(s[2], toks)
        v_tok(s[3], toks)
    else:
        raise ValueError(s)
    if src is None or "None" in src:
        return None, None, None
    j = json.dumps({"cells": cells_j, "globals": globals_j, "src": src.encode().hex()})
    return j, " ".join(toks), src


# ------------------------------------------------------------------ the method zoo (mirrors c08obs)

I = ("int", "int")
METHODS = {
    "TakeInt": [I], "TakeI8": [("int", "int8")], "TakeI64": [("int", "int64")], "TakeU8": [("int", "uint8")],
    "TakeU32": [("int", "uint32")], "TakeU64": [("int", "uint64")], "TakeF32": [("f32",)], "TakeF64": [("f64",)],
    "TakeStr": [("str",)], "TakeBool": [("bool",)], "TakeTime": [("time",)], "TakeDur": [named(9)], "TakeMyInt": [named(1)],
    "TakeMyStr": [named(4)], "TakePInt": [("ptr", I)], "TakePMyInt": [("ptr", named(1))], "TakePInts": [("ptr", named(10))],
    "TakeInts": [("slice", I)], "TakeNamedInts": [named(10)], "TakeMyInts": [named(12)], "TakeStrs": [("slice", ("str",))],
    "TakeBytes": [("slice", ("int", "uint8"))], "TakeF64s": [("slice", ("f64",))], "TakeArr": [("array", 2, I)],
    "TakeArr3S": [("array", 3, ("str",))], "TakeMap": [("map", I)], "TakeSMap": [named(13)],
    "TakeMapS": [("map", ("slice", ("str",)))], "TakeAny": [("iface",)], "TakeAnys": [("slice", ("iface",))],
    "TakeInner": [INNER], "TakePInner": [("ptr", INNER)], "TakeSlP": [("slice", ("ptr", I))], "TakeInners": [("slice", INNER)],
    "TakeTwo": [I, ("str",)], "TakeThree": [("int", "int8"), ("slice", I), ("map", ("str",))],
}
F15 = 0x3FF8000000000000
RETS = {
    "RetInt": (I, ("i", -7)), "RetU64": (("int", "uint64"), ("i", 2 ** 64 - 1)), "RetU8": (("int", "uint8"), ("i", 200)),
    "RetF32": (("f32",), ("f", F15)), "RetStr": (("str",), ("s", b"ret")), "RetDur": (named(9), ("i", 10 ** 9)),
    "RetMyInt": (named(1), ("i", 7)), "RetInts": (named(10), ("sl", [("i", 1), ("i", 2)])), "RetMyInts": (named(12), ("sl", [("i", 1)])),
    "RetArr": (("array", 2, I), ("arr", [("i", 3), ("i", 4)])), "RetMap": (("map", I), ("map", [(b"a", ("i", 1))])),
    "RetPInt": (("ptr", I), ("box", ("i", 5))), "RetNilPInt": (("ptr", I), ("nil",)),
    "RetInner": (INNER, ("st", [("i", 1), ("s", b"b")])), "RetPInner": (("ptr", INNER), ("box", ("st", [("i", 2), ("s", b"c")]))),
    "RetAny": (("iface",), ("dyn", ("int", "int32"), ("i", 9))), "RetNilAny": (("iface",), ("nil",)),
    "RetBytes": (("slice", ("int", "uint8")), ("sl", [("i", 97), ("i", 98)])), "RetTime": (("time",), ("t", 1500)),
}


# ------------------------------------------------------------------ generation of types and values

class Gen:
    def __init__(self, rng):
        self.rng = rng
        self.struct_ids = {}

    def struct(self, fields):
        key = json.dumps([[n.decode(), t_json(t)] for n, t in fields], sort_keys=True)
        if key not in self.struct_ids:
            self.struct_ids[key] = 1000 + len(self.struct_ids)
        return ("struct", self.struct_ids[key], fields)

    def scalar(self, allow_named=True):
        rng = self.rng
        r = rng.below(20)
        if r < 10:
            return ("int", rng.choice(INT_KINDS))
        if r == 10:
            return ("bool",)
        if r == 11:
            return ("f32",)
        if r == 12:
            return ("f64",)
        if r <= 14:
            return ("str",)
        if r == 15:
            return ("time",)
        if r == 16:
            return ("iface",)
        if allow_named:
            return named(rng.choice(NAMED_SCALARS))
        return ("int", "int")

    def type(self, depth, allow_named=True):
        rng = self.rng
        if depth <= 0 or rng.chance(1, 4):
            return self.scalar(allow_named)
        r = rng.below(12)
        if r <= 1:
            return ("ptr", self.type(depth - 1, allow_named))
        if r <= 4:
            return ("slice", self.type(depth - 1, allow_named))
        if r == 5:
            return ("array", rng.below(4), self.type(depth - 1, allow_named))
        if r <= 7:
            return ("map", self.type(depth - 1, allow_named))
        if r <= 9:
            n = 1 + rng.below(3)
            return self.struct([(("F%d" % i).encode(), self.type(depth - 1, allow_named)) for i in range(n)])
        if r == 10 and allow_named:
            return named(rng.choice(NAMED_COMPOSITES))
        if r == 10:
            return INNER
        return ("ptr", rng.choice([INNER, self.struct([(b"F0", self.type(depth - 1, allow_named))])]))

    def int_value(self, k):
        rng = self.rng
        lo, hi = irange(k)
        z = rng.choice([0, 1, lo, hi, hi - 1, lo + 1 if lo < 0 else 2, rng.below(200) - 100 if lo < 0 else rng.below(200),
                        hi // 2 + 1, (lo + rng.below(1000)) if lo < 0 else rng.below(1000)])
        return max(lo, min(hi, z))

    FLOATS32 = [0, 0x3FF8000000000000, 0xBFF8000000000000, 0x3FF0000000000000, 0x4059000000000000, 0x3FB0000000000000,
                0x47EFFFFFE0000000, 0x3810000000000000, 0x8000000000000000 & 0, 0x4000000000000000]
    FLOATS64 = FLOATS32 + [0x3FB999999999999A, 0x7FEFFFFFFFFFFFFF, 0x0010000000000000, 0x400921FB54442D18, 0xC08F400000000000]

    def value(self, t, depth=0):
        rng = self.rng
        k = t[0]
        if k == "int":
            return ("i", self.int_value(t[1]))
        if k == "bool":
            return ("b", rng.chance(1, 2))
        if k == "f32":
            return ("f", rng.choice(self.FLOATS32))
        if k == "f64":
            return ("f", rng.choice(self.FLOATS64))
        if k == "str":
            return ("s", rng.choice([b"", b"a", b"hello", b"\xc3\xa9", b"a\x00b", b"\xff", b"x y"]))
        if k == "time":
            return ("t", rng.choice([0, 1500, 10 ** 18, -10 ** 15]))      # 0 denotes the zero time.Time
        if k == "iface":
            if rng.chance(1, 4) or depth > 4:
                return ("nil",)
            dt = rng.choice([("int", "int"), ("int", "int32"), ("int", "uint8"), ("str",), ("f64",), ("bool",), ("f32",),
                             ("slice", ("int", "int")), ("map", ("str",)), named(1), named(10), ("time",), ("int", "uint64"),
                             ("ptr", ("int", "int")), INNER, ("ptr", INNER)])
            return ("dyn", dt, self.value(dt, depth + 2))
        if k == "named":
            return self.value(t[2], depth)
        if k == "ptr":
            if rng.chance(1, 4):
                return ("nil",)
            return ("box", self.value(t[1], depth + 1))
        if k == "slice":
            if rng.chance(1, 6):
                return ("nil",)
            return ("sl", [self.value(t[1], depth + 1) for _ in range(rng.below(4) if depth < 3 else rng.below(2))])
        if k == "array":
            return ("arr", [self.value(t[2], depth + 1) for _ in range(t[1])])
        if k == "map":
            if rng.chance(1, 6):
                return ("nil",)
            keys = [b"a", b"b", b"", b"k y"]
            n = rng.below(3)
            return ("map", [(keys[i], self.value(t[1], depth + 1)) for i in range(n)])
        if k == "struct":
            return ("st", [self.value(ft, depth + 1) for _, ft in t[2]])
        raise ValueError(t)

    def zero(self, t):
        k = t[0]
        if k == "int":
            return ("i", 0)
        if k == "bool":
            return ("b", False)
        if k in ("f32", "f64"):
            return ("f", 0)
        if k == "str":
            return ("s", b"")
        if k == "time":
            return ("t", 0)
        if k in ("iface", "ptr", "slice", "map"):
            return ("nil",)
        if k == "named":
            return self.zero(t[2])
        if k == "array":
            return ("arr", [self.zero(t[2]) for _ in range(t[1])])
        if k == "struct":
            return ("st", [self.zero(ft) for _, ft in t[2]])
        raise ValueError(t)

    # ---- script-side values to write / pass
    def literal_for(self, t, good=True, depth=0, st=None):
        """a script literal meant for a Go location of type t; good=False: deliberately mismatching.
        Go iterates script maps in random order, so a literal carries at most ONE element that can fail to convert
        (st["hz"]); when every element fails anyway (named scalar types) maps get at most one entry (st["single"])."""
        rng = self.rng
        if st is None:
            st = {"hz": 1, "single": type_has(t, lambda x: x[0] in ("named", "struct", "time"))}
            if st["single"]:
                st["hz"] = 0
        k = t[0]
        if not good:
            return rng.choice([("s", b"x"), ("l", [("i", 1)]), ("m", [(b"a", ("i", 1))]), ("b", True), ("f", 0x3FF8000000000000),
                               ("nil",), ("i", 5)])
        if k == "named":
            return self.literal_for(t[2], good, depth, st)
        if k == "int":
            lo, hi = irange(t[1])
            r = rng.below(10)
            if r == 0 and st["hz"] > 0:
                st["hz"] -= 1
                return ("i", rng.choice([hi + 1 if hi < 2 ** 63 - 1 else 300, lo - 1 if lo > -2 ** 63 else -300, 300, -1]))   # may not fit
            if r == 1:
                return ("f", rng.choice([0x4000000000000000, 0x3FF8000000000000, 0xC008000000000000]))  # 2.0 1.5 -3.0
            if r == 2:
                return ("y", rng.below(256))
            return ("i", min(self.int_value(t[1]), 2 ** 63 - 1))
        if k == "bool":
            return ("b", rng.chance(1, 2))
        if k == "f32":
            return rng.choice([("f", rng.choice(self.FLOATS32)), ("i", rng.below(1000) - 500), ("f", 0x3FB999999999999A)])
        if k == "f64":
            return rng.choice([("f", rng.choice([f for f in self.FLOATS64 if float_text(f)])), ("i", rng.below(10 ** 6) - 1000), ("i", 2 ** 53 + 1)])
        if k == "str":
            return ("s", rng.choice([b"", b"w", b"hello there", b"\xc3\xa9"]))
        if k == "time":
            if st["hz"] > 0:
                st["hz"] -= 1
                return ("s", b"2020-01-01T00:00:00Z") if rng.chance(1, 3) else ("i", 5)
            return ("s", b"2020-01-01T00:00:00Z")
        if k == "iface":
            return rng.choice([("i", 7), ("s", b"q"), ("nil",), ("l", [("i", 1), ("s", b"a"), ("nil",)]), ("m", [(b"k", ("f", F15))]), ("b", False),
                               ("y", 9), ("f", F15)])
        if k == "ptr":
            if rng.chance(1, 4) and (depth == 0 or st["hz"] > 0):
                if depth > 0:
                    st["hz"] -= 1
                return ("nil",)
            return self.literal_for(t[1], good, depth + 1, st)
        if k == "slice":
            if t[1] == ("int", "uint8") and rng.chance(2, 3):
                return rng.choice([("bs", [1, 2, 255]), ("s", b"hi")])
            if t[1] == ("f64",) and rng.chance(2, 3):
                return ("fs", [F15, 0])
            if rng.chance(1, 6) and (depth == 0 or st["hz"] > 0):
                if depth > 0:
                    st["hz"] -= 1
                return ("nil",)
            n = rng.below(4)
            items = [self.literal_for(t[1], True, depth + 1, st) for _ in range(n)]
            if items and rng.chance(1, 6) and st["hz"] > 0:
                st["hz"] -= 1
                items[rng.below(len(items))] = ("nil",)
            return ("l", items)
        if k == "array":
            n = rng.choice([t[1], t[1], t[1], max(0, t[1] - 1), t[1] + 1])
            if n > t[1]:
                if st["hz"] > 0:
                    st["hz"] -= 1
                else:
                    n = t[1]
            return ("l", [self.literal_for(t[2], True, depth + 1, st) for _ in range(n)])
        if k == "map":
            if rng.chance(1, 6) and (depth == 0 or st["hz"] > 0):
                if depth > 0:
                    st["hz"] -= 1
                return ("nil",)
            keys = [b"a", b"zz", b""]
            n = rng.below(3)
            if st["single"]:
                n = min(n, 1)
            items = [(keys[i], self.literal_for(t[1], True, depth + 1, st)) for i in range(n)]
            if items and rng.chance(1, 6) and st["hz"] > 0:
                st["hz"] -= 1
                items[0] = (items[0][0], ("nil",))
            return ("m", items)
        if k == "struct":
            fs = t[2]
            items = []
            if fs and rng.chance(5, 6):
                # one field only: Go iterates the script map in random order, two failing fields would race
                n, ft = rng.choice(fs)
                items.append((n, self.literal_for(ft, True, depth + 1, st)))
            if rng.chance(1, 5):
                items.append((b"Nope", ("i", 1)))
            return ("m", items)
        raise ValueError(t)


def has_named_scalar(t):
    k = t[0]
    if k == "named":
        return t[2][0] in ("int", "bool", "f32", "f64", "str") or has_named_scalar(t[2])
    if k in ("ptr", "slice", "map"):
        return has_named_scalar(t[1])
    if k == "array":
        return has_named_scalar(t[2])
    if k == "struct":
        return any(has_named_scalar(ft) for _, ft in t[2])
    return False


def value_types(t, v, out):
    """collect the dynamic types inside interface values"""
    k = v[0]
    if k == "dyn":
        out.append(v[1])
        value_types(v[1], v[2], out)
    elif k == "box":
        tt = t[2] if t[0] == "named" else t
        value_types(tt[1], v[1], out)
    elif k in ("sl", "arr"):
        tt = t[2] if t[0] == "named" else t
        et = tt[1] if tt[0] == "slice" else tt[2]
        for x in v[1]:
            value_types(et, x, out)
    elif k == "map":
        tt = t[2] if t[0] == "named" else t
        for _, x in v[1]:
            value_types(tt[1], x, out)
    elif k == "st":
        for (n, ft), x in zip(t[2], v[1]):
            value_types(ft, x, out)


# ------------------------------------------------------------------ the oracle: the documented widening

def under(t):
    return t[2] if t[0] == "named" else t


def widen(t, v, direct=False):
    """[direct]: the value is read from a struct field or returned by a method (converter from getTypeConverter:
    a uint8 is an int there, a struct or time.Time field is read through a pointer to the field)
    canonical description of what result.Interface() must be for the Go value v : t ("equal modulo widening"):
    ints -> int64 (byte stays uint8 when it travels as a byte), floats -> float64, slices/arrays -> []interface{},
    maps -> map[string]interface{}, pointers to non-structs -> the pointee, structs -> pointer to an equal struct"""
    u = under(t)
    k = u[0]
    if v[0] == "raw":
        return v[1]
    if v[0] == "nil" and k in ("ptr", "iface"):
        if k == "ptr" and under(u[1])[0] in ("struct", "time"):
            return "dyn(%s;nil)" % tstr(t)
        return "nil"
    if k == "int":
        if u[1] == "uint8" and t[0] != "named" and not direct:
            return "dyn(uint8;i:%d)" % v[1]
        return "dyn(int64;i:%d)" % v[1]
    if k == "bool":
        return "dyn(bool;b:%s)" % ("true" if v[1] else "false")
    if k in ("f32", "f64"):
        return "dyn(float64;f:%016x)" % v[1]
    if k == "str":
        return "dyn(string;s:%s)" % v[1].hex()
    if k == "time":
        if direct == "field":
            return "dyn(*time;ref(t:%d))" % v[1]
        return "dyn(time;t:%d)" % v[1]
    if k == "iface":
        return widen(v[1], v[2])
    if k == "ptr":
        if under(u[1])[0] in ("struct", "time"):
            return "dyn(%s;ref(%s))" % (tstr(t), plain(v[1]))
        return widen(u[1], v[1])
    if k == "slice":
        if t == ("slice", ("int", "uint8")):
            return "dyn([]uint8;%s)" % ("nil" if v[0] == "nil" else "sl[%s]" % ",".join("i:%d" % x[1] for x in v[1]))
        if t == ("slice", ("f64",)):
            return "dyn([]float64;%s)" % ("nil" if v[0] == "nil" else "sl[%s]" % ",".join("f:%016x" % x[1] for x in v[1]))
        items = v[1] if v[0] != "nil" else []
        return "dyn([]iface;sl[%s])" % ",".join(widen(u[1], x) for x in items)
    if k == "array":
        return "dyn([]iface;sl[%s])" % ",".join(widen(u[2], x) for x in v[1])
    if k == "map":
        items = v[1] if v[0] != "nil" else []
        return "dyn(map[string]iface;map{%s})" % ",".join(sorted(kk.hex() + "=" + widen(u[1], x) for kk, x in items))
    if k == "struct":
        return "dyn(*%s;ref(%s))" % (tstr(u), plain(v))
    raise ValueError(t)


def tstr(t):
    k = t[0]
    if k == "int":
        return t[1]
    if k == "f32":
        return "float32"
    if k == "f64":
        return "float64"
    if k == "str":
        return "string"
    if k in ("bool", "time", "iface"):
        return k
    if k == "named":
        return "N%d" % t[1]
    if k == "ptr":
        return "*" + tstr(t[1])
    if k == "slice":
        return "[]" + tstr(t[1])
    if k == "array":
        return "[%d]%s" % (t[1], tstr(t[2]))
    if k == "map":
        return "map[string]" + tstr(t[1])
    if k == "struct":
        return "S%d" % t[1]
    raise ValueError(t)


def plain(v):
    """canonical description of a Go value tree (as descGo prints it)"""
    k = v[0]
    if k == "raw":
        return v[1]
    if k == "nil":
        return "nil"
    if k == "b":
        return "b:true" if v[1] else "b:false"
    if k == "i":
        return "i:%d" % v[1]
    if k == "f":
        return "f:%016x" % v[1]
    if k == "s":
        return "s:" + v[1].hex()
    if k == "t":
        return "t:%d" % v[1]
    if k == "box":
        return ("ref(%s)" if v[1][0] in ("st", "t") else "box(%s)") % plain(v[1])
    if k == "sl":
        return "sl[" + ",".join(plain(x) for x in v[1]) + "]"
    if k == "arr":
        return "arr[" + ",".join(plain(x) for x in v[1]) + "]"
    if k == "map":
        return "map{" + ",".join(sorted(kk.hex() + "=" + plain(x) for kk, x in v[1])) + "}"
    if k == "st":
        return "st{" + ",".join(plain(x) for x in v[1]) + "}"
    if k == "dyn":
        return "dyn(%s;%s)" % (tstr(v[1]), plain(v[2]))
    raise ValueError(v)


def ints_in(v, t, out):
    """(kind, value) of every integer inside v : t"""
    u = under(t)
    k = v[0]
    if k == "i" and u[0] == "int":
        out.append((u[1], v[1]))
    elif k == "box":
        ints_in(v[1], u[1], out)
    elif k in ("sl", "arr"):
        et = u[1] if u[0] == "slice" else u[2]
        for x in v[1]:
            ints_in(x, et, out)
    elif k == "map":
        for _, x in v[1]:
            ints_in(x, u[1], out)
    elif k == "dyn":
        ints_in(v[2], v[1], out)
    elif k == "st":
        for (n, ft), x in zip(u[2], v[1]):
            ints_in(x, ft, out)


def expect_go(t, o):
    """the Go value (a value tree typed by t) a script literal o stands for in a location of type t when it is
    representable there exactly; None = not representable / not decided by this oracle"""
    u = under(t)
    k = u[0]
    ok = o[0]
    if k == "int":
        if ok in ("i", "y"):
            lo, hi = irange(u[1])
            return ("i", o[1]) if lo <= o[1] <= hi else None
        if ok == "f":
            f = struct.unpack(">d", struct.pack(">Q", o[1]))[0]
            if f == f and abs(f) < 2 ** 62 and f == int(f) and irange(u[1])[0] <= int(f) <= irange(u[1])[1]:
                return ("i", int(f))
        return None
    if k == "bool":
        return ("b", o[1]) if ok == "b" else None
    if k in ("f32", "f64"):
        if ok == "f":
            if k == "f32":
                f = struct.unpack(">d", struct.pack(">Q", o[1]))[0]
                try:
                    g = struct.unpack(">f", struct.pack(">f", f))[0]
                except OverflowError:
                    return None
                if g != f:
                    return None
            return ("f", o[1])
        if ok in ("i", "y") and abs(o[1]) < 2 ** 24:
            return ("f", struct.unpack(">Q", struct.pack(">d", float(o[1])))[0])
        return None
    if k == "str":
        return ("s", o[1]) if ok == "s" else None
    if k == "iface":
        if ok == "nil":
            return ("nil",)
        if ok == "i":
            return ("dyn", ("int", "int64"), ("i", o[1]))
        if ok == "s":
            return ("dyn", ("str",), ("s", o[1]))
        if ok == "b":
            return ("dyn", ("bool",), ("b", o[1]))
        if ok == "f":
            return ("dyn", ("f64",), ("f", o[1]))
        if ok == "y":
            return ("dyn", ("int", "uint8"), ("i", o[1]))
        return None
    if k == "ptr":
        if ok == "nil":
            return ("nil",)
        e = expect_go(u[1], o)
        return ("box", e) if e is not None else None
    if k == "slice":
        if ok == "nil":
            return ("nil",)
        if ok == "bs" and under(u[1]) == ("int", "uint8"):
            return ("sl", [("i", x) for x in o[1]])
        if ok == "fs" and under(u[1]) == ("f64",):
            return ("sl", [("f", x) for x in o[1]])
        if ok == "l":
            items = [expect_go(u[1], x) for x in o[1]]
            return None if any(i is None for i in items) else ("sl", items)
        return None
    if k == "array":
        if ok == "l" and len(o[1]) == u[1]:
            items = [expect_go(u[2], x) for x in o[1]]
            return None if any(i is None for i in items) else ("arr", items)
        return None
    if k == "map":
        if ok == "nil":
            return ("nil",)
        if ok == "m":
            items = [(kk, expect_go(u[1], x)) for kk, x in o[1]]
            return None if any(i[1] is None for i in items) else ("map", items)
        return None
    if k == "struct":
        if ok == "m":
            fields = dict(o[1])
            if any(kk not in [n for n, _ in u[2]] for kk in fields):
                return None
            items = []
            for n, ft in u[2]:
                if n in fields:
                    e = expect_go(ft, fields[n])
                    if e is None:
                        return None
                    items.append(e)
                else:
                    items.append(zero_tree(ft))
            return ("st", items)
        return None
    return None


def zero_tree(t):
    u = under(t)
    k = u[0]
    if k == "int":
        return ("i", 0)
    if k == "bool":
        return ("b", False)
    if k in ("f32", "f64"):
        return ("f", 0)
    if k == "str":
        return ("s", b"")
    if k == "time":
        return ("t", 0)
    if k in ("iface", "ptr", "slice", "map"):
        return ("nil",)
    if k == "array":
        return ("arr", [zero_tree(u[2]) for _ in range(u[1])])
    if k == "struct":
        return ("st", [zero_tree(ft) for _, ft in u[2]])
    raise ValueError(t)


def norm_tree(t, v):
    """what a Go value looks like after a trip through the script and back: nil slices and maps come back empty,
    a nil []byte / []float64 stays nil (the script object wraps the Go slice itself)"""
    u = under(t)
    k = u[0]
    if k == "iface" and v[0] == "dyn":
        # through interface{} the value comes back dynamically typed: the documented widening
        return ("raw", widen(v[1], v[2]))
    if v[0] == "nil":
        if k == "slice" and t not in (("slice", ("int", "uint8")), ("slice", ("f64",))):
            return ("sl", [])
        if k == "map":
            return ("map", [])
        return v
    if k == "ptr" and under(u[1])[0] not in ("struct", "time"):
        inner = norm_tree(u[1], v[1])
        pk = under(u[1])
        if inner == ("nil",) and (pk[0] == "iface" or (pk[0] == "ptr" and under(pk[1])[0] not in ("struct", "time"))):
            return ("nil",)      # pointers are transparent in the script: a pointer to a nil pointer/interface is nil
                                 # (a nil pointer to a struct is a proxy of its own and survives)
        return ("box", inner)
    if k == "slice":
        return ("sl", [norm_tree(u[1], x) for x in v[1]])
    if k == "array":
        return ("arr", [norm_tree(u[2], x) for x in v[1]])
    if k == "map":
        return ("map", [(kk, norm_tree(u[1], x)) for kk, x in v[1]])
    return v


def plain_zero(t):
    u = under(t)
    k = u[0]
    if k == "int":
        return "i:0"
    if k == "bool":
        return "b:false"
    if k in ("f32", "f64"):
        return "f:%016x" % 0
    if k == "str":
        return "s:"
    if k in ("iface", "ptr", "slice", "map"):
        return "nil"
    if k == "array":
        return "arr[" + ",".join(plain_zero(u[2]) for _ in range(u[1])) + "]"
    if k == "struct":
        return "st{" + ",".join(plain_zero(ft) for _, ft in u[2]) + "}"
    if k == "time":
        return "t:0"
    raise ValueError(t)


# ------------------------------------------------------------------ case streams

FIELD = b"F0"


def gen_cases(rng, n_types, per_type):
    g = Gen(rng)
    cases = []

    def add(kind, cells, globals_, script, meta):
        cases.append({"kind": kind, "cells": cells, "globals": globals_, "script": script, "meta": meta})

    # corpus: the witnesses of the theorems and of the design probes
    add("global", [], [(named(9), ("i", 10 ** 9))], ("expr", ("g", 0)), {"t": named(9), "v": ("i", 10 ** 9)})
    add("global", [], [(named(1), ("i", 3))], ("expr", ("g", 0)), {"t": named(1), "v": ("i", 3)})
    add("global", [], [None], ("expr", ("g", 0)), {"untyped": True})
    add("global", [], [(("int", "uint64"), ("i", 2 ** 64 - 1))], ("expr", ("g", 0)), {"t": ("int", "uint64"), "v": ("i", 2 ** 64 - 1)})
    st = g.struct([(FIELD, named(9))])
    add("field", [(st, ("st", [("i", 5)]))], [], ("expr", ("at", ("c", 0), FIELD)), {"ft": named(9), "fv": ("i", 5)})
    add("set", [(st, ("st", [("i", 5)]))], [], ("set", ("c", 0), FIELD, ("lit", ("i", 7))), {"ft": named(9), "lit": ("i", 7)})
    st2 = g.struct([(FIELD, ("slice", INNER))])
    add("set", [(st2, ("st", [("sl", [("st", [("i", 1), ("s", b"b")])])]))], [],
        ("set", ("ix", ("at", ("c", 0), FIELD), 0), b"A", ("lit", ("i", 9))), {"ft": ("int", "int"), "lit": ("i", 9), "through_copy": True})
    st3 = g.struct([(FIELD, INNER)])
    add("set", [(st3, ("st", [("st", [("i", 1), ("s", b"b")])]))], [],
        ("set", ("c", 0), FIELD, ("lit", ("m", [(b"A", ("i", 4))]))), {"ft": INNER, "lit": ("m", [(b"A", ("i", 4))])})
    st4 = g.struct([(FIELD, ("array", 2, ("int", "int")))])
    add("set", [(st4, ("st", [("arr", [("i", 1), ("i", 2)])]))], [],
        ("set", ("c", 0), FIELD, ("lit", ("l", [("i", 4), ("i", 5), ("i", 6)]))), {"ft": ("array", 2, ("int", "int")), "lit": ("l", [("i", 4), ("i", 5), ("i", 6)])})
    st5 = g.struct([(FIELD, ("slice", ("ptr", ("int", "int"))))])
    add("set", [(st5, ("st", [("nil",)]))], [],
        ("set", ("c", 0), FIELD, ("lit", ("l", [("i", 1), ("nil",)]))), {"ft": ("slice", ("ptr", ("int", "int"))), "lit": ("l", [("i", 1), ("nil",)])})
    inner7 = g.struct([(FIELD, ("int", "int"))])
    outer8 = g.struct([(FIELD, inner7)])
    st6 = g.struct([(FIELD, ("ptr", outer8))])
    lit6 = ("m", [(FIELD, ("m", [(FIELD, ("i", 4))]))])
    add("set", [(st6, ("st", [("box", ("st", [("st", [("i", 1)])]))]))], [], ("set", ("c", 0), FIELD, ("lit", lit6)), {"ft": ("ptr", outer8), "lit": lit6})
    add("call", ["rec"], [], ("call", "TakeDur", METHODS["TakeDur"], [("lit", ("i", 5))]), {"method": "TakeDur", "lits": [("i", 5)]})
    add("call", ["rec"], [], ("call", "TakePInts", METHODS["TakePInts"], [("lit", ("l", [("i", 1)]))]), {"method": "TakePInts", "lits": [("l", [("i", 1)])]})

    # every scalar type and every named zoo type as a global, with extreme values
    for k in INT_KINDS:
        lo, hi = irange(k)
        for z in (lo, hi, 0):
            add("global", [], [(("int", k), ("i", z))], ("expr", ("g", 0)), {"t": ("int", k), "v": ("i", z)})
    for i in sorted(NAMED):
        t = named(i)
        v = g.value(t)
        add("global", [], [(t, v)], ("expr", ("g", 0)), {"t": t, "v": v})
    for name in sorted(RETS):
        t, v = RETS[name]
        add("ret", ["rec"], [], ("ret", name, t, v), {"method": name, "t": t, "v": v})

    for ti in range(n_types):
        allow_named = not rng.chance(1, 2)
        t = g.type(3 if rng.chance(1, 2) else 2, allow_named)
        for _ in range(per_type):
            v = g.value(t)
            r = rng.below(10)
            if r <= 2:
                if t == ("iface",) and v == ("nil",):
                    add("global", [], [None], ("expr", ("g", 0)), {"untyped": True})
                else:
                    add("global", [], [(t, v)], ("expr", ("g", 0)), {"t": t, "v": v})
            elif r <= 4:
                st = g.struct([(b"E0", ("int", "int")), (FIELD, t)])
                add("field", [(st, ("st", [("i", 1), v]))], [], ("expr", ("at", ("c", 0), FIELD)), {"ft": t, "fv": v})
            elif r <= 8:
                st = g.struct([(FIELD, t), (b"E1", ("str",))])
                lit = g.literal_for(t, good=not rng.chance(1, 8))
                if o_src(lit) is None:
                    continue
                add("set", [(st, ("st", [v, ("s", b"keep")]))], [], ("set", ("c", 0), FIELD, ("lit", lit)), {"ft": t, "lit": lit})
            else:
                # write a value that came from Go back into Go: c0.F0 = g0
                st = g.struct([(FIELD, t)])
                v2 = g.value(t)
                if t == ("iface",) and v2 == ("nil",):
                    continue
                add("set", [(st, ("st", [v]))], [(t, v2)], ("set", ("c", 0), FIELD, ("g", 0)), {"ft": t, "from_go": v2})
    # the method zoo
    names = sorted(METHODS)
    for _ in range(max(60, n_types // 2)):
        m = rng.choice(names)
        params = METHODS[m]
        lits = [g.literal_for(pt, good=not rng.chance(1, 10)) for pt in params]
        if rng.chance(1, 12):
            lits = lits[:-1]
        elif rng.chance(1, 12):
            lits = lits + [("i", 1)]
        if any(o_src(l) is None for l in lits):
            continue
        add("call", ["rec"], [], ("call", m, params, [("lit", l) for l in lits]), {"method": m, "lits": lits})
    return cases


# ------------------------------------------------------------------ running

def run_lines(exe, lines, work, tag, jobs=None):
    jobs = jobs or max(1, min(C.NCPU, len(lines) // 100 + 1))
    bounds = [(i * len(lines) // jobs, (i + 1) * len(lines) // jobs) for i in range(jobs)]

    def one(b):
        lo, hi = b
        if lo == hi:
            return []
        p = subprocess.run([exe], input=("\n".join(lines[lo:hi]) + "\n").encode(), stdout=subprocess.PIPE,
                           stderr=subprocess.PIPE, timeout=3000)
        if p.returncode != 0:
            raise RuntimeError("%s failed: %s" % (exe, p.stderr.decode("utf-8", "replace")[-2000:]))
        return p.stdout.decode("utf-8", "replace").splitlines()

    with ThreadPoolExecutor(max_workers=jobs) as ex:
        parts = list(ex.map(one, bounds))
    out = []
    for p in parts:
        out += p
    return out


# ------------------------------------------------------------------ classes of the known findings (decidable on the case)

def case_types(case):
    ts = []
    for c in case["cells"]:
        if c != "rec":
            ts.append(c[0])
            value_types(c[0], c[1], ts)
    for gl in case["globals"]:
        if gl is not None:
            ts.append(gl[0])
            value_types(gl[0], gl[1], ts)
    s = case["script"]
    if s[0] == "call":
        ts += list(s[2])
    if s[0] == "ret":
        ts.append(s[2])
        value_types(s[2], s[3], ts)
    return ts


def lit_has_nil_inside(o, top=True):
    if o[0] == "nil":
        return not top
    if o[0] == "l":
        return any(lit_has_nil_inside(x, False) for x in o[1])
    if o[0] == "m":
        return any(lit_has_nil_inside(x, False) for _, x in o[1])
    return False


def tree_has_nil_inside(v, top=True):
    k = v[0]
    if k == "nil":
        return not top
    if k == "box":
        return tree_has_nil_inside(v[1], False)
    if k in ("sl", "arr", "st"):
        return any(tree_has_nil_inside(x, False) for x in v[1])
    if k == "map":
        return any(tree_has_nil_inside(x, False) for _, x in v[1])
    if k == "dyn":
        return tree_has_nil_inside(v[2], False)
    return False


def lit_sets_struct_field(t, o, top=False):
    """does converting the literal o to type t build a struct from a map that sets a struct-kind field?
    top: t is the type of a field assigned through Proxy.SetAttr (repaired: the pointed-to struct is stored)"""
    u = under(t)
    k = u[0]
    if k == "ptr":
        return lit_sets_struct_field(u[1], o, top and under(u[1])[0] != "struct")
    if k == "struct" and o[0] == "m":
        for kk, x in o[1]:
            for n, ft in u[2]:
                if n == kk:
                    if under(ft)[0] in ("struct", "time"):
                        return True
                    if x[0] == "nil" and under(ft)[0] in ("ptr", "slice", "map", "iface"):
                        return True      # f.Set(reflect.ValueOf(nil)): the zero Value
                    if lit_sets_struct_field(ft, x):
                        return True
        return False
    if k in ("slice", "array") and o[0] == "l":
        et = u[1] if k == "slice" else u[2]
        return any(lit_sets_struct_field(et, x) for x in o[1])
    if k == "map" and o[0] == "m":
        return any(lit_sets_struct_field(u[1], x) for _, x in o[1])
    return False


def type_has(t, pred):
    if pred(t):
        return True
    k = t[0]
    if k == "named":
        return type_has(t[2], pred)
    if k in ("ptr", "slice", "map"):
        return type_has(t[1], pred)
    if k == "array":
        return type_has(t[2], pred)
    if k == "struct":
        return any(type_has(ft, pred) for _, ft in t[2])
    return False


def classify(case):
    """the known-finding classes a case belongs to (static predicates on the case, independent of the outcome)"""
    cls = set()
    ts = case_types(case)
    if any(has_named_scalar(t) for t in ts):
        cls.add("named-scalar")
    # a script map that builds a Go struct and sets a field of struct (or time.Time) type: StructConverter.To
    # still stores the pointer the field converter returns
    s = case["script"]
    targets = []
    if s[0] == "set" and case["meta"].get("ft") is not None:
        targets.append(case["meta"]["ft"])
    if s[0] == "call":
        targets += list(s[2])
    pairs = []
    if s[0] == "set" and s[3][0] == "lit" and case["meta"].get("ft") is not None:
        pairs.append((case["meta"]["ft"], s[3][1]))
    if s[0] == "call":
        pairs += [(pt, a[1]) for pt, a in zip(s[2], s[3]) if a[0] == "lit"]
    if any(lit_sets_struct_field(t, o, top=(s[0] == "set")) for t, o in pairs):
        cls.add("struct-literal-field")
    if any(type_has(t, lambda x: x[0] == "ptr" and x[1][0] in ("named", "iface")) for t in targets):
        cls.add("ptr-to-named")
    if case["meta"].get("through_copy") or (s[0] == "set" and s[1][0] != "c"):
        cls.add("copy-proxy")
    ints = []
    for c in case["cells"]:
        if c != "rec":
            ints_in(c[1], c[0], ints)
    for gl in case["globals"]:
        if gl is not None:
            ints_in(gl[1], gl[0], ints)
    if s[0] == "ret":
        ints_in(s[3], s[2], ints)
    if any(k in ("uint", "uint64") and z > 2 ** 63 - 1 for k, z in ints):
        cls.add("uint64-wrap")
    return cls


# ------------------------------------------------------------------ the check

PANIC_FAMILIES = {
    "named-scalar": ("interface conversion: interface {} is ", "is not assignable to type", "reflect: Call using "),
    "struct-literal-field": ("is not assignable to type", "on zero Value"),
    "ptr-to-named": ("is not assignable to type", "reflect: Call using "),
    "unsupported-type": ("invalid global provided",),
}


def oracle(case, g):
    """judge one observation of the implementation; returns list of (aspect, why, known_class or None)"""
    viol = []
    kind = case["kind"]
    meta = case["meta"]
    cls = classify(case)
    out = g["outcome"]
    if out in ("panic", "escaped"):
        raw = g.get("raw", "")
        k = None
        for c in sorted(cls | ({"unsupported-type"} if meta.get("unsupported") else set())):
            if c in PANIC_FAMILIES and any(f in raw for f in PANIC_FAMILIES[c]):
                k = c
                break
        where = "in the caller of Eval" if out == "escaped" else "inside the VM (recovered)"
        viol.append(("no-panic", "conversion panicked %s: %s" % (where, raw[:160]), k))
        return viol
    if out != "ok":
        return viol
    if kind == "global" and meta.get("untyped"):
        if g.get("iface") != "nil" or g.get("obj") != "nil":
            viol.append(("faithful", "an untyped nil global reads as %s" % g.get("obj"), None))
    elif kind == "global" and "t" in meta:
        want = widen(meta["t"], meta["v"])
        if g.get("iface") != want:
            viol.append(("faithful", "result.Interface() of the global is %s, the Go value is %s" % (g.get("iface"), want),
                         "uint64-wrap" if "uint64-wrap" in cls else None))
    elif kind == "field":
        ft = meta["ft"]
        want = widen(ft, meta["fv"], direct="field" if under(ft)[0] in ("time",) else True)
        if g.get("iface") != want:
            viol.append(("faithful", "the field reads as %s, the Go value is %s" % (g.get("iface"), want),
                         "uint64-wrap" if "uint64-wrap" in cls else None))
    elif kind == "ret":
        want = widen(meta["t"], meta["v"], direct=True)
        if g.get("iface") != want:
            viol.append(("faithful", "the method result reads as %s, the Go value is %s" % (g.get("iface"), want),
                         "uint64-wrap" if "uint64-wrap" in cls else None))
    elif kind == "set":
        ft = meta["ft"]
        e = None
        if "lit" in meta:
            e = expect_go(ft, meta["lit"])
        elif "from_go" in meta:
            e = norm_tree(ft, meta["from_go"])
        if e is not None:
            cell_t = case["cells"][0][0]
            if meta.get("through_copy"):
                # c0.F0[0].A = lit ; c0.F0[0].A : must read back what was written
                want = widen(ft, e, direct=True)
                if g.get("iface") != want:
                    viol.append(("reads-back", "a field written through %s reads back as %s, written %s"
                                 % (x_src(case["script"][1]), g.get("iface"), want), "copy-proxy"))
            else:
                others = [plain(v) for (n, _), v in zip(cell_t[2], case["cells"][0][1][1]) if n != FIELD]
                idx = [n for n, _ in cell_t[2]].index(FIELD)
                fields = others[:idx] + [plain(e)] + others[idx:]
                want_cell = "st{" + ",".join(fields) + "}"
                vcls = "uint64-wrap" if "uint64-wrap" in cls else None
                if g["cells"][0] != want_cell:
                    viol.append(("go-side", "after `%s` the Go struct is %s, expected %s" % (meta.get("src", "set"), g["cells"][0], want_cell), vcls))
                want = widen(ft, e, direct="field" if under(ft)[0] == "time" else True)
                if g.get("iface") != want:
                    viol.append(("reads-back", "the field reads back as %s, written %s" % (g.get("iface"), want), vcls))
    elif kind == "call":
        params = case["script"][2]
        lits = meta["lits"]
        if len(lits) >= len(params):
            es = [expect_go(pt, l) if l[0] != "nil" or under(pt)[0] in ("ptr", "slice", "map", "iface") else None
                  for pt, l in zip(params, lits)]
            if all(e is not None for e in es):
                want = []
                for pt, e in zip(params, es):
                    if under(pt)[0] == "iface":
                        want.append("iface;nil" if e[0] == "nil" else "%s;%s" % (tstr(e[1]), plain(e[2])))
                    else:
                        want.append("%s;%s" % (tstr(pt), plain(e)))
                if g["got"] != want:
                    viol.append(("args-exact", "the method received %s, the script passed %s" % (g["got"], want), None))
    return viol



# ------------------------------------------------------------------ sequences of evaluations that pass the same-named global again

def peel(t, v):
    """what the script sees behind the transparent pointers: (type, value or None when a pointer on the way is nil, pointers peeled)"""
    n = 0
    u = under(t)
    while u[0] == "ptr":
        if v is not None:
            v = v[1] if v[0] == "box" else None
        u = under(u[1])
        n += 1
    return u, v, n


def script_reaches_go(t):
    """can `g0.F = x` / `g0[i] = x` in a script change memory the host still holds?  (a proxy of a pointed-to struct aliases it;
    a byte_slice / float_slice object wraps the Go slice itself; everything else is converted into a copy)"""
    u, _, n = peel(t, None)
    return (u[0] == "struct" and n >= 1) or u in (("slice", ("int", "uint8")), ("slice", ("f64",)))


def mutate_script(g, t, v):
    """a script that changes ITS view of the global g0 and then reads it, or None"""
    u, pv, _ = peel(t, v)
    if pv is None:
        return None
    if u[0] == "struct" and u[2] and pv[0] == "st":
        n, ft = g.rng.choice(u[2])
        lit = o_src(g.literal_for(ft, good=True))
        return None if lit is None else "g0.%s = %s\ng0.%s" % (n.decode(), lit, n.decode())
    if u[0] in ("slice", "array") and pv[0] in ("sl", "arr") and pv[1]:
        lit = o_src(g.literal_for(u[1] if u[0] == "slice" else u[2], good=True))
        return None if lit is None else "g0[0] = %s\ng0" % lit
    if u[0] == "map" and pv[0] == "map":
        lit = o_src(g.literal_for(u[1], good=True))
        return None if lit is None else 'g0["a"] = %s\ng0' % lit
    return None


def poke_value(g, t, cur):
    """new contents of the same shape, to be stored in place by the host: (value tree, the global's value afterwards) or None"""
    u = under(t)
    if u[0] == "ptr" and cur[0] == "box":
        nv = ("box", g.value(u[1], 1))
        return nv, nv
    if u[0] == "slice" and cur[0] == "sl" and cur[1]:
        nv = ("sl", [g.value(u[1], 1) for _ in cur[1]])
        return nv, nv
    if u[0] == "map" and cur[0] == "map":
        for _ in range(4):
            nv = g.value(t)
            if nv[0] == "map":
                return nv, nv
    return None


REUSE_SHAPES = [lambda g: ("ptr", g.scalar(False)), lambda g: ("slice", g.scalar(False)), lambda g: ("map", g.scalar(False)),
                lambda g: ("array", 1 + g.rng.below(3), g.scalar(False)),
                lambda g: g.struct([(b"F0", g.scalar(False)), (b"F1", g.type(1, False))]),
                lambda g: ("ptr", ("array", 2, g.scalar(False))), lambda g: ("ptr", g.struct([(b"F0", g.scalar(False))]))]


def gen_reuse(rng, g):
    """2..4 evaluations that all pass a global named g0: the same Go value again (the same pointer / slice / map, an equal copy of a
    value type), the same value after the host changed it in place, another value of the same type, a value of another type;
    scripts read g0 or first change their own view of it"""
    def new_type():
        if rng.chance(1, 2):
            return rng.choice(REUSE_SHAPES)(g)
        return g.type(3 if rng.chance(1, 3) else 2, not rng.chance(2, 3))
    t = new_type()
    cur = g.value(t)
    known = True
    steps = []
    for i in range(2 + rng.below(3)):
        st = {"t": t, "same": False, "poke": None, "how": "new"}
        if i > 0:
            r = rng.below(10)
            if r < 3:
                st.update(same=True, how="same")
            elif r < 6:
                pk = poke_value(g, t, cur)
                if pk is None:
                    st.update(same=True, how="same")
                else:
                    st.update(same=True, poke=pk[0], how="poked")
                    cur, known = pk[1], True
            elif r < 9:
                cur, known = g.value(t), True
            else:
                t = new_type()
                cur, known = g.value(t), True
                st["t"] = t
        st["v"] = cur
        st["known"] = known
        src = mutate_script(g, t, cur) if rng.chance(2, 5) else None
        if src is None:
            st["src"], st["mut"] = "g0", False
        else:
            st["src"], st["mut"] = src, True
            if script_reaches_go(t):
                known = False
        steps.append(st)
    return steps


def encode_reuse(steps, reuse):
    seq = []
    for st in steps:
        gl = {"t": t_json(st["t"]), "v": v_json(st["v"])}
        if st["same"]:
            gl["same"] = True
            if st["poke"] is not None:
                gl["poke"] = v_json(st["poke"])
        seq.append({"cells": [], "globals": [gl], "src": st["src"].encode().hex()})
    return json.dumps({"seq": seq, "reuse": reuse})


def reuse_oracle(steps, reused, fresh):
    """the Go value a script sees for a global is the one passed to THIS evaluation.  -> list of (step, aspect, why, known class)"""
    viol = []
    for i, st in enumerate(steps):
        gr = reused[i]
        case = {"kind": "global" if (not st["mut"] and st["known"]) else "reuse-step", "cells": [], "globals": [(st["t"], st["v"])],
                "script": ("expr", ("g", 0)), "meta": {"t": st["t"], "v": st["v"]}}
        # (what an assignment in a script may do - conversion of the literal - is judged by the set cases of the main stream, where
        # the known-finding classes are decided on the literal; here a changing script is held against its twin only)
        for aspect, why, cls in ([] if st["mut"] else oracle(case, gr)):
            viol.append((i, aspect, "evaluation %d on the reused VM (g0 %s, %s): %s" % (i, st["how"], tstr(st["t"]), why), cls))
        gf = fresh[i]
        a = (gr.get("outcome"), gr.get("obj"), gr.get("iface"))
        b = (gf.get("outcome"), gf.get("obj"), gf.get("iface"))
        if a != b and not any(v[0] == i for v in viol):
            viol.append((i, "reused-vm", "evaluation %d of the sequence, `%s` with g0 = %s : %s (%s), gives %s on the VM that ran the earlier "
                         "evaluations and %s on a VM of its own; the host handed over the same Go values both times%s" % (
                             i, st["src"].replace("\n", "; "), plain(st["v"])[:120], tstr(st["t"]), st["how"],
                             (a[0], a[2] or gr.get("raw", "")[:120]), (b[0], b[2] or gf.get("raw", "")[:120]),
                             "" if a[0] != "escaped" else ": " + gr.get("raw", "")[:160]), None))
    return viol


def run_reuse(res, obs, rng, n, work, known):
    """-> (evaluations, violations, known-class hits, stats)"""
    g = Gen(rng)
    seqs = [gen_reuse(rng, g) for _ in range(n)]
    lines_r = [encode_reuse(sq, True) for sq in seqs]
    lines_f = [encode_reuse(sq, False) for sq in seqs]
    out_r = run_lines(obs, lines_r, work, "reuse")
    out_f = run_lines(obs, lines_f, work, "fresh")
    viol, hits = [], {}
    stats = {"sequences": len(seqs), "steps": 0, "how": {}, "mutating_scripts": 0, "judged_against_the_go_value": 0, "bad": 0}
    if len(out_r) != len(seqs) or len(out_f) != len(seqs):
        return 0, [{"property": PROP, "kind": "harness-run-failed", "stage": "reuse sequences: line counts", "reused": len(out_r),
                    "fresh": len(out_f), "cases": len(seqs)}], hits, stats
    for sq, lr, lf, jl in zip(seqs, out_r, out_f, lines_r):
        jr, jf = json.loads(lr), json.loads(lf)
        sr, sf = jr.get("steps") or [], jf.get("steps") or []
        if len(sr) != len(sq) or len(sf) != len(sq) or any(x.get("outcome") == "BADCASE" for x in sr + sf):
            stats["bad"] += 1
            continue
        stats["steps"] += len(sq)
        for st in sq:
            stats["how"][st["how"]] = stats["how"].get(st["how"], 0) + 1
            stats["mutating_scripts"] += 1 if st["mut"] else 0
            stats["judged_against_the_go_value"] += 1 if (st["known"] and not st["mut"]) else 0
        for i, aspect, why, cls in reuse_oracle(sq, sr, sf):
            if cls is not None and cls in known:
                d = hits.setdefault(cls, {"n": 0, "examples": []})
                d["n"] += 1
                if len(d["examples"]) < 3:
                    d["examples"].append({"script": sq[i]["src"], "why": why})
            else:
                viol.append({"property": PROP, "kind": "oracle-violation", "aspect": aspect, "why": why, "case_kind": "reuse-sequence",
                             "script": " ;; ".join("[g0 %s] %s" % (st["how"], st["src"].replace("\n", "; ")) for st in sq),
                             "go_case": jl, "impl": sr, "fresh_vm": sf})
                break
    return 2 * stats["steps"], viol, hits, stats


# ------------------------------------------------------------------ histories over one proxied struct (harness/cmd/c08hist)

def gen_history(rng):
    ops = []
    held = False
    for _ in range(3 + rng.below(12)):
        k = rng.below(17)
        n = 10 + rng.below(90)
        if k == 0: ops.append("rq")
        elif k == 1: ops.append("ri")
        elif k == 2: ops.append("ra")
        elif k == 3: ops.append("wq:%d" % n)
        elif k == 4: ops.append("wi:%d" % n)
        elif k == 5: ops.append("wa:%d" % n)
        elif k in (6, 7): ops.append("reload")
        elif k == 8: ops.append("seti:%d" % n)
        elif k == 9: ops.append("seta:%d" % n)
        elif k == 10: ops.append("swap")
        elif k == 11: ops.append(rng.choice(["gq", "gi", "ga"]))
        elif k == 12:
            ops.append("hold"); held = True
        elif k == 13 and held: ops.append("rh")
        elif k == 14 and held: ops.append("wh:%d" % n)
        elif k == 15: ops.append("sq:%d" % n)
        else: ops.append(rng.choice(["rq", "ra", "ri"]))
    # end with a look at everything from the script's side
    ops += ["rq", "ri", "ra"]
    return ops


def model_history(ops):
    """plain Go pointer semantics: Quota / Spare / Any hold references to Quota objects, Inner is a value inside srv"""
    heap = {0: 1, 1: 7, 2: 3}      # object id -> Max
    quota, spare, anyp, inner, q = 0, 1, 2, 2, None
    out = []
    nxt = [3]

    def new(v):
        heap[nxt[0]] = v
        nxt[0] += 1
        return nxt[0] - 1
    for op in ops:
        op, _, arg = op.partition(":")
        n = int(arg) if arg else 0
        if op in ("rq", "gq"): out.append(heap[quota])
        elif op in ("ri", "gi"): out.append(inner)
        elif op in ("ra", "ga"): out.append(heap[anyp])
        elif op == "wq": heap[quota] = n
        elif op == "wi": inner = n
        elif op == "wa": heap[anyp] = n
        elif op == "reload": quota = new(heap[quota] * 100 + 1)
        elif op == "seti": inner = n
        elif op == "seta": anyp = new(n)
        elif op == "swap": quota, spare = spare, quota
        elif op == "hold": q = quota
        elif op == "rh": out.append(heap[q])
        elif op == "wh": heap[q] = n
        elif op == "sq": quota = new(n)
    return out, (heap[quota], inner, heap[anyp], heap[spare])


def run_histories(res, rng, n):
    """-> (evaluated, violations)"""
    exe, err = C.go_build("c08hist")
    if not exe:
        res.violation({"property": PROP, "kind": "harness-build-failed", "stage": "go build c08hist", "log": err[-3000:]}, nofail=True, tag="build")
        return 0, None
    hs = [gen_history(rng) for _ in range(n)]
    hs = [["rq", "reload", "rq", "wq:5", "gq", "rq"], ["hold", "reload", "rh", "rq", "wh:50", "rq", "gq", "rh"],
          ["ra", "seta:8", "ra", "wa:6", "ga"], ["rq", "swap", "rq", "wq:9", "swap", "rq", "gq"]] + hs
    p = subprocess.run([exe], input="\n".join(" ".join(h) for h in hs) + "\n", stdout=subprocess.PIPE, stderr=subprocess.PIPE,
                       universal_newlines=True, timeout=900)
    lines = p.stdout.split("\n")
    viol = []
    for h, line in zip(hs, lines):
        want_out, want_go = model_history(h)
        want = "OK %s | GO %d %d %d %d" % (",".join(str(x) for x in want_out), want_go[0], want_go[1], want_go[2], want_go[3])
        if line.strip() != want:
            viol.append({"property": PROP, "kind": "oracle-violation", "aspect": "field-read-is-current",
                         "why": "a history of script-side reads / writes through nested fields of one proxied struct, interleaved with Go-side "
                                "changes of those fields, does not show Go's pointer semantics: a read must give the contents the field has "
                                "NOW, a write must land in the struct the field points to NOW",
                         "history": " ".join(h), "impl": line.strip()[:300], "expected": want,
                         "script": "srv := &Srv{Quota:&Quota{Max:1}, Spare:&Quota{Max:7}, Inner:Quota{Max:2}, Any:&Quota{Max:3}}; ops: see harness/cmd/c08hist"})
    return len(hs), viol


def load_known_all():
    """known findings of this property from known_findings.jsonl and the builders' known_findings.<x>.jsonl"""
    import glob
    out = {}
    for p in [os.path.join(C.VERIF, "known_findings.jsonl")] + sorted(glob.glob(os.path.join(C.VERIF, "known_findings.*.jsonl"))):
        if not os.path.exists(p):
            continue
        for line in open(p):
            line = line.strip()
            if not line or line.startswith("#"):
                continue
            j = json.loads(line)
            if j.get("property") == PROP and not j.get("fixed") and j.get("class"):
                out[j["class"]] = j
    return out


def run_shapes(res, rng, n_param_calls):
    """proxied Go methods with every shape of parameter and result list (lib/c08shape.py, harness/cmd/c08shape)
    -> (evaluated, violations, known hits, stats) or None when the tool does not build"""
    from lib import c08shape
    zoo = os.path.join(C.VERIF, "harness", "cmd", "c08shape", "zoo.go")
    text = c08shape.zoo_source()
    if not os.path.exists(zoo) or open(zoo).read() != text:
        with open(zoo, "w") as f:
            f.write(text)
    exe, err = C.go_build("c08shape")
    if not exe:
        res.violation({"property": PROP, "kind": "harness-build-failed", "stage": "go build c08shape", "log": err[-3000:]}, nofail=True, tag="build")
        return None
    cases = c08shape.gen_calls(rng, n_param_calls)
    p = subprocess.run([exe], input="\n".join(json.dumps({"src": c["src"]}) for c in cases) + "\n", stdout=subprocess.PIPE,
                       stderr=subprocess.PIPE, universal_newlines=True, timeout=1800)
    lines = [l for l in p.stdout.split("\n") if l.strip()]
    if len(lines) != len(cases):
        res.violation({"property": PROP, "kind": "harness-run-failed", "stage": "c08shape line counts", "got": len(lines), "cases": len(cases),
                       "stderr": p.stderr[-2000:]}, nofail=True, tag="run")
        return None
    known = load_known_all()
    viol, hits = [], {}
    stats = {"result_calls": 0, "param_calls": 0, "outcomes": {}, "result_shapes": len(c08shape.result_shapes()),
             "param_shapes": len(c08shape.param_shapes()), "error_not_last_ok": 0}
    for c, line in zip(cases, lines):
        g = json.loads(line)
        stats["result_calls" if c["kind"] == "result" else "param_calls"] += 1
        key = c["kind"] + ":" + g.get("outcome", "?")
        stats["outcomes"][key] = stats["outcomes"].get(key, 0) + 1
        if c["kind"] == "result" and "E" in c["shape"][:-1] and g.get("outcome") == "ok":
            stats["error_not_last_ok"] += 1
        j = c08shape.judge(c, g)
        if j is None:
            continue
        why, cls = j
        if cls is not None and cls in known:
            d = hits.setdefault(cls, {"n": 0, "examples": []})
            d["n"] += 1
            if len(d["examples"]) < 3:
                d["examples"].append({"script": c["src"], "why": why})
        else:
            viol.append({"property": PROP, "kind": "oracle-violation", "aspect": "method-shape", "why": why, "case_kind": "shape:" + c["kind"],
                         "script": c["src"], "shape_case": {k: v for k, v in c.items()}, "impl": g,
                         "globals": "z = &Zoo{}, zv = ZooV{}, zp = &ZooV{}, ze = &ZooE{Zoo: &Zoo{}}, pt = &Pt{X: 3}; methods: harness/cmd/c08shape/zoo.go"})
    return len(cases), viol, hits, stats


def run(res):
    obs, err = C.go_build("c08obs")
    if not obs:
        res.violation({"property": PROP, "kind": "harness-build-failed", "stage": "go build c08obs", "log": err[-3000:]},
                      nofail=True, tag="build")
        return
    proved = C.prove(res, PROP)
    if proved and res.tier == "thorough":
        if not C.coqchk(res, PROP):
            proved = False
            res.broken = {"log_tail": "coqchk rejected the .vo closure: " + res.coverage.get("coqchk", {}).get("tail", ""), "errors": []}
    model, err = C.build_extracted("conv", "ExtractConv.v", "conv_driver.ml")
    if not model:
        res.violation({"property": PROP, "kind": "model-build-failed", "stage": "extraction", "log": err[-3000:],
                       "broken": getattr(res, "broken", None)}, nofail=True, tag="extract")
        return
    os.makedirs(C.WORK, exist_ok=True)
    work = tempfile.mkdtemp(prefix="c08-", dir=C.WORK)
    try:
        body(res, obs, model, work, proved)
    finally:
        shutil.rmtree(work, ignore_errors=True)


UNSUPPORTED = [{"k": "chan"}, {"k": "func"}, {"k": "complex"}, {"k": "mapint"}]


def body(res, obs, model, work, proved):
    tier = res.tier
    rng = C.Rng(res.seed)
    cov = res.coverage
    n_types = 3000 if tier == "quick" else 50000
    per_type = 3
    known = {k.get("class"): k for k in load_known() if k.get("class")}
    cases = gen_cases(rng, n_types, per_type)
    enc = [encode_case(c) for c in cases]
    keep = [(c, e) for c, e in zip(cases, enc) if e[0] is not None]
    for c, e in keep:
        c["meta"]["src"] = e[2]
    C.log("C08: %d cases generated" % len(keep))
    go = run_lines(obs, [e[0] for c, e in keep], work, "go")
    mo = run_lines(model, [e[1] for c, e in keep], work, "mo")
    C.log("C08: implementation and model runs done")
    if len(go) != len(keep) or len(mo) != len(keep):
        res.violation({"property": PROP, "kind": "harness-run-failed", "stage": "line counts", "go": len(go), "model": len(mo),
                       "cases": len(keep)}, nofail=True, tag="run")
        return
    # types outside the quantifier: rejected with an error or with a panic?
    uns_lines = [json.dumps({"cells": [], "globals": [{"t": t, "v": "nil"}], "src": "31"}) for t in UNSUPPORTED]
    uns = [json.loads(x) for x in run_lines(obs, uns_lines, work, "uns", jobs=1)]

    corr = []
    oracle_viol = []
    known_hits = {}
    stats = {"cases": len(keep), "kinds": {}, "outcomes": {}, "model_unsup": 0, "bad": 0}
    nontrivial = set()
    samples = []

    def note(case, g, v):
        aspect, why, cls = v
        if cls is not None and cls in known:
            d = known_hits.setdefault(cls, {"n": 0, "examples": []})
            d["n"] += 1
            if len(d["examples"]) < 3:
                d["examples"].append({"script": case["meta"].get("src"), "why": why})
        else:
            oracle_viol.append({"property": PROP, "kind": "oracle-violation", "aspect": aspect, "why": why,
                                "case_kind": case["kind"], "script": case["meta"].get("src"),
                                "go_case": case["_json"], "model_case": case["_tok"], "impl": g})

    for (c, e), gl, ml in zip(keep, go, mo):
        c["_json"], c["_tok"] = e[0], e[1]
        g = json.loads(gl)
        stats["kinds"][c["kind"]] = stats["kinds"].get(c["kind"], 0) + 1
        stats["outcomes"][g["outcome"]] = stats["outcomes"].get(g["outcome"], 0) + 1
        if g["outcome"] == "BADCASE" or ml.startswith("BADINPUT"):
            stats["bad"] += 1
            corr.append({"stage": "harness", "script": e[2], "impl": g, "model": ml[:300]})
            continue
        for v in oracle(c, g):
            note(c, g, v)
        if g["outcome"] == "ok" and c["kind"] in ("set", "call") or c["kind"] in ("global", "field") and len(e[1]) > 60:
            nontrivial.add(e[1])
        m = ml.split("\t")
        if m[0] == "UNSUP":
            stats["model_unsup"] += 1
            continue
        gm = [g["outcome"], g.get("obj") or "-", g.get("iface") or "-", " ".join(x for x in g["cells"] if x != "rec"), " ".join(g["got"])]
        m = (m + ["", "", "", "", ""])[:5]
        if g["outcome"] != "ok":
            gm[1] = gm[2] = "-"
            gm[4] = ""
        if m[0] != "ok":
            m[1] = m[2] = "-"
            m[4] = ""
        if gm != m:
            if len(corr) < 40:
                which = [["outcome", "object", "interface", "heap", "received"][i] for i in range(5) if gm[i] != m[i]]
                corr.append({"stage": "convert/" + c["kind"], "differs_in": which, "script": e[2], "model_case": e[1][:1500],
                             "go_case": e[0][:1500], "impl": gm, "model": m, "impl_raw": g.get("raw", "")})
        n_seen = stats["kinds"].get(c["kind"], 0)
        if len(samples) < 10 and n_seen % 211 == 5:
            samples.append({"kind": c["kind"], "script": e[2], "impl": gm, "model": m})
    for t, g in zip(UNSUPPORTED, uns):
        if g["outcome"] in ("panic", "escaped"):
            case = {"kind": "global", "meta": {"unsupported": True, "src": "WithGlobal of a %s value" % t["k"]}, "cells": [], "globals": [],
                    "script": ("expr", ("g", 0)), "_json": json.dumps(t), "_tok": ""}
            raw = g.get("raw", "")
            cls = "unsupported-type" if "invalid global provided" in raw else None
            note(case, g, ("no-panic", "a value of unsupported kind %s is rejected by a panic in the caller of Eval: %s" % (t["k"], raw[:120]), cls))

    nh, hviol = run_histories(res, rng, 600 if res.tier == "quick" else 20000)
    if hviol is None:
        return
    oracle_viol += hviol
    sh = run_shapes(res, rng, 700 if res.tier == "quick" else 12000)
    if sh is None:
        return
    ns, sviol, shits, sstats = sh
    oracle_viol += sviol
    for cls, d in shits.items():
        known.setdefault(cls, load_known_all()[cls])
        kd = known_hits.setdefault(cls, {"n": 0, "examples": []})
        kd["n"] += d["n"]
        kd["examples"] += d["examples"][:max(0, 3 - len(kd["examples"]))]
    cov["method_shapes"] = dict(sstats, what="proxied Go methods whose behaviour is determined by their name (generated zoo): every result list of "
                                "0-3 results over int, string, error, any, *struct, []int, map[string]int, float64, bool, uint8, struct (and some of 4-5) "
                                "with `error` at any position and several errors, every combination of errors set / nilable results nil; "
                                "parameter lists of 0-3 parameters over int, string, any, []int, *struct, float64, bool with context.Context first "
                                "and variadic tails, called with exact arguments, one argument of a wrong kind, one missing, one too many; pointer "
                                "receivers, value receivers (by value and by pointer), methods promoted from an embedded pointer. Oracle from the name "
                                "and the arguments alone: the script gets what Go returns (none: nil, one: the value, several: the list) or the "
                                "error that is set; a method receives exactly the representable arguments; never a panic")
    nr, rviol, rhits, rstats = run_reuse(res, obs, rng, 1500 if res.tier == "quick" else 25000, work, known)
    oracle_viol += [v for v in rviol if v.get("kind") == "oracle-violation"]
    corr += [{"stage": v.get("stage"), "impl": v} for v in rviol if v.get("kind") != "oracle-violation"]
    for cls, d in rhits.items():
        kd = known_hits.setdefault(cls, {"n": 0, "examples": []})
        kd["n"] += d["n"]
        kd["examples"] += d["examples"][:max(0, 3 - len(kd["examples"]))]
    cov["reuse_sequences"] = dict(rstats, what="2..4 evaluations that pass a global under the same name: each sequence runs on ONE VM "
                                  "(vm.NewEmpty + risor.WithVM) and, with the same Go values and host-side changes, on a new VM per evaluation; "
                                  "the same pointer / slice / map again, after the host stored new contents in place, an equal copy of a struct "
                                  "/ array value after a script changed ITS view, another value, another type; every observation on the reused "
                                  "VM must equal the one on a VM of its own and (for reads of a value the host knows) the Go value handed to "
                                  "THIS evaluation")
    cov["histories"] = {"evaluated": nh, "what": "script-side reads / writes through pointer, interface and struct-valued fields of one proxied "
                        "struct interleaved with Go-side replacements of those fields (methods), references kept by the script; expected "
                        "observations from a reference model of Go's pointer semantics (checks/c08.py model_history)"}
    cov["evaluations"] = len(keep) + nh + nr + ns
    cov["distinct_nontrivial"] = len(nontrivial)
    cov["rule"] = ("%d cases: Go types built with reflect (StructOf/SliceOf/ArrayOf/MapOf/PointerTo) to depth 3 over bool, all sized "
                   "ints/uints, floats, string, byte, time.Time, interface{} and a zoo of 16 declared named types, values incl. zero, nil, "
                   "extremes; as globals (result object and result.Interface()), as struct fields read through a proxy, written from script "
                   "literals / from other Go values and read back (Go-side struct state and script-side value), as arguments and results of a "
                   "zoo of 55 methods; every evaluation under recover; each observation compared with the extracted Gallina model and judged by "
                   "an independent oracle (documented widening, read-back, exact arguments); plus histories over one proxied struct and "
                   "sequences of evaluations on one reused VM that pass the same-named global again (coverage.reuse_sequences), plus a generated zoo of methods "
                   "with every shape of parameter and result list (coverage.method_shapes). Non-trivial = distinct set/call cases that "
                   "succeeded plus global/field cases of compound types." % len(keep))
    cov["samples"] = samples
    cov["correspondence"] = {"differences": len(corr), "stats": stats}
    cov["input_distribution"] = {"kinds": stats["kinds"], "outcomes": stats["outcomes"]}
    cov["known_finding_observations"] = {k: v for k, v in known_hits.items()}
    res.assumptions += [
        "reflect's own behaviour (assignability, Set/Append/SetMapIndex/Call panics, StructOf) is modelled, not verified; validated by the comparison",
        "float arithmetic is modelled on IEEE bit patterns for exact conversions only; inexact float32/int conversions are skipped (UNSUP)",
        "pointer aliasing is modelled for pointers to structs held in harness-owned cells; pointees reached through slices/maps are by-value",
        "script maps are iterated in random order by the implementation: cases with two failing entries in one map are not generated",
    ]
    for cls, d in known_hits.items():
        res.known_finding("%s [%d observations, e.g. `%s`: %s]" % (known[cls].get("what", cls), d["n"], (d["examples"][0]["script"] or "").replace("\n", "; ")[:80],
                                                                  d["examples"][0]["why"][:160]))
    for v in oracle_viol[:int(os.environ.get("C08_MAXV", "10"))]:
        res.violation(v)
    if oracle_viol:
        return
    if not proved:
        res.violation({"property": PROP, "kind": "proof-obligation-broken", "theorem_file": "coq/props/C08.v",
                       "broken": res.broken, "search": "%d cases: no failing input outside the known findings" % len(keep)},
                      nofail=True, tag="proof")
        return
    if corr:
        res.violation({"property": PROP, "kind": "correspondence-broken", "stage": corr[0].get("stage"),
                       "first_difference": corr[0], "differences": corr[:10],
                       "search": "oracle evaluated on all %d implementation runs: no failing input outside the known findings" % len(keep)},
                      nofail=True, tag="corr")


def replay(data):
    print(json.dumps(data, indent=1)[:6000])
    obs, err = C.go_build("c08obs")
    if not obs:
        print(err)
        return 2
    if data.get("shape_case"):
        exe, err = C.go_build("c08shape")
        if not exe:
            print(err)
            return 2
        p = subprocess.run([exe], input=(json.dumps({"src": data["script"]}) + "\n").encode(), stdout=subprocess.PIPE)
        print("implementation now: " + p.stdout.decode())
        from lib import c08shape
        j = c08shape.judge(data["shape_case"], json.loads(p.stdout.decode()))
        print("oracle: %s" % (j[0] if j else "ok"))
        return 1 if j and j[1] is None else 0
    line = data.get("go_case") or (data.get("first_difference") or {}).get("go_case")
    if line:
        p = subprocess.run([obs], input=(line + "\n").encode(), stdout=subprocess.PIPE)
        print(p.stdout.decode())
    return 0
