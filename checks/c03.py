"""C03 - no source text or script can crash or panic the embedding process."""
import json
import os
import resource
import select
import subprocess
import time
from concurrent.futures import ThreadPoolExecutor

from lib import common as C, core, gen, gen_threads, gen_options, gen_pairs
from checks import c20

PROP = "C03"
LEVEL = "proof"

PIECES = [" ", " ", "\t", "\n", "\r\n", ";", "a", "b1", "_x", "as", "if", "else", "for", "func", "return", "in", "not", "nil", "true", "false",
          "switch", "case", "default", "break", "continue", "var", "const", "range", "go", "defer", "import", "from", "struct",
          "0", "1", "42", "007", "0x1F", "0x", "1.5", "1.", "08", "9z", ".", ",", ":", ":=", "=", "==", "!", "!=", "<", "<=", "<<", "<-", ">", ">=", ">>",
          "+", "++", "+=", "-", "--", "-=", "*", "**", "*=", "/", "/=", "%", "&", "&&", "|", "||", "?", "~", "(", ")", "[", "]", "{", "}",
          "\"s\"", "\"a\\nb\"", "\"\\x41\"", "\"\\u00e9\"", "\"\\377\"", "\"\\q\"", "\"unterminated", "'t{x}'", "'{'", "'{a+}'", "`raw\nline`", "`open",
          "# c\n", "// c\n", "/* c */", "/* c", "é", "→", "\x00", ".as", "x.as", "len", "print", "try", "error", "sorted", "list", "map", "set",
          "string", "int", "getattr", "call", "chunk", "keys", "type", "any", "all", "reversed", "hash", "iter", "chan", "spawn"]

HOSTILE = [
    # (label, source); cyclic ones are the known finding
    ("deep-parens", "(" * 3000 + "1" + ")" * 3000),
    ("deep-lists", "[" * 3000 + "]" * 3000),
    ("deep-prefix", "!" * 3000 + "1"),
    ("long-sum", "1" + "+1" * 3000),
    ("deep-index", "a := [[0]]\na" + "[0]" * 3),
    ("deep-recursion", "func f(n) { return f(n+1) }; f(0)"),
    ("mutual-recursion", "func f(n) { return g(n) }\nfunc g(n) { return f(n) }\nf(1)"),
    ("deep-data", "x := []\nfor i := 0; i < 20000; i++ { x = [x] }\nx"),
    ("deep-data-eq", "x := []\ny := []\nfor i := 0; i < 20000; i++ { x = [x]; y = [y] }\nx == y"),
    ("deep-map", "m := {}\nfor i := 0; i < 20000; i++ { m = {a: m} }\nstring(m) != \"\""),
    ("big-stack", "[" + ", ".join(["1"] * 3000) + "]"),
    ("many-args", "func f() { return 1 }\nf(" + ", ".join(["1"] * 300) + ")"),
    ("unpack", "a, b := [1, 2, 3]"),
    ("callback-arity", "[1, 2].map(func() { return 1 })"),
    ("callback-error", "[1, 2].map(func(x) { return x / 0 })"),
    ("sorted-mixed", "sorted([1, \"a\", nil, [1]])"),
    ("sorted-callback", "sorted([3, 1, 2], func(a, b) { return a.nope })"),
    ("try-nest", "try(func() { try(func() { error(\"x\") }, func(e) { error(e) }) }, func(e) { return 1 })"),
    ("getattr", "getattr(1, \"x\")"),
    ("call-nil", "x := nil\nx()"),
    ("index-nil", "x := nil\nx[0]"),
    ("attr-nil", "x := nil\nx.y.z"),
    ("neg-slice", "[1, 2, 3][-10:10]"),
    ("str-index", "\"héllo\"[10]"),
    ("chunk0", "chunk([1, 2, 3], 0)"),
    ("int-parse", "int(\"99999999999999999999999\")"),
    ("div0", "1 / 0"),
    ("mod0", "1 % 0"),
    ("shift", "1 << 100"),
    ("neg-shift", "1 << -1"),
    ("pow", "2 ** 1000"),
    ("int-min", "x := -9223372036854775807 - 1\n[-x, x / -1, x % -1]"),
    ("set-unhashable", "{[1]}"),
    ("map-nonstring-key", "m := {}\nm[1] = 2"),
    ("spread-template", "'{'"),
    ("chan-nil-send", "c := nil\nc <- 1"),
    ("closed-chan", "c := chan(1)\nclose(c)\nclose(c)"),
    ("go-error", "go func() { return 1 / 0 }()\n1"),
    ("defer-panic", "func f() { defer func() { return 1 / 0 }()\nreturn 1 }\nf()"),
    ("iter-mutation", "l := [1, 2, 3]\nfor i, x := range l { l.append(x) ; if i > 50 { break } }\nlen(l)"),
    ("range-int-neg", "for i := range -5 { print(i) }"),
    ("import-missing", "import nothing_here"),
    ("from-import", "from a.b import c"),
    ("switch-bad-case", "switch 1 { case return, 2: 3\n }"),
    ("return-if", "return if"),
    ("empty-default", "switch 1 { default: }"),
    ("multi-line-token-error", "x := 1\ny := `a\nb` z"),
    ("json-cycle-free", "import json\njson.marshal({a: [1, {b: nil}]})"),
    ("repeat-negative", "import strings\nstrings.repeat(\"a\", -1)"),
    ("regexp-bad", "import regexp\nregexp.compile(\"(\")"),
    ("time-parse", "import time\ntime.parse(\"x\", \"y\")"),
    ("math-sqrt", "import math\nmath.sqrt(-1)"),
    ("byte-slice", "byte_slice([300])"),
    ("string-huge-index", "\"abc\"[9223372036854775807]"),
    ("list-neg-mul", "[1] * -1"),
]
# cyclic containers.  Comparing, ordering, marshalling and converting them to Go values (which is what a host does with a
# returned result) recurse without bound: the known finding.  Printing / stringifying them is guarded in the
# implementation (Inspect marks the container it is printing) and MUST return normally.
CYCLIC = [
    ("cyclic-result", "l := [1]\nl.append(l)\nl"),
    ("cyclic-result-two", "a := [1]\nb := [a]\na.append(b)\na"),
    ("cyclic-result-map", "m := {}\nl := [m]\nm[\"l\"] = l\nl"),
    ("cyclic-eq", "l := [1]\nl.append(l)\nl == l\n1"),
    ("cyclic-map", "m := {}\nm[\"self\"] = m\nm == m\n1"),
    ("cyclic-json", "import json\nl := [1]\nl.append(l)\njson.marshal(l)\n1"),
    ("cyclic-two", "a := [1]\nb := [a]\na.append(b)\nc := [1]\nd := [c]\nc.append(d)\na == c\n1"),
    ("cyclic-sorted", "l := [1]\nl.append(l)\nsorted([l, l])\n1"),
    ("cyclic-in", "l := [1]\nl.append(l)\nl in [l]\n1"),
]
CYCLIC_PRINT = [
    ("print-self", "l := [1]\nl.append(l)\nstring(l)"),
    ("print-two", "a := [1]\nb := [a]\na.append(b)\nstring(a)"),
    ("print-two-b", "a := [1]\nb := [a]\na.append(b)\nprint(b)\n'{a} {b}'"),
    ("print-three", "a := [1]\nb := [a]\nc := [b]\na.append(c)\nstring(c)"),
    ("print-map-list", "m := {}\nl := [m]\nm[\"l\"] = l\nstring(m) + string(l)"),
    ("print-map-self", "m := {}\nm[\"self\"] = m\nprint(m)\n1"),
    ("print-error", "a := [1]\nb := [a]\na.append(b)\ntry(func() { error(a) }, 1)"),
    ("print-hash", "l := [1]\nl.append(l)\nhash(string(l))"),
    ("print-nested-fresh", "a := [1]\nb := [a, a]\na.append(b)\nstring([a, b, [a]])"),
    ("len-keys", "m := {}\nm[\"self\"] = m\nl := [m]\nl.append(l)\n[len(l), keys(m), len(m)]"),
]


def load_known_all():
    """open known findings of this property: the shared file plus the per-agent files known_findings.<agent>.jsonl"""
    import glob
    import json
    out = list(C.load_known(PROP))
    for p in sorted(glob.glob(os.path.join(C.VERIF, "known_findings.*.jsonl"))):
        for line in open(p):
            line = line.strip()
            if line and not line.startswith("#"):
                j = json.loads(line)
                if j.get("property") == PROP and not j.get("fixed"):
                    out.append(j)
    return out


def shared_container_fault(src, outcome):
    """Known-finding class `shared-script-container-written-by-threads`, decided on the input AND on the fault:
    (1) the script binds a top-level name to a map or set, starts threads (spawn / go) and somewhere writes that container
    (index assignment or a mutating method); (2) the process died of a concurrent-map fault and the goroutine that was running
    is inside a method of object.Map / object.Set - the script's own container - and not inside the VM."""
    import re
    if not (outcome.startswith("FATAL") and "concurrent map" in outcome and " FRAMES " in outcome):
        return False
    frames = outcome.split(" FRAMES ", 1)[1].split(" < ")
    own = [f for f in frames if not f.startswith("runtime.") and not f.startswith("internal/")]
    if not own or not re.match(r"object\.\(\*(Map|Set)\)\.", own[0]):
        return False
    if not re.search(r"\bspawn\(|\bgo\s+func|\.spawn\(", src):
        return False
    for m in re.finditer(r"(?m)^(\w+) := (\{|set\(|map\()", src):
        name = re.escape(m.group(1))
        if re.search(r"\b%s\[[^\]]*\]\s*(=|\+=|-=)[^=]" % name, src) or re.search(r"\b%s\.(add|update|delete|clear|pop|remove|set|setdefault)\(" % name, src):
            return True
    return False


def rejected_kind_panic(case, outcome):
    """Known-finding class `unsupported-global-kind-rejected-by-panic`, decided on the input AND on the fault: the option list
    holds a Go value of a kind the converters reject, and EVERY panic that escaped is the rejection itself."""
    if not gen_options.has_unsupported(case["opts"]):
        return False
    pan = [w for w in outcome.split(" ") if w.startswith("GOPANIC:")]
    if not pan or outcome.startswith("FATAL") or outcome == "HANG":
        return False
    for w in pan:
        text = w.split(":", 2)[2] if w.count(":") >= 2 else ""
        if not (text.startswith("invalid_global_provided:") or text.startswith("interface_conversion:_interface_{}_is_time.Duration")):
            return False
    return True


def set_limits():
    resource.setrlimit(resource.RLIMIT_AS, (12 * 1024 ** 3, 12 * 1024 ** 3))


def stress_line(src, mods, reps):
    """input line of c03obs for a script that is evaluated `reps` times and imports the modules `mods` (name -> source)"""
    return "@ %d %s%s" % (reps, src.encode("utf-8", "surrogateescape").hex(),
                          "".join(" %s=%s" % (m, t.encode("utf-8").hex()) for m, t in sorted(mods.items())))


def run_isolated(exe, sources, per_input_timeout=40, raw=False, first_death_only=False):
    """Run sources through the child; restart after a death / hang. Returns list of outcome strings.
    raw: the entries are input lines of c03obs already (see stress_line).
    first_death_only: stop at the first input that kills / hangs the child (the later ones stay None)."""
    results = [None] * len(sources)
    i = 0
    while i < len(sources):
        p = subprocess.Popen([exe], stdin=subprocess.PIPE, stdout=subprocess.PIPE, stderr=subprocess.PIPE, preexec_fn=set_limits)
        base = i
        data = "".join((s if raw else s.encode("utf-8", "surrogateescape").hex()) + "\n" for s in sources[base:]).encode()

        import threading

        def feed():
            try:
                p.stdin.write(data)
                p.stdin.close()
            except Exception:
                pass
        th = threading.Thread(target=feed, daemon=True)
        th.start()
        current = None
        died = False
        last = time.time()
        while True:
            r, _, _ = select.select([p.stdout], [], [], 1.0)
            if r:
                line = p.stdout.readline()
                if not line:
                    break
                last = time.time()
                line = line.decode("utf-8", "replace").rstrip("\n")
                if line.startswith("BEGIN "):
                    current = base + int(line[6:])
                elif line.startswith("R "):
                    f = line.split(" ", 2)
                    results[base + int(f[1])] = f[2] if len(f) > 2 else ""
                    current = None
            else:
                if p.poll() is not None:
                    break
                if time.time() - last > per_input_timeout:
                    p.kill()
                    if current is not None:
                        results[current] = "HANG"
                    died = True
                    break
        p.wait()
        err = b""
        try:
            err = p.stderr.read()
        except Exception:
            pass
        if current is not None and results[current] is None:
            etext = err.decode("utf-8", "replace")
            fatal = [l for l in etext.split("\n") if l.startswith("fatal error") or l.startswith("panic:") or l.startswith("runtime:") or "signal " in l]
            # the frames of the goroutine that was running when the runtime gave up
            frames = []
            at = etext.find("[running]")
            if at >= 0:
                import re
                frames = [re.sub(r"\([^()]*\)$", "", l.strip()).replace("github.com/risor-io/risor/", "")
                          for l in etext[at:].split("\n")[1:40] if l and not l.startswith("\t") and not l.startswith("goroutine")][:8]
            results[current] = "FATAL rc=%s %s" % (p.returncode, ((fatal[0] if fatal else etext[-600:].split("\n")[0])[:200]))
            if frames:
                results[current] += " FRAMES " + " < ".join(frames)
            died = True
        if not died and all(r is not None for r in results[base:]):
            break
        if died and first_death_only:
            break
        # continue after the culprit
        nxt = base
        while nxt < len(sources) and results[nxt] is not None:
            nxt += 1
        if nxt == base and current is None:
            # child died before the first BEGIN: give up on this one
            results[base] = "FATAL before-begin rc=%s" % p.returncode
            nxt = base + 1
        i = nxt
    return results


def soup(rng, n):
    out = []
    for _ in range(n):
        k = 1 + rng.below(14)
        out.append("".join(rng.choice(PIECES) if rng.chance(5, 6) else rng.choice(PIECES) + " " for _ in range(k)))
    return out


def run(res):
    tier = res.tier
    nsoup = 6000 if tier == "quick" else 300000
    nprog = 300 if tier == "quick" else 5000
    nmut = 4000 if tier == "quick" else 200000
    ntrunc = 2000 if tier == "quick" else 50000
    cov = res.coverage

    tools = core.build(res, PROP, go_tools=["lexobs"], models=[])
    if tools is None:
        return
    exe, err = C.go_build("c03obs")
    if not exe:
        res.violation({"property": PROP, "kind": "harness-build-failed", "stage": "go build c03obs", "log": err[-3000:]}, nofail=True, tag="build")
        return
    proved = C.prove(res, PROP)

    rng = C.Rng(res.seed)
    progs = [gen.Gen(rng, features=["template"] if i % 3 == 0 else [], budget=35).program() for i in range(nprog)]
    import tempfile, shutil
    work = tempfile.mkdtemp(prefix="c03-", dir=C.WORK)
    try:
        st0 = core.stages(progs, tools, work, want=("tok",))
    finally:
        shutil.rmtree(work, ignore_errors=True)
    inputs = []    # (kind, source)
    for label, s in HOSTILE:
        inputs.append(("hostile:" + label, s))
    # the same hostile code on a thread the script starts: a Go-level panic there (frame or operand stack overflow, a
    # panicking builtin) has no caller to return to - it must still come back as an error of wait() / be contained, and
    # never end the embedding process
    for label, s in HOSTILE:
        if len(s) < 4000:
            inputs.append(("hostile-spawn:" + label, "t := spawn(func() {\n" + s + "\n})\nt.wait()"))
            inputs.append(("hostile-go:" + label, "go func() {\n" + s + "\n}()\nfor i := range 200000 { }\n1"))
    # template strings: every arrangement of braces, empty / blank / comment-only / broken interpolations
    tfr = ["{", "}", "{}", "{ }", "{x}", "{1+}", "a", "{{", "}}", "{\"b\"}", "{\n}", "\\{", "{/*c*/}", "{x}{}", " ", "{x.y}", "{[}", "{x}-{ }-{x}"]
    for i in range(120 if tier == "quick" else 3000):
        body = "".join(rng.choice(tfr) for _ in range(1 + rng.below(5)))
        inputs.append(("template", "x := 5\n'" + body + "'"))
    for body in ("{}", "a{}b", "{ }", "{x}-{ }-{x}", "{}{}", "{x}{}", "{/*c*/}", "{#c\n}"):
        inputs.append(("template", "x := 5\n'" + body + "'"))
    # the host calls into the code by name (risor.Call): names that were declared but never assigned, names of values
    # that are not functions, functions that fail, overflow the stack or expect arguments
    for src in ("if false { y := 1 }", "for i := range 0 { z := i }", "func f() { return 1 }\nif false { g := f }",
                "x := 1\nswitch x { case 2: w := 3 }", "f := func(a, b) { return a + b }", "func f() { return f() }",
                "func f() { return [1][5] }", "func f() { error(\"no\") }", "c := chan()\nl := [1]\nm := {1: 2}",
                "try(func() { q := [1][2] })", "const k = 1\nfunc g(a=1) { return a }"):
        inputs.append(("host-call", src))
    inputs.append(("thread:deep-recursion", "func f(n) { return f(n+1) }\nt := spawn(f, 0)\nt.wait()"))
    inputs.append(("thread:deep-recursion-go", "func f(n) { return f(n+1) }\ngo f(0)\nfor i := range 300000 { }\n1"))
    inputs.append(("thread:big-stack", "t := spawn(func() { return [" + ", ".join(["1"] * 3000) + "] })\nt.wait()"))
    inputs.append(("thread:nested", "func f(n) { return f(n+1) }\nt := spawn(func() { return spawn(f, 0).wait() })\nt.wait()"))
    inputs.append(("thread:in-callback", "func f(n) { return f(n+1) }\n[1, 2].each(func(x) { spawn(f, x).wait() })"))
    # threads that exercise, in parallel, what the VM and its clones set up lazily (code of literals at their first call, imports,
    # callbacks, error paths), each script evaluated several times; and threads writing one script-level container
    extra = {}        # index in inputs -> (modules, repetitions)
    nstress, reps = (96, 6) if tier == "quick" else (4000, 8)
    for src, mods, tags in gen_threads.gen_scripts(rng, nstress):
        extra[len(inputs)] = (mods, reps)
        inputs.append(("threads:stress:" + "+".join(sorted(set(tags))), src))
    for label, src in gen_threads.shared_container_scripts():
        extra[len(inputs)] = ({}, 3)
        inputs.append(("threads:shared-container:" + label, src))
    # cross-type operations: every two-operand construct (operators, comparisons, membership, switch cases, equality of containers
    # holding the values, hashing, comparison-driven builtins and methods) over ordered PAIRS of the value kinds the default
    # globals produce; small values, nothing cyclic / deep / blocking.  One script per pair (each operation in its own try()),
    # plus one tiny script per pair for each operation whose failure ends the evaluation.  Own random stream.
    prng = C.Rng(res.seed ^ 0x7061697273)
    pair_of = {}      # index in inputs -> (va, vb) of a pair script that holds all of gen_pairs.OPS
    for plabel, va, vb in gen_pairs.gen_pairs(prng, 600 if tier == "quick" else 0, everything=(tier != "quick")):
        pair_of[len(inputs)] = (va, vb)
        inputs.append(("pairs:" + plabel, gen_pairs.script(va, vb)))
        for op in gen_pairs.TAIL_OPS:
            inputs.append(("pairs-one:" + plabel, gen_pairs.single(va, vb, op)))
    for label, s in CYCLIC:
        inputs.append(("cyclic:" + label, s))
    for label, s in CYCLIC_PRINT:
        inputs.append(("cyclic-print:" + label, s))
    cdir = os.path.join(C.VERIF, "corpus", "C03")
    if os.path.isdir(cdir):
        for f in sorted(os.listdir(cdir)):
            inputs.append(("corpus:" + f, open(os.path.join(cdir, f), encoding="utf-8", errors="surrogateescape").read()))
    for s in soup(rng, nsoup):
        inputs.append(("soup", s))
    toks = [c20.parse_tokens(t) for t in st0["tok_go"]]
    j = 0
    nm = 0
    while nm < nmut and j < 50 * nmut:
        i = j % len(progs)
        j += 1
        if toks[i]:
            inputs.append(("mutant", c20.mutate(rng, progs[i], toks[i])))
            nm += 1
    # a line break (or a stray separator) right after an opening bracket, an operator or a separator of a valid program
    cnt = 0
    j = 0
    while cnt < nmut // 2 and j < 50 * nmut:
        i = j % len(progs)
        j += 1
        cand = [t for t in (toks[i] or []) if progs[i][t[1]:t[2] + 1] in ("[", "(", "{", ",", ":", ":=", "=", "+", "-", "*", "==", "&&", "||", "?", "!", "in", "return", "case", ".", "<-", "|")]
        if not cand:
            continue
        t = rng.choice(cand)
        ins = rng.choice(["\n", "\n", "\n\n", "\r\n", ";", " \n ", "\n#c\n", "\n//c\n", "/*c*/\n"])
        inputs.append(("break-after", progs[i][:t[2] + 1] + ins + progs[i][t[2] + 1:]))
        cnt += 1
    cnt = 0
    while cnt < ntrunc:
        i = rng.below(len(progs))
        if toks[i]:
            t = rng.choice(toks[i])
            inputs.append(("truncation", progs[i][:t[1]] if rng.chance(1, 2) else progs[i][:t[2] + 1]))
            cnt += 1

    # the embedding API driven by OPTION values (no hostile source involved): deny lists and overrides with every shape of
    # name (plain / dotted / nested / unknown / head not a module / head removed or replaced by the same list / degenerate),
    # host globals of every supported kind (and the rejected kinds), switches, OS / importer / VM options, any order, the
    # same option twice; each configuration goes through NewConfig + accessors, Eval, Compile + EvalCode, Call, several times
    # (deny lists and overrides are Go maps).  Own random stream: the other streams stay as they were.
    orng = C.Rng(res.seed ^ 0x6f7074696f6e73)
    rc_g, out_g, _ = C.run([exe], input=b"?globals\n", timeout=60)
    globs = gen_options.parse_globals(out_g.decode("utf-8", "replace") if isinstance(out_g, bytes) else out_g)
    if len(globs) < 10:
        res.violation({"property": PROP, "kind": "harness-failed", "stage": "c03obs ?globals", "log": "only %d default globals reported" % len(globs)},
                      nofail=True, tag="build")
        return
    og = gen_options.OptGen(orng, globs)
    optcases = og.systematic() + [og.random_case() for _ in range(500 if tier == "quick" else 20000)]
    opt_reps = 6 if tier == "quick" else 12
    opt_of = {}       # index in inputs -> case
    for c in optcases:
        opt_of[len(inputs)] = c
        inputs.append(("options:" + c["family"], json.dumps(c["opts"], ensure_ascii=False)))
    cov["default_globals_seen"] = len(globs)

    # cyclic inputs each in their own child (they are expected to kill it): keeps the others in big batches
    nsh = C.NCPU
    order = [k for k in range(len(inputs)) if not inputs[k][0].startswith("cyclic")]
    cyc = [k for k in range(len(inputs)) if inputs[k][0].startswith("cyclic")]
    shards = [order[s::nsh] for s in range(nsh)]
    outcomes = [None] * len(inputs)

    def line_of(k):
        if k in opt_of:
            return gen_options.line_of(opt_of[k], opt_reps)
        if k in extra:
            return stress_line(inputs[k][1], extra[k][0], extra[k][1])
        return inputs[k][1].encode("utf-8", "surrogateescape").hex()

    def work_shard(idx):
        r = run_isolated(exe, [line_of(k) for k in idx], raw=True)
        return idx, r
    with ThreadPoolExecutor(max_workers=nsh) as ex:
        for idx, r in ex.map(work_shard, shards + [[k] for k in cyc]):
            for k, o in zip(idx, r):
                outcomes[k] = o

    # timeouts are not observations: an input whose child gave no answer within the watchdog's bound while 16 children (and
    # other checks) shared the machine is run again, alone, with a generous bound; only that second observation is judged
    hung = [k for k in range(len(inputs)) if outcomes[k] == "HANG"]
    for k in hung[:4]:
        outcomes[k] = run_isolated(exe, [line_of(k)], per_input_timeout=400, raw=True)[0]
    for k in hung[4:]:
        outcomes[k] = "UNOBSERVED-slow" if not any(outcomes[j] == "HANG" for j in hung[:4]) else "HANG"
    cov["rerun_alone_after_watchdog"] = len(hung)

    def is_bad(o):
        return o is None or o.startswith("FATAL") or o == "HANG" or "GOPANIC" in o or o == "NO-RESULT"

    # a pair script whose evaluation ended early with an error (an operation failed in a way try() does not catch: a recovered
    # panic, an arity error) did not run its later operations: those scripts are run again, one operation per script
    split = [k for k in sorted(pair_of) if not is_bad(outcomes[k]) and "eval:OK" not in outcomes[k]]
    first_split = len(inputs)
    for k in split:
        va, vb = pair_of[k]
        for op in gen_pairs.OPS:
            inputs.append(("pairs-one:" + inputs[k][0].split(":", 1)[1], gen_pairs.single(va, vb, op)))
    if len(inputs) > first_split:
        new = list(range(first_split, len(inputs)))
        outcomes += [None] * len(new)
        with ThreadPoolExecutor(max_workers=nsh) as ex:
            for idx, r in ex.map(work_shard, [new[s_::nsh] for s_ in range(nsh)]):
                for k, o in zip(idx, r):
                    outcomes[k] = o
        for k in [k for k in new if outcomes[k] == "HANG"][:4]:
            outcomes[k] = run_isolated(exe, [line_of(k)], per_input_timeout=400, raw=True)[0]
    cov["pair_scripts"] = len(pair_of)
    cov["pair_operations_per_script"] = len(gen_pairs.OPS) + len(gen_pairs.TAIL_OPS)
    cov["pair_scripts_split_into_single_operations"] = len(split)
    cov["pair_value_kinds"] = len(gen_pairs.primaries())

    # a pair script that killed the child: find the operation, so that the replay is a script of one operation
    minimised = {}

    def minimise(k):
        va, vb = pair_of[k]
        singles = [gen_pairs.single(va, vb, op) for op in gen_pairs.OPS]
        r = run_isolated(exe, singles, first_death_only=True)
        for s_, o in zip(singles, r):
            if o is not None and (o.startswith("FATAL") or o == "HANG"):
                return k, (s_, o)
        return k, None
    dead = [k for k in sorted(pair_of) if outcomes[k] is not None and (outcomes[k].startswith("FATAL") or outcomes[k] == "HANG")][:10]
    if dead:
        with ThreadPoolExecutor(max_workers=min(len(dead), 5)) as ex:
            for k, m in ex.map(minimise, dead):
                if m:
                    minimised[k] = m

    oracle = []
    hist = {}
    stage_hist = {}
    distinct = set()
    known_ids = set(kf.get("id") for kf in load_known_all())
    for k_in, ((kind, src), o) in enumerate(zip(inputs, outcomes)):
        kk = kind.split(":")[0] if not kind.startswith("threads:s") else ":".join(kind.split(":")[:2])
        if k_in in opt_of:
            kk = ":".join(kind.split(":")[:2])
        hist[kk] = hist.get(kk, 0) + 1
        if o is None:
            o = "NO-RESULT"
        key = "FATAL" if o.startswith("FATAL") else ("HANG" if o == "HANG" else ("GOPANIC" if "GOPANIC" in o else " ".join(x for x in o.split(" ") if not x.startswith("GOPANIC"))[:60]))
        stage_hist[key] = stage_hist.get(key, 0) + 1
        distinct.add(src)
        bad = o.startswith("FATAL") or o == "HANG" or "GOPANIC" in o or o == "NO-RESULT"
        if not bad:
            continue
        if kind.startswith("cyclic:"):
            res.known_finding("a container that (directly or indirectly) contains itself makes ==, in, sorted, json and the "
                              "conversion to Go values (Interface: what a host does with a returned result) recurse without "
                              "bound: fatal stack overflow of the embedding process (e.g. `l := [1]; l.append(l); l == l`); "
                              "printing / stringifying such a container is guarded and is checked")
            continue
        if "shared-script-container-written-by-threads" in known_ids and shared_container_fault(src, o):
            res.known_finding("several threads of one script writing the same script-level map or set (m[k] = v, s.add(x), update, delete) end the "
                              "embedding process with Go's `fatal error: concurrent map writes`: object.Map / object.Set are unsynchronised "
                              "(e.g. `m := {}; for i := range 8 { spawn(func(k) { for j := range 3000 { m[string(j)] = k } }, i) }`)")
            continue
        if k_in in opt_of:
            if "unsupported-global-kind-rejected-by-panic" in known_ids and rejected_kind_panic(opt_of[k_in], o):
                res.known_finding("a host global (or override) whose Go value is of a kind the converters do not support (chan, func, complex, "
                                  "uintptr, map with a non-string key, declared scalar types such as time.Duration) is rejected by a Go panic in the "
                                  "caller of Eval / EvalCode / Call (vm.New: `invalid global provided`), not by an error")
                continue
            c = opt_of[k_in]
            v = {"kind": "oracle-violation", "input_kind": kind, "options": c["opts"], "sources": c["sources"], "call": c["call"],
                 "repetitions": opt_reps, "outcome": o[:700],
                 "why": "the embedding API did not return normally for this CONFIGURATION (no hostile source involved): "
                        + ("the process died" if o.startswith("FATAL") else "no answer within the time limit" if o == "HANG" else
                           "a Go panic propagated to the caller of " + ", ".join(sorted(set(w.split(":")[1] for w in o.split(" ") if w.startswith("GOPANIC:")))))
                        + " (options are listed in the order given; deny lists and overrides are Go maps inside the Config, so every configuration is tried %d times)" % opt_reps}
            oracle.append(v)
            continue
        if k_in in minimised:
            # the operation of the pair script that kills the child on its own
            src, o = minimised[k_in]
        v = {"kind": "oracle-violation", "input_kind": kind, "source": src if len(src) < 4000 or k_in in extra or k_in in pair_of else src[:2000] + " ...[%d chars]" % len(src),
             "outcome": o[:700]}
        if kind.startswith("pairs"):
            v["operands"] = kind.split(":", 1)[1]
            v["reduced_to_one_operation"] = k_in in minimised or kind.startswith("pairs-one")
        if k_in in extra:
            v["modules"], v["evaluations_per_input"] = extra[k_in]
        oracle.append(v)
        v.update({
                       "why": "the embedding API did not return normally: " + ("the process died" if o.startswith("FATAL") else
                                                                              "no answer within the time limit (infinite loop)" if o == "HANG" else
                                                                              "a Go panic propagated to the caller")
                  + (" (the script was evaluated up to %d times: whether its threads collide depends on the schedule)" % extra[k_in][1] if k_in in extra else "")})
    cov["evaluations"] = len(inputs)
    cov["distinct_nontrivial"] = len(distinct)
    cov["rule"] = ("token soup over the real token alphabet plus builtin names, single-token mutants and truncations at token "
                   "boundaries of generated valid programs, and %d hand-written hostile scripts (deep nesting, deep recursion, deep and "
                   "cyclic data, wrong-arity callbacks, faulting builtins), generated multi-thread scripts (3-12 threads started by spawn / go / f.spawn, nested; "
                   "each defines and first-calls many function literals, nested literals, closure factories, callbacks of builtins, imports builtin and "
                   "local modules, raises and catches errors, while the main thread does the same; each evaluated several times); each input goes through parser.Parse, the error renderers, "
                   "Program.String, compiler.Compile, risor.Eval with the default globals (minus the modules that reach the real "
                   "machine) and the host-side Inspect/Interface/Equals/HashKey of the result, in child processes under a memory limit "
                   "and a watchdog; a Go panic escaping an API call, the death of the child or a hang is a violation. "
                   "Option route: %d configurations (every shape of deny / override name derived from the running packages' globals and from host-assembled "
                   "nested modules; host values of every kind; switches; OS / importer / VM; shuffled, repeated) through NewConfig and its accessors, Eval, "
                   "Compile + EvalCode and Call, each %d times. "
                   "Pair route: %d scripts, each applying %d two-operand constructs (operators, comparisons, in, switch cases, equality of lists / maps / sets "
                   "holding the operands, hashing, sorted / index / count / remove / contains / set operations / map lookups, conversions, module functions) "
                   "to an ordered pair of values of %d kinds (nil, bool, int, float incl. NaN / inf, byte, string, byte_slice, buffer, float_slice, list, map, set, "
                   "error, time, function, builtin, module, iterator, iter entry, closed chan, thread, regexp, slice / index results, decoded values), each operation in "
                   "its own try(); scripts that end early are re-run one operation per script; a script that kills the child is reduced to the operation that does. "
                   "Non-trivial = distinct inputs." % (len(HOSTILE) + len(CYCLIC) + len(CYCLIC_PRINT), len(optcases), opt_reps, len(pair_of), len(gen_pairs.OPS) + len(gen_pairs.TAIL_OPS), len(gen_pairs.primaries())))
    cov["samples"] = [{"kind": inputs[k][0], "source": inputs[k][1][:200], "outcome": outcomes[k]} for k in (0, 5, len(HOSTILE) + 10, len(inputs) - 1)]
    cov["input_distribution"] = hist
    cov["outcome_distribution"] = dict(sorted(stage_hist.items(), key=lambda kv: -kv[1])[:20])
    res.assumptions += [
        "recovered VM panics (index out of range of the operand/frame stack, nil dereference inside eval) surface as errors: acceptable",
        "slow but terminating inputs (quadratic compile of deeply nested function literals) are not violations; the watchdog allows 40 s per input",
        "memory exhaustion through sheer data size and explicit exit / external commands are excluded by the property; the dangerous "
        "modules are removed from the globals of the fuzzed scripts",
        "theorems: traversal of acyclic data terminates within a rank-bounded stack depth (model/Cyclic.v); Go's 1 GB goroutine stack makes "
        "plain syntactic nesting depth a performance, not a crash, issue (checked to depth 3000)",
    ]
    for v in oracle[:10]:
        v["property"] = PROP
        res.violation(v)
    if oracle:
        return
    if not proved:
        res.violation({"property": PROP, "kind": "proof-obligation-broken", "theorem_file": "coq/props/C03.v", "broken": res.broken,
                       "search": "%d inputs, none crashed, hung or panicked" % len(inputs)}, nofail=True, tag="proof")


def replay(data):
    import json
    print(json.dumps(data, indent=1)[:3000])
    exe, err = C.go_build("c03obs")
    src = data.get("source")
    if exe and data.get("options") is not None:
        case = {"opts": data["options"], "sources": data.get("sources") or ["1 + 1"], "call": data.get("call") or []}
        o = run_isolated(exe, [gen_options.line_of(case, 4 * int(data.get("repetitions") or 6))], raw=True)
        print(o)
        return 1 if (o[0] or "").startswith("FATAL") or o[0] == "HANG" or "GOPANIC" in (o[0] or "") or not o[0] else 0
    if exe and src:
        if data.get("evaluations_per_input"):
            o = run_isolated(exe, [stress_line(src, data.get("modules") or {}, 5 * int(data["evaluations_per_input"]))], raw=True)
        else:
            o = run_isolated(exe, [src])
        print(o)
        return 1 if (o[0] or "").startswith("FATAL") or o[0] == "HANG" or "GOPANIC" in (o[0] or "") else 0
    return 0
