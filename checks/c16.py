"""C16 - lists, maps, sets, strings and byte_slices behave as the abstract containers they present."""
import json
import os
import shutil
import struct
import subprocess
import tempfile
from concurrent.futures import ThreadPoolExecutor
from functools import cmp_to_key

from lib import common as C
from checks.c15 import text, parse_text, run_sharded

PROP = "C16"
LEVEL = "proof"


# ================================================================== the reference containers (oracle)
# Plain Python lists / dicts / bytearrays with the language's == and <; no backing arrays, no shared index object.
# Values: the tuples of checks/c15.py.


def fval(v):
    if v[0] == "d":
        return struct.unpack(">d", struct.pack(">Q", v[1]))[0]
    return float(v[1])


def req(a, b):
    """a == b (a.Equals(b))"""
    ka, kb = a[0], b[0]
    if ka in "idy" and kb in "idy":
        if ka == "d" or kb == "d":
            return fval(a) == fval(b)
        return a[1] == b[1]
    if ka == "n":
        return kb == "n"
    if ka in "tf":
        return ka == kb
    if ka in "sb":
        return kb in "sb" and a[1] == b[1]
    if ka == "L":
        return kb == "L" and len(a[1]) == len(b[1]) and all(req(x, y) for x, y in zip(a[1], b[1]))
    return False


class Incomparable(Exception):
    pass


def rcmp(a, b):
    ka, kb = a[0], b[0]
    if ka in "idy" and kb in "idy":
        if ka == "d" or kb == "d":
            x, y = fval(a), fval(b)
        else:
            x, y = a[1], b[1]
        return (x > y) - (x < y)
    if ka == "n" and kb == "n":
        return 0
    if ka in "tf" and kb in "tf":
        return (ka == "t") - (kb == "t")
    if ka in "sb" and kb in "sb":
        return (a[1] > b[1]) - (a[1] < b[1])
    if ka == "L" and kb == "L":
        if len(a[1]) != len(b[1]):
            return (len(a[1]) > len(b[1])) - (len(a[1]) < len(b[1]))
        for x, y in zip(a[1], b[1]):
            c = rcmp(x, y)
            if c:
                return c
        return 0
    raise Incomparable()


def mutually_comparable(items):
    try:
        for x in items:
            for y in items:
                rcmp(x, y)
        return True
    except Incomparable:
        return False


def truthy(v):
    k = v[0]
    if k == "n" or k == "f":
        return False
    if k == "t":
        return True
    if k == "i":
        return v[1] != 0
    if k == "d":
        return fval(v) != 0.0
    if k == "y":
        return v[1] > 0
    return len(v[1]) > 0


def hkey(v):
    k = v[0]
    if k in "ntf":
        return (k,)
    if k == "d":
        x = fval(v)
        return ("d", 0.0 if x == 0 else x)
    if k in "iysb":
        return (k, v[1])
    return None


def norm_index(i, n):
    if -n <= i < n:
        return i % n if n else None
    return None


def slice_outcomes(lo, hi, n):
    """acceptable answers to [lo:hi] on a sequence of n items: ('ok', a, b) and/or ('err', class)"""
    for b in (lo, hi):
        if b is not None and b[0] != "i":
            return [("err", "type")]
    a = 0 if lo is None else lo[1]
    b = n if hi is None else hi[1]
    if a < 0:
        a += n
    if b < 0:
        b += n
    if 0 <= a <= b <= n:
        if a < n:
            return [("ok", a, b)]
        return [("ok", a, b), ("err", "slice")]     # empty slice at the very end: an error is accepted too
    return [("err", "slice")]


def wrap64(z):
    return (z + (1 << 63)) % (1 << 64) - (1 << 63)


def add_values(a, b):
    """a + b: a value, "type" for a type error, None where the reference does not say (float arithmetic, list + list, ...)"""
    if a[0] == "i" and b[0] == "i":
        return ("i", wrap64(a[1] + b[1]))
    if a[0] == "s" and b[0] == "s":
        return ("s", a[1] + b[1])
    if a[0] in "ntf" or (a[0] == "s" and b[0] in "intf") or (a[0] == "i" and b[0] in "sntf"):
        return "type"
    return None


def as_string(v):
    return v[1] if v[0] in "sb" else None


def as_int(v):
    return v[1] if v[0] in "iy" else None


def go_runes(b):
    """[]rune(s): every byte that does not start a valid UTF-8 sequence is one U+FFFD"""
    out, i, n = [], 0, len(b)
    while i < n:
        c = b[i]
        if c < 0x80:
            out.append(c)
            i += 1
            continue
        need, lo, hi, base = 0, 0x80, 0xBF, 0
        if 0xC2 <= c <= 0xDF:
            need, base = 1, c & 0x1F
        elif 0xE0 <= c <= 0xEF:
            need, base = 2, c & 0x0F
            if c == 0xE0:
                lo = 0xA0
            if c == 0xED:
                hi = 0x9F
        elif 0xF0 <= c <= 0xF4:
            need, base = 3, c & 0x07
            if c == 0xF0:
                lo = 0x90
            if c == 0xF4:
                hi = 0x8F
        tail = b[i + 1:i + 1 + need]
        ok = need > 0 and len(tail) == need and lo <= tail[0] <= hi and all(0x80 <= t <= 0xBF for t in tail[1:])
        if ok:
            cp = base
            for t in b[i + 1:i + 1 + need]:
                cp = (cp << 6) | (t & 0x3F)
            out.append(cp)
            i += 1 + need
        else:
            out.append(0xFFFD)
            i += 1
    return out


def encode_runes(rs):
    return "".join(chr(r) for r in rs).encode("utf-8")


# reference store: list of ["L", [values]] | ["M", {key bytes: value}] | ["S", {hkey: value}]

def dump_obj(o):
    if o[0] == "L":
        return text(("L", o[1]))
    if o[0] == "M":
        return text(("M", sorted(o[1].items())))
    members = sorted(text(v) for v in o[1].values())
    return " ".join(["S%d" % len(members)] + members)


def dump_store(st):
    return " , ".join(dump_obj(o) for o in st)


def obj_from_value(v):
    if v[0] == "L":
        return ["L", list(v[1])]
    if v[0] == "M":
        return ["M", dict(v[1])]
    if v[0] == "S":
        return ["S", {hkey(x): x for x in v[1]}]
    raise ValueError(v)


def resolve_alias(st, al):
    """the VALUE of an argument that is an object of the store: ('@', k, path) is container k or, following the path (indices
    modulo the length) through nested lists, the member stored there.  The reference has values only: whether an argument is
    the stored object or an equal copy of it makes no difference to any answer"""
    o = st[al[1]]
    if o[0] != "L":
        return None
    cur = ("L", list(o[1]))
    for i in al[2]:
        if cur[0] != "L" or not cur[1]:
            break
        cur = cur[1][i % len(cur[1])]
    return cur


def resolve_op(st, op):
    if not any(isinstance(x, tuple) and x and x[0] == "@" for x in op[1:]):
        return op
    out = [op[0]]
    for x in op[1:]:
        if isinstance(x, tuple) and x and x[0] == "@":
            x = resolve_alias(st, x) if x[1] < len(st) else None
            if x is None:
                return None
        out.append(x)
    return tuple(out)


def ref_step(st, op):
    """returns the list of acceptable (outcome text, new store) pairs; the store is copied on write"""
    op = resolve_op(st, op)
    if op is None:
        return None
    name, a = op[0], op[1:]

    def same(out):
        return [(out, st)]

    def alloc(o):
        return [("R%d" % len(st), st + [o])]

    def upd(r, o, out):
        s2 = list(st)
        s2[r] = o
        return [(out, s2)]

    if name == "newlist":
        return alloc(["L", list(a[0][1])])
    if name == "newmap":
        return alloc(["M", dict(a[0][1])])
    if name == "newset":
        d = {}
        for x in a[0][1]:
            d[hkey(x)] = x
        return alloc(["S", d])
    r = a[0]
    o = st[r]
    kind = o[0]
    if name == "get":
        k = a[1]
        if kind == "L":
            if k[0] != "i":
                return same("Etype")
            i = norm_index(k[1], len(o[1]))
            return same("Eindex") if i is None else same("V " + text(o[1][i]))
        if kind == "M":
            if k[0] != "s":
                return same("Etype")
            return same("V " + text(o[1][k[1]])) if k[1] in o[1] else same("Ekey")
        h = hkey(k)
        return same("Etype") if h is None else same("V " + ("t" if h in o[1] else "f"))
    if name == "slice":
        if kind != "L":
            return same("Etype")
        outs = []
        for alt in slice_outcomes(a[1], a[2], len(o[1])):
            if alt[0] == "ok":
                outs += alloc(["L", o[1][alt[1]:alt[2]]])
            else:
                outs += same("E" + alt[1])
        return outs
    if name in ("setitem", "addassign", "del"):
        k = a[1]
        if kind == "L":
            if k[0] != "i":
                return same("Etype")
            i = norm_index(k[1], len(o[1]))
            if i is None:
                return same("Eindex")
            l2 = list(o[1])
            if name == "setitem":
                l2[i] = a[2]
            elif name == "addassign":
                w = add_values(l2[i], a[2])
                if w is None:
                    return None
                if w == "type":
                    return same("Etype")
                l2[i] = w
            else:
                del l2[i]
            return upd(r, ["L", l2], "V n")
        if kind == "M":
            if k[0] != "s":
                return same("Etype")
            m2 = dict(o[1])
            if name == "setitem":
                m2[k[1]] = a[2]
            elif name == "addassign":
                if k[1] not in m2:
                    return same("Ekey")
                w = add_values(m2[k[1]], a[2])
                if w is None:
                    return None
                if w == "type":
                    return same("Etype")
                m2[k[1]] = w
            else:
                m2.pop(k[1], None)
            return upd(r, ["M", m2], "V n")
        if name == "del":
            h = hkey(k)
            if h is None:
                return same("Etype")
            s2 = dict(o[1])
            s2.pop(h, None)
            return upd(r, ["S", s2], "V n")
        return same("Etype")
    if name == "contains":
        v = a[1]
        if kind == "L":
            return same("V " + ("t" if any(req(x, v) for x in o[1]) else "f"))
        if kind == "M":
            return same("V " + ("t" if v[0] == "s" and v[1] in o[1] else "f"))
        h = hkey(v)
        return same("V " + ("t" if h is not None and h in o[1] else "f"))
    if name == "len":
        return same("V i%d" % len(o[1]))
    if name == "eq":
        if kind != "L":
            return None
        return same("V " + ("t" if req(("L", o[1]), a[1]) else "f"))
    if name == "eqwrap":
        return same("V " + ("t" if req(a[1], a[1]) else "f"))
    if name == "clear":
        return upd(r, [kind, [] if kind == "L" else {}], "R%d" % r)
    if name == "copy":
        if kind == "S":
            return same("Eattr")
        return alloc([kind, list(o[1]) if kind == "L" else dict(o[1])])
    if name == "keys":
        if kind == "L":
            return alloc(["L", [("i", i) for i in range(len(o[1]))]])
        if kind == "M":
            return alloc(["L", [("s", k) for k in sorted(o[1])]])
        return None
    list_methods = ("append", "insert", "pop", "remove", "extend", "reverse", "sort", "count", "index", "map_val", "map_idx",
                    "map_pair", "map_idxcopy", "filter_truthy", "filter_all", "filter_none")
    if name in list_methods and kind != "L":
        if name in ("pop", "remove"):
            return None          # map.pop / set.remove are separate operations
        return same("Eattr")
    if name == "append":
        return upd(r, ["L", o[1] + [a[1]]], "R%d" % r)
    if name == "insert":
        z = as_int(a[1])
        if z is None:
            return same("Etype")
        l2 = list(o[1])
        l2.insert(z, a[2])
        return upd(r, ["L", l2], "R%d" % r)
    if name == "pop":
        z = as_int(a[1])
        if z is None:
            return same("Etype")
        i = norm_index(z, len(o[1]))
        if i is None:
            return same("Eindex")
        l2 = list(o[1])
        v = l2.pop(i)
        return upd(r, ["L", l2], "V " + text(v))
    if name == "remove":
        l2 = list(o[1])
        for i, x in enumerate(l2):
            if req(a[1], x):
                del l2[i]
                break
        return upd(r, ["L", l2], "R%d" % r)
    if name == "extend":
        o2 = st[a[1]]
        if o2[0] != "L":
            return same("Etype")
        return upd(r, ["L", o[1] + o2[1]], "R%d" % r)
    if name == "reverse":
        return upd(r, ["L", o[1][::-1]], "R%d" % r)
    if name in ("sort", "sorted"):
        if kind != "L":
            return None
        if mutually_comparable(o[1]):
            l2 = sorted(o[1], key=cmp_to_key(rcmp))
            return upd(r, ["L", l2], "R%d" % r) if name == "sort" else alloc(["L", l2])
        return "sort-incomparable"
    if name == "count":
        return same("V i%d" % sum(1 for x in o[1] if req(a[1], x)))
    if name == "index":
        for i, x in enumerate(o[1]):
            if req(a[1], x):
                return same("V i%d" % i)
        return same("V i-1")
    if name == "reversed":
        return alloc(["L", o[1][::-1]]) if kind == "L" else same("Etype")
    if name == "concat":
        o2 = st[a[1]]
        if kind == "L" and o2[0] == "L":
            return alloc(["L", o[1] + o2[1]])
        return same("Etype")
    if name == "map_val" or name == "filter_all":
        return alloc(["L", list(o[1])])
    if name in ("map_idx", "map_idxcopy"):
        return alloc(["L", [("i", i) for i in range(len(o[1]))]])
    if name == "map_pair":
        return alloc(["L", [("L", [("i", i), x]) for i, x in enumerate(o[1])]])
    if name == "filter_truthy":
        return alloc(["L", [x for x in o[1] if truthy(x)]])
    if name == "filter_none":
        return alloc(["L", []])
    if name == "each_append":
        o2 = st[a[1]]
        if kind != "L" or o2[0] != "L":
            return None
        return upd(a[1], ["L", o2[1] + o[1]], "V n")
    map_methods = ("mgetd", "mpop", "msetdefault", "mupdate", "mvalues", "mitems")
    if name in map_methods and kind != "M":
        return None if name == "mpop" else same("Eattr")
    if name in ("mgetd", "mpop", "msetdefault"):
        k = as_string(a[1])
        if k is None:
            return same("Etype")
        if name == "mgetd":
            d = a[2] if a[2] is not None else ("n",)
            return same("V " + text(o[1].get(k, d)))
        if name == "mpop":
            if k in o[1]:
                m2 = dict(o[1])
                v = m2.pop(k)
                return upd(r, ["M", m2], "V " + text(v))
            return same("V " + text(a[2] if a[2] is not None else ("n",)))
        if k in o[1]:
            return same("V " + text(o[1][k]))
        m2 = dict(o[1])
        m2[k] = a[2]
        return upd(r, ["M", m2], "V " + text(a[2]))
    if name == "mupdate":
        o2 = st[a[1]]
        if o2[0] != "M":
            return same("Etype")
        m2 = dict(o[1])
        m2.update(o2[1])
        return upd(r, ["M", m2], "R%d" % r)
    if name == "mvalues":
        return alloc(["L", [o[1][k] for k in sorted(o[1])]])
    if name == "mitems":
        return alloc(["L", [("L", [("s", k), o[1][k]]) for k in sorted(o[1])]])
    if name in ("sadd", "sremove", "sunion", "sinter") and kind != "S":
        return None if name == "sremove" else same("Eattr")
    if name in ("sadd", "sremove"):
        h = hkey(a[1])
        if h is None:
            return same("Etype")
        s2 = dict(o[1])
        if name == "sadd":
            s2[h] = a[1]
        else:
            s2.pop(h, None)
        return upd(r, ["S", s2], "R%d" % r)
    if name == "enumerate":
        if kind == "L":
            return alloc(["L", [("L", [("i", i), x]) for i, x in enumerate(o[1])]])
        if kind == "M":
            return alloc(["L", [("L", [("s", k), o[1][k]]) for k in sorted(o[1])]])
        return None
    if name in ("sunion", "sinter"):
        o2 = st[a[1]]
        if o2[0] != "S":
            return same("Etype")
        if name == "sunion":
            s2 = dict(o[1])
            s2.update(o2[1])
        else:
            s2 = {h: v for h, v in o[1].items() if h in o2[1]}
        return alloc(["S", s2])
    return None


def bref_step(st, op):
    """reference byte_slices: a list of bytes objects, every one independent"""
    name, a = op[0], op[1:]
    if name == "bnew":
        return ("R%d" % len(st), st + [a[0][1]])
    r = a[0]
    b = st[r]
    if name == "bget":
        if a[1][0] != "i":
            return ("Etype", st)
        i = norm_index(a[1][1], len(b))
        return ("Eindex", st) if i is None else ("V y%d" % b[i], st)
    if name == "bslice":
        alts = slice_outcomes(a[1], a[2], len(b))
        return [(("R%d" % len(st)), st + [b[x[1]:x[2]]]) if x[0] == "ok" else ("E" + x[1], st) for x in alts]
    if name == "bsetitem":
        if a[1][0] != "i":
            return ("Etype", st)
        i = norm_index(a[1][1], len(b))
        if i is None:
            return ("Eindex", st)
        s = as_string(a[2])
        if s is None:
            return ("Etype", st)
        if len(s) != 1:
            return ("Evalue", st)
        s2 = list(st)
        s2[r] = b[:i] + s + b[i + 1:]
        return ("V n", s2)
    if name == "bclone":
        return ("R%d" % len(st), st + [b])
    if name == "blen":
        return ("V i%d" % len(b), st)
    if name == "bconcat":
        return ("R%d" % len(st), st + [b + st[a[1]]])
    return None


def sref(op):
    """string operations: acceptable outcomes"""
    name, s = op[0], op[1][1]
    rs = go_runes(s)
    if name == "len":
        return ["V i%d" % len(rs)]
    if name == "get":
        k = op[2]
        if k[0] != "i":
            return ["Etype"]
        i = norm_index(k[1], len(rs))
        return ["Eindex"] if i is None else ["V " + text(("s", encode_runes([rs[i]])))]
    outs = []
    for alt in slice_outcomes(op[2], op[3], len(rs)):
        outs.append("V " + text(("s", encode_runes(rs[alt[1]:alt[2]]))) if alt[0] == "ok" else "E" + alt[1])
    return outs


# ================================================================== generator (guided by the reference store)

SMALL_STRS = [b"", b"a", b"b", b"ab", "é".encode(), "世".encode(), b"z"]
KEYS = [b"a", b"b", b"c", b"", "é".encode(), b"k1"]
STRINGS = [b"", b"a", b"hello", "héllo".encode(), "世界!".encode(), "a\U0001F600b".encode(), b"h\xffi", b"\xe2\x82", b"\xc3",
           "日本語テキスト".encode(), b"a\x00b", b"\xed\xa0\x80x", b"\xf0\x9f\x98", "ñandú".encode()]


def fbits(x):
    return struct.unpack(">Q", struct.pack(">d", x))[0]


def gen_elem(r, depth=0):
    c = r.below(20)
    if c < 8:
        return ("i", r.below(7) - 1)
    if c < 9:
        return ("i", r.choice([255, 256, -128, (1 << 63) - 1, -(1 << 63), 1 << 31, 1000]))
    if c < 11:
        return ("d", fbits(r.choice([0.0, 1.0, 1.5, 2.0, -1.0, 3.0, -0.0, 2.5])))
    if c < 12:
        return ("y", r.choice([0, 1, 2, 3, 255]))
    if c < 15:
        return ("s", r.choice(SMALL_STRS))
    if c < 16:
        return ("b", r.choice(SMALL_STRS))
    if c < 17:
        return ("n",)
    if c < 18:
        return (r.choice("tf"),)
    if depth < 2:
        return ("L", [gen_elem(r, depth + 1) for _ in range(r.below(3))])
    return ("i", 0)


def gen_hashable(r):
    while True:
        v = gen_elem(r, 2)
        if v[0] != "L":
            return v


def gen_sortable(r, kind):
    if kind == 0:
        return ("i", r.below(9) - 2)
    if kind == 1:
        return ("s", r.choice(SMALL_STRS))
    if kind == 2:
        return r.choice([("i", r.below(5)), ("d", fbits(r.choice([0.0, 1.0, 1.5, 2.0, 3.0]))), ("y", r.below(4))])
    return ("L", [("i", r.below(3)) for _ in range(r.below(3))])


def gen_index(r, n, malformed):
    if malformed and r.chance(1, 2):
        return r.choice([("d", fbits(1.0)), ("s", b"0"), ("n",), ("y", 1), ("t",), ("L", [])])
    if r.chance(1, 25):
        return ("i", r.choice([1 << 40, -(1 << 40), (1 << 63) - 1, -(1 << 63)]))
    return ("i", r.below(2 * n + 5) - n - 2)


def pick(r, st, kind):
    c = [i for i, o in enumerate(st) if o[0] == kind]
    return r.choice(c) if c else None


def gen_store_case(r, maxlen, malformed, flavour):
    """one operation sequence; flavour biases the first object (list / map / set / mixed)"""
    st = []
    ops = []
    script_only = False
    n_ops = 4 + r.below(maxlen - 3)

    def emit(op):
        nonlocal st
        alts = ref_step(st, op)
        ops.append(op)
        if alts is None or alts == "sort-incomparable":
            return False
        st = alts[-1][1]        # where two answers are acceptable, follow the one the implementation documents (the error)
        return True

    first = {"list": "newlist", "map": "newmap", "set": "newset"}.get(flavour) or r.choice(["newlist", "newlist", "newmap", "newset"])
    sortkind = r.below(5)

    def new_obj(name):
        if name == "newlist":
            n = r.below(7)
            if sortkind < 4 and r.chance(1, 2):
                return ("newlist", ("L", [gen_sortable(r, sortkind) for _ in range(n)]))
            return ("newlist", ("L", [gen_elem(r) for _ in range(n)]))
        if name == "newmap":
            ks = []
            for _ in range(r.below(5)):
                k = r.choice(KEYS)
                if k not in ks:
                    ks.append(k)
            return ("newmap", ("M", [(k, gen_elem(r)) for k in ks]))
        return ("newset", ("S", [gen_hashable(r) for _ in range(r.below(5))]))

    emit(new_obj(first))
    guard = 0
    while len(ops) < n_ops and guard < 400:
        guard += 1
        if len(st) < 9 and r.chance(1, 9):
            emit(new_obj(r.choice(["newlist", "newlist", "newmap", "newset"])))
            continue
        t = r.below(len(st)) if (malformed and r.chance(1, 6)) else None
        if t is None:
            want = {"list": "L", "map": "M", "set": "S"}.get(flavour)
            if want is None or r.chance(1, 3):
                t = r.below(len(st))
            else:
                t = pick(r, st, want)
                if t is None:
                    t = r.below(len(st))
        o = st[t]
        kind = o[0]
        n = len(o[1])
        bad = malformed and r.chance(1, 5)
        if kind == "L" or (bad and r.chance(1, 2)):
            c = r.below(40)
            if c < 5:
                op = ("get", t, gen_index(r, n, bad))
            elif c < 9:
                lo = None if r.chance(1, 4) else gen_index(r, n, bad)
                hi = None if r.chance(1, 4) else gen_index(r, n, bad)
                op = ("slice", t, lo, hi)
            elif c < 12:
                op = ("setitem", t, gen_index(r, n, bad), gen_elem(r))
            elif c < 14:
                k = gen_index(r, n, bad)
                i = norm_index(k[1], n) if (k[0] == "i" and kind == "L") else None
                if i is not None and o[1][i][0] == "i":
                    v = ("i", r.choice([1, -1, 5, (1 << 63) - 1])) if r.chance(5, 6) else ("s", b"x")
                elif i is not None and o[1][i][0] == "s":
                    v = ("s", r.choice(SMALL_STRS)) if r.chance(5, 6) else ("i", 1)
                elif i is not None and o[1][i][0] in "ntf":
                    v = ("i", 1)
                elif i is None:
                    v = ("i", 1)
                else:
                    continue
                op = ("addassign", t, k, v)
                script_only = True
            elif c < 16:
                op = ("del", t, gen_index(r, n, bad))
            elif c < 19:
                op = ("append", t, gen_elem(r) if sortkind == 4 or r.chance(1, 3) else gen_sortable(r, sortkind))
            elif c < 22:
                op = ("insert", t, gen_index(r, n, bad), gen_elem(r) if sortkind == 4 else gen_sortable(r, sortkind))
            elif c < 25:
                op = ("pop", t, gen_index(r, n, bad))
            elif c < 27:
                v = r.choice(o[1]) if (kind == "L" and o[1] and r.chance(2, 3)) else gen_elem(r)
                op = ("remove", t, v)
            elif c < 29:
                t2 = pick(r, st, "L") if not bad else r.below(len(st))
                op = ("extend", t, t2 if t2 is not None else t)
            elif c < 31:
                op = ("reverse", t)
            elif c < 33:
                op = (r.choice(["sort", "sorted"]), t)
            elif c < 34:
                op = ("clear", t)
            elif c < 36:
                op = (r.choice(["copy", "reversed", "keys", "enumerate"]), t)
                if op[0] == "enumerate":
                    script_only = True
            elif c < 37:
                t2 = pick(r, st, "L") if not bad else r.below(len(st))
                op = ("concat", t, t2 if t2 is not None else t)
            elif c < 38:
                v = r.choice(o[1]) if (kind == "L" and o[1] and r.chance(2, 3)) else gen_elem(r)
                op = (r.choice(["count", "index", "contains"]), t, v)
            elif c < 39:
                op = ("len", t)
            else:
                cb = r.choice(["map_val", "map_idx", "map_pair", "map_idxcopy", "filter_truthy", "filter_all", "filter_none",
                               "each_append"])
                if cb == "each_append":
                    t2 = pick(r, st, "L")
                    if t2 is None or kind != "L":
                        continue
                    op = (cb, t, t2)
                else:
                    op = (cb, t)
                script_only = True
        elif kind == "M":
            key = ("s", r.choice(KEYS if not o[1] or r.chance(1, 2) else list(o[1].keys())))
            if bad:
                key = r.choice([("i", 1), ("n",), ("b", b"a"), ("L", []), ("d", fbits(1.0))])
            c = r.below(20)
            if c < 3:
                op = ("get", t, key)
            elif c < 6:
                op = ("setitem", t, key, gen_elem(r))
            elif c < 7:
                cur = o[1].get(key[1]) if key[0] == "s" else None
                if cur is not None and cur[0] not in "isntf":
                    continue
                v = ("s", b"x") if (cur is not None and cur[0] == "s") else ("i", 2)
                op = ("addassign", t, key, v)
                script_only = True
            elif c < 9:
                op = ("del", t, key)
            elif c < 11:
                op = ("mgetd", t, key, None if r.chance(1, 2) else gen_elem(r))
            elif c < 13:
                op = ("mpop", t, key, None if r.chance(1, 2) else gen_elem(r))
            elif c < 15:
                op = ("msetdefault", t, key, gen_elem(r))
            elif c < 16:
                t2 = pick(r, st, "M") if not bad else r.below(len(st))
                op = ("mupdate", t, t2 if t2 is not None else t)
            elif c < 17:
                op = (r.choice(["keys", "mvalues", "mitems", "copy", "enumerate"]), t)
                if op[0] == "enumerate":
                    script_only = True
            elif c < 18:
                op = ("contains", t, key)
            elif c < 19:
                op = ("len", t)
            else:
                op = (r.choice(["clear", "slice"]), t) if not bad else ("append", t, ("i", 1))
                if op[0] == "slice":
                    op = ("slice", t, None, ("i", 1))
        else:
            members = list(o[1].values())
            v = r.choice(members) if (members and r.chance(1, 2)) else gen_hashable(r)
            if bad:
                v = r.choice([("L", []), ("L", [("i", 1)]), gen_elem(r)])
            c = r.below(16)
            if c < 4:
                op = ("sadd", t, v)
            elif c < 6:
                op = ("sremove", t, v)
            elif c < 8:
                op = ("del", t, v)
            elif c < 10:
                op = ("get", t, v)
            elif c < 12:
                op = ("contains", t, v)
            elif c < 14:
                t2 = pick(r, st, "S") if not bad else r.below(len(st))
                op = (r.choice(["sunion", "sinter"]), t, t2 if t2 is not None else t)
            elif c < 15:
                op = ("len", t)
            else:
                op = (r.choice(["clear", "copy", "setitem"]), t)
                if op[0] == "setitem":
                    op = ("setitem", t, v, ("i", 1))
        # observe - mutate - observe: a view of the container (keys, items, values, a copy) taken right before and right after
        # a mutation must each show the contents of that moment (anything a container remembers about an earlier view has
        # to be forgotten by EVERY mutating method)
        sandwich = op[0] not in READONLY and kind in ("M", "L", "S") and not bad and r.chance(1, 2)
        view = None
        if sandwich:
            view = (r.choice(["keys", "mitems", "mvalues"]) if kind == "M" else r.choice(["copy", "len"]), t)
            if not emit(view):
                ops.pop()
        if not emit(op):
            # outside what the reference determines (incomparable sort, unmodelled target): drop the step
            ops.pop()
        elif sandwich and view is not None and t < len(st) and st[t][0] == kind:
            if not emit(view):
                ops.pop()
    return ops, script_only


NAN_BITS = [0x7FF8000000000000, 0xFFF8000000000000, 0x7FF0000000000001]


def gen_alias_elem(r, depth=0):
    """members for the aliasing histories: values that are not equal to themselves (NaN), values that are equal but
    distinguishable (1, 1.0, byte 1; 0.0 and -0.0; a string and a byte_slice), nested lists of those, and the usual pool"""
    c = r.below(14)
    if c < 3:
        return ("d", r.choice(NAN_BITS))
    if c < 6:
        return r.choice([("i", 1), ("d", fbits(1.0)), ("y", 1), ("d", fbits(0.0)), ("d", fbits(-0.0)), ("i", 0), ("s", b"a"), ("b", b"a")])
    if c < 9 and depth < 2:
        return ("L", [gen_alias_elem(r, depth + 1) for _ in range(1 + r.below(3))])
    return gen_elem(r, 2)


def gen_alias_case(r, maxops):
    """histories whose search / remove / compare arguments ARE objects of the store: a member read back from the container
    that is searched (l.index(l[i]), l.count(x), x in l, l.remove(x)), a member of a nested list, a member of another container
    that shares it (copy, slice, concatenation, extend), the container itself (l == l, l.count(l)) - next to the same
    operations with fresh equal values, and mutations in between"""
    st, ops = [], []

    def emit(op):
        nonlocal st
        alts = ref_step(st, op)
        ops.append(op)
        if alts is None or alts == "sort-incomparable":
            return
        st = alts[-1][1]

    emit(("newlist", ("L", [gen_alias_elem(r) for _ in range(1 + r.below(6))])))
    if r.chance(1, 3):
        emit(("newlist", ("L", [gen_alias_elem(r) for _ in range(r.below(5))])))
    n_ops = 4 + r.below(maxops - 3)
    guard = 0
    while len(ops) < n_ops and guard < 200:
        guard += 1
        lists = [i for i, o in enumerate(st) if o[0] == "L"]
        t = r.choice(lists)
        n = len(st[t][1])
        c = r.below(20)
        if c < 11:
            src = t if r.chance(3, 4) else r.choice(lists)
            path = []
            if not r.chance(1, 7):
                cur = ("L", st[src][1])
                while cur[0] == "L" and cur[1] and (not path or r.chance(1, 3)):
                    i = r.below(len(cur[1]))
                    path.append(i)
                    cur = cur[1][i]
            al = ("@", src, tuple(path))
            name = r.choice(["contains", "count", "index", "remove", "eq", "eqwrap", "index", "count"])
            if name == "remove" and not path:
                name = "count"
            emit((name, t, al))
        elif c < 13:
            # the same question with a fresh, equal value
            v = gen_alias_elem(r) if not n or r.chance(1, 3) else st[t][1][r.below(n)]
            emit((r.choice(["contains", "count", "index", "remove", "eq"]), t, v))
        elif c < 15:
            emit(("append", t, gen_alias_elem(r)))
        elif c == 15:
            emit(("insert", t, ("i", r.below(n + 3) - 1), gen_alias_elem(r)))
        elif c == 16 and n:
            emit(("setitem", t, ("i", r.below(n)), gen_alias_elem(r)))
        elif c == 17:
            emit((r.choice(["reverse", "copy", "reversed"]), t))
        elif c == 18 and len(st) < 6:
            lo = None if r.chance(1, 3) else ("i", r.below(n + 1))
            emit(("slice", t, lo, None)) if r.chance(1, 2) else emit((r.choice(["concat", "extend"]), t, r.choice(lists)))
        elif n:
            emit(("pop", t, ("i", r.below(n))))
    return ops


def gen_bytes_case(r, maxlen, malformed):
    st = []
    ops = []
    n_ops = 3 + r.below(maxlen - 2)

    def emit(op):
        nonlocal st
        res = bref_step(st, op)
        ops.append(op)
        if isinstance(res, list):
            res = res[-1]
        st = res[1]

    emit(("bnew", ("b", bytes(r.below(256) for _ in range(r.below(7))))))
    while len(ops) < n_ops:
        if len(st) < 8 and r.chance(1, 8):
            emit(("bnew", ("b", bytes(r.below(256) for _ in range(r.below(6))))))
            continue
        t = r.below(len(st))
        n = len(st[t])
        bad = malformed and r.chance(1, 4)
        c = r.below(14)
        if c < 3:
            emit(("bget", t, gen_index(r, n, bad)))
        elif c < 6:
            lo = None if r.chance(1, 4) else gen_index(r, n, bad)
            hi = None if r.chance(1, 4) else gen_index(r, n, bad)
            emit(("bslice", t, lo, hi))
        elif c < 10:
            v = ("s", bytes([r.below(128)])) if r.chance(2, 3) else ("b", bytes([r.below(256)]))
            if bad:
                v = r.choice([("y", 7), ("i", 7), ("s", b"ab"), ("s", b""), ("n",)])
            emit(("bsetitem", t, gen_index(r, n, bad), v))
        elif c < 11:
            emit(("bclone", t))
        elif c < 12:
            emit(("blen", t))
        else:
            emit(("bconcat", t, r.below(len(st))))
    return ops


def gen_string_case(r, malformed):
    s = ("s", r.choice(STRINGS))
    n = len(go_runes(s[1]))
    c = r.below(10)
    if c < 4:
        return ("get", s, gen_index(r, n, malformed))
    if c < 9:
        lo = None if r.chance(1, 4) else gen_index(r, n, malformed)
        hi = None if r.chance(1, 4) else gen_index(r, n, malformed)
        return ("slice", s, lo, hi)
    return ("len", s)


def optext(op):
    parts = [op[0]]
    for x in op[1:]:
        if isinstance(x, int):
            parts.append("r%d" % x)
        elif x is None:
            parts.append("-")
        elif x[0] == "@":
            parts.append("@r%d" % x[1] + "".join(".%d" % i for i in x[2]))
        else:
            parts.append(text(x))
    return " ".join(parts)


def case_line(kind, route, ops):
    if kind == "X":
        return "X %s %s" % (route, optext(ops))
    return "%s %s %s" % (kind, route, " | ".join(optext(o) for o in ops))


def parse_op(kind, s):
    """inverse of optext for corpus lines"""
    toks = s.split()
    out = [toks[0]]
    pos = 1
    while pos < len(toks):
        t = toks[pos]
        if t == "-":
            out.append(None)
            pos += 1
        elif t[0] == "r" and t[1:].isdigit():
            out.append(int(t[1:]))
            pos += 1
        elif t.startswith("@r"):
            ix = t[2:].split(".")
            out.append(("@", int(ix[0]), tuple(int(i) for i in ix[1:])))
            pos += 1
        else:
            v, pos = parse_text(toks, pos)
            out.append(v)
    return tuple(out)


def parse_case_line(line):
    kind, route, rest = line.split(" ", 2)
    if kind == "X":
        return kind, route, parse_op(kind, rest)
    return kind, route, [parse_op(kind, o) for o in rest.split(" | ")]


# ================================================================== oracle: the implementation's steps against the reference

def parse_dump(dump):
    objs = []
    if dump.strip() == "":
        return objs
    for part in dump.split(" , "):
        toks = part.split()
        v, _ = parse_text(toks, 0)
        objs.append(v)
    return objs


def judge_store(ops, line, F, case_text, stats):
    """walk the implementation's observations step by step next to the reference store"""
    steps = line.split(" ;; ")
    if len(steps) != len(ops):
        F.append({"clause": "observation", "case": case_text, "why": "implementation produced %d steps for %d operations: %s"
                  % (len(steps), len(ops), line[:200]), "known": None})
        return
    st = []
    for i, (op, stp) in enumerate(zip(ops, steps)):
        out, _, dump = stp.partition(" # ")
        out, dump = out.strip(), dump.strip()
        alts = ref_step(st, op)
        stats["steps"] += 1
        if alts is None:
            stats["unjudged"] += 1
            resync = True
        elif alts == "sort-incomparable":
            # mutually incomparable members: any error is right, the list must stay a permutation of itself
            stats["unjudged"] += 1
            resync = True
            try:
                now = parse_dump(dump)
                r = op[1]
                if op[0] == "sort" and sorted(text(x) for x in now[r][1]) != sorted(text(x) for x in st[r][1]):
                    F.append({"clause": "errors instead of wrong data", "case": case_text, "step": i, "op": optext(op),
                              "why": "a failed sort changed the members of the list", "impl": stp, "known": None})
            except Exception:
                pass
        else:
            ok = None
            for o2, s2 in alts:
                if o2 == out and dump_store(s2) == dump:
                    ok = s2
                    break
            if ok is not None:
                st = ok
                resync = False
                if out.startswith("E"):
                    stats["error_steps"] += 1
                elif dump_store(st) != "":
                    stats["ok_steps"] += 1
            else:
                exp_out, exp_st = alts[0]
                known = None
                why = "operation %s: reference answers %s with store [%s], implementation answers %s with store [%s]" % (
                    optext(op), exp_out, dump_store(exp_st), out, dump)
                clause = "contents equal the reference model"
                if exp_out.startswith("E") and not out.startswith("E"):
                    clause = "out-of-range or wrongly typed access raises an error"
                elif op[0] in READONLY and dump_store(exp_st)[:len(dump_store(st))] == dump_store(st) and not dump.startswith(dump_store(st)):
                    clause = "read-only operation mutated its operand / copies are independent"
                F.append({"clause": clause, "case": case_text, "step": i, "op": optext(op), "why": why[:700], "known": known})
                resync = True
        if resync:
            try:
                st = [obj_from_value(v) for v in parse_dump(dump)]
            except Exception:
                return


READONLY = {"eq", "eqwrap", "enumerate", "get", "slice", "contains", "len", "copy", "count", "index", "reversed", "sorted", "keys", "concat", "map_val",
            "map_idx", "map_pair", "map_idxcopy", "filter_truthy", "filter_all", "filter_none", "mgetd", "mvalues", "mitems",
            "sunion", "sinter", "newlist", "newmap", "newset"}


def judge_bytes(ops, line, F, case_text, stats):
    steps = line.split(" ;; ")
    if len(steps) != len(ops):
        F.append({"clause": "observation", "case": case_text, "why": "implementation produced %d steps for %d operations" %
                  (len(steps), len(ops)), "known": None})
        return
    st = []
    for i, (op, stp) in enumerate(zip(ops, steps)):
        out, _, dump = stp.partition(" # ")
        out, dump = out.strip(), dump.strip()
        res = bref_step(st, op)
        alts = res if isinstance(res, list) else [res]
        stats["steps"] += 1
        ok = None
        for o2, s2 in alts:
            if o2 == out and " , ".join("b=" + b.hex() for b in s2) == dump:
                ok = s2
                break
        if ok is not None:
            st = ok
            if out.startswith("E"):
                stats["error_steps"] += 1
            else:
                stats["ok_steps"] += 1
            continue
        exp_out, exp_st = alts[0]
        known = None
        F.append({"clause": "copies and slices are independent of the original", "case": case_text, "step": i, "op": optext(op),
                  "why": ("operation %s: reference answers %s with store [%s], implementation answers %s with store [%s]" % (
                      optext(op), exp_out, " , ".join("b=" + b.hex() for b in exp_st), out, dump))[:700], "known": known})
        try:
            st = [bytes.fromhex(p.strip()[2:]) for p in dump.split(" , ")] if dump else []
        except Exception:
            return


def judge_string(op, line, F, case_text, stats):
    out, _, dump = line.partition(" # ")
    stats["steps"] += 1
    alts = sref(op)
    if out.strip() in alts:
        if out.startswith("E"):
            stats["error_steps"] += 1
        else:
            stats["ok_steps"] += 1
        if dump.strip() != text(op[1]):
            F.append({"clause": "read-only operation mutated its operand", "case": case_text, "why": "string changed: " + dump,
                      "known": None})
        return
    F.append({"clause": "strings are indexed and sliced by code point", "case": case_text,
              "why": "reference answers %s, implementation answers %s" % (" or ".join(alts), out), "known": None})


# ================================================================== the check

def load_known_ids():
    ids = {}
    for fn in ("known_findings.jsonl",):
        p = os.path.join(C.VERIF, fn)
        if not os.path.exists(p):
            continue
        for line in open(p):
            line = line.strip()
            if not line or line.startswith("#"):
                continue
            j = json.loads(line)
            if j.get("property") == PROP and not j.get("fixed") and j.get("id") not in ids:
                ids[j["id"]] = j
    return ids


def corpus_lines():
    out = []
    d = os.path.join(C.VERIF, "corpus", PROP)
    if os.path.isdir(d):
        for fn in sorted(os.listdir(d)):
            for line in open(os.path.join(d, fn)):
                line = line.strip()
                if line and not line.startswith("#"):
                    out.append(line)
    return out


def translate_resolve(res):
    """regenerate coq/gen/GenResolveIndex.v from object/list.go (mini-translator harness/cmd/c16tr)"""
    exe, err = C.go_build("c16tr")
    if not exe:
        return False, err
    rc, o, e = C.run([exe, os.path.join(C.REPO, "object", "list.go")], timeout=120)
    if rc != 0 or not o.strip():
        return False, o + e
    C.write_if_changed(os.path.join(C.COQ, "gen", "GenResolveIndex.v"), o)
    return True, ""


def run(res):
    tier = res.tier
    obs, err = C.go_build("c16obs")
    if not obs:
        res.violation({"property": PROP, "kind": "harness-build-failed", "stage": "go build c16obs", "log": err[-3000:]},
                      nofail=True, tag="build")
        return
    ok, tlog = translate_resolve(res)
    if not ok:
        res.notes.append("translator failed: " + tlog[-1500:])
    proved = C.prove(res, PROP)
    if not ok:
        proved = False
        res.broken = {"log_tail": "translator c16tr failed on object/list.go: " + tlog[-2000:], "errors": []}
    if proved and tier == "thorough":
        if not C.coqchk(res, PROP):
            proved = False
            res.broken = {"log_tail": res.coverage.get("coqchk", {}).get("tail", ""), "errors": []}
    model, err = C.build_extracted("containers", "ExtractContainers.v", "containers_driver.ml")
    if not model:
        res.violation({"property": PROP, "kind": "model-build-failed", "stage": "extraction", "log": err[-3000:],
                       "broken": getattr(res, "broken", None)}, nofail=True, tag="extract")
        return
    os.makedirs(C.WORK, exist_ok=True)
    work = tempfile.mkdtemp(prefix="c16-", dir=C.WORK)
    try:
        _body(res, tier, obs, model, work, proved)
    finally:
        shutil.rmtree(work, ignore_errors=True)


def _body(res, tier, obs, model, work, proved):
    cov = res.coverage
    rng = C.Rng(res.seed)
    q = tier == "quick"
    n_store = 5000 if q else 200000
    n_bytes = 1000 if q else 30000
    n_str = 2000 if q else 60000
    maxlen = 40
    cases = []      # (kind, route, ops)
    for line in corpus_lines():
        cases.append(parse_case_line(line))
    ncorpus = len(cases)
    for k in range(n_store):
        malformed = k % 5 == 4
        flavour = ["list", "list", "list", "map", "set", "mixed"][k % 6]
        ln = maxlen if k % 4 == 0 else 16
        ops, script_only = gen_store_case(rng, ln, malformed, flavour)
        route = "script" if (script_only or k % 3 == 0) else "api"
        cases.append(("Q", route, ops))
    for k in range(n_bytes):
        cases.append(("B", "script" if k % 2 else "api", gen_bytes_case(rng, 24, k % 5 == 4)))
    for k in range(n_str):
        cases.append(("X", "script" if k % 2 else "api", gen_string_case(rng, k % 6 == 5)))
    lines = [case_line(k, r, o) for k, r, o in cases]

    with ThreadPoolExecutor(max_workers=3) as ex:
        fg = ex.submit(run_sharded, obs, lines, work, "go", C.NCPU)
        fm = ex.submit(run_sharded, model, lines, work, "mo", C.NCPU)
        (go, e1), (mo, e2) = fg.result(), fm.result()
    if go is None or mo is None:
        res.violation({"property": PROP, "kind": "harness-run-failed", "stage": "c16obs / model_containers", "log": e1 + " " + e2},
                      nofail=True, tag="run")
        return

    # correspondence, step by step; a model step that answers U (outside the modelled fragment) ends the comparison of the case
    diffs, ndiff, unsupported, steps_compared = [], 0, 0, 0
    for i, (g, m) in enumerate(zip(go, mo)):
        if g == m:
            steps_compared += g.count(" ;; ") + 1
            continue
        gs, ms = g.split(" ;; "), m.split(" ;; ")
        bad = None
        for j in range(max(len(gs), len(ms))):
            a = gs[j] if j < len(gs) else "(missing)"
            b = ms[j] if j < len(ms) else "(missing)"
            if b.startswith("U #") or b == "U":
                unsupported += 1
                break
            steps_compared += 1
            if a != b:
                bad = (j, a, b)
                break
        if bad:
            ndiff += 1
            if len(diffs) < 20:
                diffs.append({"case": lines[i], "step": bad[0], "impl": bad[1], "model": bad[2]})

    # oracle
    F = []
    stats = {"steps": 0, "ok_steps": 0, "error_steps": 0, "unjudged": 0}
    opcount = {}
    nontrivial = set()
    for i, (kind, route, ops) in enumerate(cases):
        g = go[i]
        if g.startswith("BADCASE"):
            F.append({"clause": "observation", "case": lines[i], "why": g, "known": None})
            continue
        before = len(F)
        if kind == "Q":
            judge_store(ops, g, F, lines[i], stats)
            for o in ops:
                opcount[o[0]] = opcount.get(o[0], 0) + 1
            if len(ops) >= 3:
                nontrivial.add(lines[i][2:].split(" ", 1)[1])
        elif kind == "B":
            judge_bytes(ops, g, F, lines[i], stats)
            for o in ops:
                opcount[o[0]] = opcount.get(o[0], 0) + 1
            nontrivial.add(lines[i][2:].split(" ", 1)[1])
        else:
            judge_string(ops, g, F, lines[i], stats)
            opcount["str_" + ops[0]] = opcount.get("str_" + ops[0], 0) + 1
            if g.startswith("V"):
                nontrivial.add(lines[i][2:].split(" ", 1)[1])

    # histories whose arguments are objects of the store (judged by the oracle; the extracted model has values only, so an
    # aliased argument and its value are the same case there)
    n_alias = 3000 if q else 100000
    acases = []
    for k in range(n_alias):
        acases.append(("A", "script" if k % 3 == 0 else "api", gen_alias_case(rng, 16)))
    alines = [case_line(k, r, o) for k, r, o in acases]
    ago, e3 = run_sharded(obs, alines, work, "al", C.NCPU)
    if ago is None:
        res.violation({"property": PROP, "kind": "harness-run-failed", "stage": "c16obs aliasing histories", "log": e3}, nofail=True, tag="run")
        return
    astats = {"steps": 0, "ok_steps": 0, "error_steps": 0, "unjudged": 0}
    aliased_found = 0
    for i, (kind, route, ops) in enumerate(acases):
        g = ago[i]
        if g.startswith("BADCASE"):
            F.append({"clause": "observation", "case": alines[i], "why": g, "known": None})
            continue
        judge_store(ops, g, F, alines[i], astats)
        for o in ops:
            if any(isinstance(x, tuple) and x and x[0] == "@" for x in o[1:]):
                opcount["alias_" + o[0]] = opcount.get("alias_" + o[0], 0) + 1
        if " ;; V t #" in g or " ;; V i0 #" in g or " ;; V i1 #" in g:
            aliased_found += 1
        nontrivial.add(alines[i][2:].split(" ", 1)[1])
    stats["alias_cases"] = n_alias
    stats["alias_steps"] = astats["steps"]
    stats["alias_steps_unjudged"] = astats["unjudged"]
    stats["alias_cases_with_a_hit"] = aliased_found

    known_ids = load_known_ids()
    viol, known_seen = [], {}
    for f in F:
        if f.get("known") and f["known"] in known_ids:
            k = known_seen.setdefault(f["known"], {"count": 0, "example": f})
            k["count"] += 1
        else:
            viol.append(f)

    cov["evaluations"] = len(lines)
    cov["distinct_nontrivial"] = len(nontrivial)
    cov["rule"] = ("operation sequences generated from C.Rng(seed) next to a Python reference store (plain lists, dicts, "
                   "bytes): up to %d operations over up to 9 container objects per case, indices drawn from [-len-2, len+2] "
                   "plus int64 extremes, values from a scalar/nested-list pool with cross-type equal members (1, 1.0, byte 1), "
                   "every list / map / set / byte_slice method and subscript form, aliasing scenarios (slice, copy, extend "
                   "with itself, callbacks that return their index, byte_slice slices then item assignment; histories whose search / "
                   "remove / compare arguments ARE objects of the store - a member read back from the searched list, from a nested list, "
                   "from a container sharing it after copy / slice / concat / extend, the container itself - over members that are not "
                   "equal to themselves (NaN) or equal but distinguishable (1, 1.0, byte 1, 0.0, -0.0), with l == x and [x] == [x]); one case in five "
                   "carries wrongly typed indices, keys and operands (malformed stream). Each case runs through the object API "
                   "or through one risor.Eval per step; after every step the outcome and the contents of all objects are "
                   "compared with the reference (oracle) and with the extracted Gallina model (correspondence). Non-trivial = "
                   "distinct operation sequences of length >= 3, and string accesses that return data." % maxlen)
    pick_idx = list(range(0, len(lines), max(1, len(lines) // 10)))[:10]
    cov["samples"] = [{"case": lines[i][:600], "impl": go[i][:600]} for i in pick_idx]
    cov["correspondence"] = {"cases": len(lines), "steps_compared": steps_compared, "differences": ndiff,
                             "model_unsupported_steps": unsupported, "first_differences": diffs[:5]}
    cov["input_distribution"] = {"corpus": ncorpus, "store_cases": n_store, "bytes_cases": n_bytes, "string_cases": n_str,
                                 "operations": dict(sorted(opcount.items())), **stats}
    cov["oracle"] = {"violations": len(viol), "known_classes_seen": {k: v["count"] for k, v in known_seen.items()}}
    res.assumptions += [
        "elements are immutable values (scalars and nested lists); container objects are not nested inside each other, and cyclic containers are outside the model",
        "Go's built-in map is a finite map (model: association list with distinct keys); sort.SliceStable as in C15",
        "callbacks of list.map / filter / each are drawn from a fixed set (identity, index, [index, value], index + 0, truthiness, constants, append to a list); callbacks that mutate the list they iterate are outside the model",
        "a[i] += v is modelled for int + int (wrapping) and string + string only; other operand types end the comparison of that case (counted as unsupported)",
        "indices are int64 and lengths are far below 2^62, so index arithmetic does not wrap",
    ]

    for kid, info in known_seen.items():
        ex = info["example"]
        res.known_finding("%s: %s [%d steps this run, e.g. %s in: %s]" % (kid, known_ids[kid]["what"], info["count"],
                                                                         ex.get("op", ""), ex["case"][:140]))
    for v in viol[:10]:
        res.violation({"property": PROP, "kind": "oracle-violation", "clause": v["clause"], "input": {"case": v["case"]},
                       "step": v.get("step"), "op": v.get("op"), "why": v["why"],
                       "replay_cmd": "echo '<case line>' | build/bin/c16obs"})
    if viol:
        return
    if not proved:
        res.violation({"property": PROP, "kind": "proof-obligation-broken", "theorem_file": "coq/props/C16.v",
                       "broken": res.broken, "search": "oracle evaluated on %d steps of %d cases: no failing input" % (stats["steps"], len(lines))},
                      nofail=True, tag="proof")
        return
    if ndiff:
        res.violation({"property": PROP, "kind": "correspondence-broken", "stage": "c16obs vs extracted Containers.v",
                       "first_difference": diffs[0], "differences": diffs,
                       "search": "oracle evaluated on %d steps: no failing input" % stats["steps"]}, nofail=True, tag="corr")


def replay(data):
    print(json.dumps(data, indent=1))
    obs, err = C.go_build("c16obs")
    if not obs:
        print(err)
        return 2
    inp = data.get("input") or data.get("first_difference") or {}
    line = inp.get("case")
    if line:
        rc, o, e = C.run([obs], input=(line + "\n").encode())
        print(line)
        print(o.replace(" ;; ", "\n"))
    return 0
