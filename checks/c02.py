"""C02 - closures capture variables lexically, at any depth and from any call path."""
import os
import re
import shutil
import subprocess
import tempfile

from lib import common as C, core, gen_closure as G

PROP = "C02"
LEVEL = "proof"


def op_sizes():
    txt = open(os.path.join(C.COQ, "gen", "GenOps.v")).read()
    return {int(a): 1 + int(b) for a, b in re.findall(r"\((\d+), (\d+)\)", txt)}


def positional_cells(code_line, sizes):
    """MakeCell with a non-zero frame offset in the real bytecode (the positional scheme)."""
    bad = []
    for part in code_line.split(" || "):
        m = re.search(r"ins=([0-9,]*)", part)
        if not m or not m.group(1):
            continue
        ins = [int(x) for x in m.group(1).split(",")]
        pc = 0
        while pc < len(ins):
            opc = ins[pc]
            if opc == 121 and pc + 2 < len(ins) and ins[pc + 2] != 0:
                bad.append((part.split(" ")[1], pc, ins[pc + 2]))
            pc += sizes.get(opc, 1)
    return bad


# ---------------------------------------------------------------- reduced language (model/Clos.v)

def reduced_program(rng):
    """random closed body of the reduced closure language; returns (prefix form, risor source)"""
    counter = [0]

    def fresh():
        counter[0] += 1
        return counter[0]

    def expr(scope, d, want_fun=False):
        ints = [n for n, k in scope if k == "i"]
        funs = [n for n, k in scope if k == "f"]
        k = rng.below(8)
        if want_fun:
            x = fresh()
            return lam(scope, d, x)
        if d <= 0 or k < 2:
            if ints and rng.chance(2, 3):
                n = rng.choice(ints)
                return "V %d" % n, "v%d" % n
            z = rng.below(9)
            return "C %d" % z, str(z)
        if k < 5:
            a, b = expr(scope, d - 1), expr(scope, d - 1)
            return "A %s %s" % (a[0], b[0]), "(%s + %s)" % (a[1], b[1])
        if funs and k < 7:
            g = rng.choice(funs)
            a = expr(scope, d - 1)
            return "P V %d %s" % (g, a[0]), "v%d(%s)" % (g, a[1])
        x = fresh()
        f = lam(scope, d - 1, x)
        a = expr(scope, d - 1)
        return "P %s %s" % (f[0], a[0]), "%s(%s)" % (f[1], a[1])

    def lam(scope, d, x):
        b = body([(x, "i")] + scope, d, 1 + rng.below(3), True)
        return "L %d %s" % (x, b[0]), "func(v%d) { %s }" % (x, b[1])

    def body(scope, d, n, in_fn):
        if n <= 0:
            e = expr(scope, d)
            return "R " + e[0], ("return " if in_fn else "") + e[1]
        k = rng.below(4)
        ints = [m for m, kd in scope if kd == "i"]
        if k == 0 and ints:
            t = rng.choice(ints)
            e = expr(scope, d)
            r = body(scope, d, n - 1, in_fn)
            return "S %d %s %s" % (t, e[0], r[0]), "v%d = %s; %s" % (t, e[1], r[1])
        nm = fresh()
        if k == 1 and d > 0:
            f = expr(scope, d, want_fun=True)
            r = body([(nm, "f")] + scope, d, n - 1, in_fn)
            return "D %d %s %s" % (nm, f[0], r[0]), "v%d := %s; %s" % (nm, f[1], r[1])
        e = expr(scope, d)
        r = body([(nm, "i")] + scope, d, n - 1, in_fn)
        return "D %d %s %s" % (nm, e[0], r[0]), "v%d := %s; %s" % (nm, e[1], r[1])

    while True:
        counter[0] = 0
        b = body([], 2 + rng.below(2), 2 + rng.below(3), True)
        if len(b[0]) <= 700:      # the functional stores of the reduced model make long runs quadratic
            return b[0], "func() { %s }()" % b[1]


def run(res):
    tier = res.tier
    nmodel = 3000 if tier == "quick" else 60000
    nroute = 600 if tier == "quick" else 15000
    nred = 2000 if tier == "quick" else 50000
    cov = res.coverage

    ok, log = C.translate("ops", "GenOps.v")
    if not ok:
        res.violation({"property": PROP, "kind": "translator-failed", "stage": "GenOps.v", "log": log[-2000:]}, nofail=True, tag="translate")
        return
    tools = core.build(res, PROP)
    if tools is None:
        return
    c02obs, err = C.go_build("c02obs")
    if not c02obs:
        res.violation({"property": PROP, "kind": "harness-build-failed", "stage": "go build c02obs", "log": err[-3000:]}, nofail=True, tag="build")
        return
    proved = C.prove(res, PROP)
    clos, err = C.build_extracted("clos", "ExtractClos.v", "clos_driver.ml")
    if not clos:
        res.violation({"property": PROP, "kind": "model-build-failed", "stage": "extraction of the reduced closure model",
                       "log": err[-3000:], "broken": getattr(res, "broken", None)}, nofail=True, tag="extract")
        return

    rng = C.Rng(res.seed)
    progs = [G.model_program(rng) for _ in range(nmodel)]
    cdir = os.path.join(C.VERIF, "corpus", "C02")
    wit = [open(os.path.join(cdir, f)).read() for f in sorted(os.listdir(cdir))] if os.path.isdir(cdir) else []
    srcs = wit + [p[0] for p in progs]
    routes = [G.route_programs(rng) for _ in range(nroute)]
    reduced = [reduced_program(rng) for _ in range(nred)]
    sizes = op_sizes()

    work = tempfile.mkdtemp(prefix="c02-", dir=C.WORK)
    try:
        st = core.stages(srcs, tools, work, want=("code", "eval", "vm", "sem"))

        def obs(mode, lines):
            p = subprocess.run([c02obs, mode], input=("\n".join(lines) + "\n").encode(), stdout=subprocess.PIPE)
            return p.stdout.decode("utf-8", "replace").splitlines()
        direct = obs("eval", [r[0].encode().hex() for r in routes])
        routed_eval = obs("eval", [r[1].encode().hex() for r in routes if r[2] != "vmcall"])
        routed_vm = obs("vmcall", ["%s\t%d" % (r[1].encode().hex(), r[4]) for r in routes if r[2] == "vmcall"])
        red_go = obs("eval", [r[1].encode().hex() for r in reduced])
        p = subprocess.run([clos], input=("\n".join(r[0] for r in reduced) + "\n").encode(), stdout=subprocess.PIPE)
        red_mo = p.stdout.decode().splitlines()
        red_code = core.stages([r[1] for r in reduced], tools, os.path.join(work, "red"), want=("code",))["code_go"]
    finally:
        shutil.rmtree(work, ignore_errors=True)

    oracle, corr = [], []
    agree = {"code": 0, "vm": 0, "sem": 0}
    depth_hist, route_hist = {}, {}
    distinct = set()
    for i, src in enumerate(srcs):
        for stage, a, b in (("code", "code_go", "code_mo"), ("vm", "eval_go", "vm_mo"), ("sem", "eval_go", "sem_mo")):
            x, y = core.canon_eval(st[a][i]), core.canon_eval(st[b][i])
            if core.skipped(x) or core.skipped(y):
                continue
            if x == y:
                agree[stage] += 1
                continue
            rec = {"stage": stage, "source": src, "impl": x[:500], "model": y[:500]}
            if stage == "sem":
                rec.update({"kind": "oracle-violation", "why": "the closure does not read/write the bindings lexically visible where it was defined (Sem gives a different result)"})
                oracle.append(rec)
            else:
                corr.append(rec)
        for bad in positional_cells(st["code_go"][i], sizes):
            oracle_note = {"kind": "oracle-violation", "stage": "capture scheme in the real bytecode", "source": src,
                           "why": "MakeCell with frame offset %d in code %s at pc %d: the cell is taken from whatever frame lies %d below "
                                  "the current one, which is the lexical ancestor only on the defining call path" % (bad[2], bad[0], bad[1], bad[2])}
            # a positional cell is a violation only if it manifests; try to manifest it below (route programs); record as broken tie
            corr.append(oracle_note)
        distinct.add(hash(st["code_go"][i]))
    for (src, d, r) in progs:
        depth_hist[d] = depth_hist.get(d, 0) + 1
        route_hist["model-route-%d" % r] = route_hist.get("model-route-%d" % r, 0) + 1

    ri = iter(routed_eval)
    rv = iter(routed_vm)
    route_agree = 0
    for (a, b, route, d, n), dres in zip(routes, direct):
        got = next(rv) if route == "vmcall" else next(ri)
        route_hist[route] = route_hist.get(route, 0) + 1
        if not dres.startswith("OK"):
            corr.append({"stage": "route programs", "source": a, "impl": dres})
            continue
        if got != dres:
            oracle.append({"kind": "oracle-violation", "stage": "route independence: " + route, "source": b,
                           "direct_program": a, "direct_result": dres, "routed_result": got, "calls_from_go": n if route == "vmcall" else None,
                           "why": "the same closures called through %s observe different bindings than when called directly" % route})
        else:
            route_agree += 1

    # incremental route: the closure programs of G.incremental_program piece by piece on one compiler and one VM (c18obs)
    c18obs, err18 = C.go_build("c18obs")
    inc_checked = 0
    if c18obs:
        nin = 300 if tier == "quick" else 6000
        incs = [G.incremental_program(rng) for _ in range(nin)]
        p18 = subprocess.run([c18obs], input=("\n".join(",".join(x.encode().hex() for x in pcs) for pcs in incs) + "\n").encode(), stdout=subprocess.PIPE)
        for pcs, line in zip(incs, p18.stdout.decode("utf-8", "replace").splitlines()):
            if "\t" not in line:
                continue
            inc, whole = line.split("\t", 1)
            if not whole.startswith("WHOLE OK") or "TIMEOUT" in line:
                continue
            inc_checked += 1
            last = inc[len("INC "):].split(" GLOBALS")[0].split("|")[-1]
            wres = whole[len("WHOLE "):].split(" GLOBALS")[0]
            if last != wres:
                oracle.append({"kind": "oracle-violation", "stage": "route independence: incremental", "source": "\n".join(pcs),
                               "incremental": inc[:600], "whole": whole[:300],
                               "why": "functions nested in other functions, called piece by piece on one compiler and one VM, do not see "
                                      "the top-level variables that the same program evaluated as a whole gives them"})
        route_hist["incremental"] = inc_checked
    else:
        corr.append({"stage": "build c18obs", "log": (err18 or "")[-500:]})

    red_agree = red_skipped = 0
    for (pre, src), g, m, code in zip(reduced, red_go, red_mo, red_code):
        if m.startswith("STUCK") or "rejected" in m:
            red_skipped += 1
            continue
        mv = m.rsplit(" ", 1)[0]
        if g == mv:
            red_agree += 1
        else:
            corr.append({"stage": "reduced closure model (Clos.eb) vs implementation", "source": src, "prefix_form": pre, "impl": g, "model": mv})
        for bad in positional_cells(code, sizes):
            corr.append({"stage": "capture scheme in the real bytecode", "source": src, "makecell_offset": bad[2]})

    cov["evaluations"] = len(srcs) + 2 * len(routes) + len(reduced)
    cov["distinct_nontrivial"] = len(distinct)
    cov["rule"] = ("nestings of function literals of depth 1..5; the innermost level builds two sibling closures that read a random "
                   "subset of all enclosing parameters/locals and write one of them; escape routes inside the modelled fragment "
                   "(returned, list, map, user-defined higher-order function, second activation, repeated call) are judged by Sem, "
                   "routes outside it (list.map/each/filter, sorted, try, spawn, go+channel, vm.Get + vm.Call from Go) by route "
                   "independence against direct calls; call orders permuted; plus random programs of the reduced closure language "
                   "of model/Clos.v compared with its extracted source semantics. Non-trivial = distinct compiled programs.")
    cov["samples"] = [{"source": progs[0][0], "impl": st["eval_go"][len(wit)][:200]},
                      {"route": routes[0][2], "routed_program": routes[0][1], "direct_result": direct[0]},
                      {"reduced_prefix_form": reduced[0][0], "reduced_source": reduced[0][1], "impl": red_go[0], "model": red_mo[0]}]
    cov["stage_agreement"] = agree
    cov["route_independence"] = {"checked": len(routes), "agree": route_agree}
    cov["reduced_model"] = {"programs": len(reduced), "agree": red_agree, "outside_fragment": red_skipped}
    cov["input_distribution"] = {"depth": depth_hist, "routes": route_hist}
    res.assumptions += [
        "C02_simulation is a theorem about the reduced closure language of model/Clos.v (function literals, declarations, "
        "assignment, calls, integer addition); its source semantics is tied to the implementation by differential runs, "
        "the capture scheme by inspecting the real bytecode (no positional MakeCell), the full compiler/VM models by the "
        "bytecode and result correspondence",
        "spawned closures run on cloned VMs; goroutine timing is not modelled",
    ]
    for v in oracle[:10]:
        v["property"] = PROP
        res.violation(v)
    if oracle:
        return
    if not proved:
        res.violation({"property": PROP, "kind": "proof-obligation-broken", "theorem_file": "coq/props/C02.v", "broken": res.broken,
                       "search": "Sem oracle, route independence and reduced-model runs found no failing input"}, nofail=True, tag="proof")
        return
    if corr:
        res.violation({"property": PROP, "kind": "correspondence-broken", "first_difference": corr[0], "count": len(corr),
                       "search": "Sem oracle and route independence agreed everywhere: no failing input"}, nofail=True, tag="corr")


def replay(data):
    import json
    print(json.dumps(data, indent=1)[:4000])
    src = data.get("source")
    if src:
        exe, err = C.go_build("c02obs")
        rc, o, e = C.run([exe, "eval"], input=(src.encode().hex() + "\n").encode())
        print("implementation now:", o)
    return 0
