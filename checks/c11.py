"""C11 - scripts can reach only the globals the host configuration allows."""
import glob
import json
import os
import re
import shutil
import subprocess
import tempfile
from concurrent.futures import ThreadPoolExecutor

from lib import common as C

PROP = "C11"
LEVEL = "proof"
NEW_BASE = 100000          # model-side node ids of replacement objects


# ------------------------------------------------------------------ plumbing owned by this check

def repo_dir():
    """The source tree the harness is built against: C.REPO (normally /repo, a scratch copy when VERIF_REPO is set;
    lib.common.ensure_harness_mod points the replace line of harness/go.mod at it before every build)."""
    return C.REPO


def make_overlay():
    """Add-only hook object.(*Module).VerifAttrNames, injected without editing the repository."""
    d = os.path.join(C.BUILD, "overlay_c11")
    os.makedirs(d, exist_ok=True)
    hook = open(os.path.join(C.VERIF, "hooks", "module_verif.go.txt")).read()
    C.write_if_changed(os.path.join(d, "module_verif_hook.go"), hook)
    ov = {"Replace": {os.path.join(repo_dir(), "object", "zz_verif_module.go"): os.path.join(d, "module_verif_hook.go")}}
    p = os.path.join(d, "overlay.json")
    C.write_if_changed(p, json.dumps(ov, indent=1))
    return p


def load_known():
    """open known findings of this property: the shared file plus the per-agent files known_findings.<agent>.jsonl"""
    out = list(C.load_known(PROP))
    for fn in sorted(glob.glob(os.path.join(C.VERIF, "known_findings.*.jsonl"))):
        for line in open(fn):
            line = line.strip()
            if line and not line.startswith("#"):
                j = json.loads(line)
                if j.get("property") == PROP and not j.get("fixed"):
                    out.append(j)
    return out


def hx(s):
    return s.encode("utf-8").hex()


# ------------------------------------------------------------------ the base graph (as printed by `c11obs base`)

class Base:
    def __init__(self, text):
        self.nodes = {}      # id -> (stable, kind, desc)
        self.out = {}        # id -> {label: (member, dst)}
        self.roots = {1: {}, 2: {}, 3: {}}
        self.mods = set()
        self.hash = ""
        self.dupsig = 0
        for line in text.split("\n"):
            f = line.split(" ")
            if f[0] == "N":
                self.nodes[int(f[1])] = (f[2] == "1", bytes.fromhex(f[3]).decode(), bytes.fromhex(f[4]).decode("utf-8", "replace"))
            elif f[0] == "E":
                self.out.setdefault(int(f[1]), {})[bytes.fromhex(f[2]).decode()] = (f[3] == "1", int(f[4]))
            elif f[0] == "R":
                self.roots[int(f[1])][bytes.fromhex(f[2]).decode()] = int(f[3])
            elif f[0] == "M":
                self.mods.add(int(f[1]))
            elif f[0] == "HASH":
                self.hash = f[1]
            elif f[0] == "DUPSIG":
                self.dupsig += 1
        self.rin = {}        # reverse edges
        for s, d in self.out.items():
            for lbl, (mem, t) in d.items():
                self.rin.setdefault(t, []).append((s, lbl))

    def lookup(self, name, insts=(1,)):
        parts = name.split(".")
        n = None
        for i in insts:
            if parts[0] in self.roots[i]:
                n = self.roots[i][parts[0]]
        if n is None:
            return None
        for p in parts[1:]:
            e = self.out.get(n, {}).get(p)
            if e is None:
                return None
            n = e[1]
        return n

    def names(self, inst, maxdepth=5):
        """Registered dotted names: globals and, through module members, nested members."""
        out = []

        def rec(prefix, n, depth):
            out.append(prefix)
            if n in self.mods and depth < maxdepth:
                for lbl, (mem, t) in sorted(self.out.get(n, {}).items()):
                    if mem:
                        rec(prefix + "." + lbl, t, depth + 1)
        for r, n in sorted(self.roots[inst].items()):
            rec(r, n, 1)
        return out

    def paths_to(self, target, inst, maxlen=3, limit=200):
        """Access paths (root name, labels...) of at most maxlen attribute steps ending at target."""
        rootnames = {}
        for r, n in self.roots[inst].items():
            rootnames.setdefault(n, []).append(r)
        out = []

        def rec(n, suffix, depth):
            if len(out) >= limit:
                return
            for r in rootnames.get(n, []):
                out.append([r] + suffix)
            if depth == maxlen:
                return
            for (s, lbl) in self.rin.get(n, []):
                rec(s, [lbl] + suffix, depth + 1)
        rec(target, [], 0)
        return out


IDENT = re.compile(r"^[A-Za-z_][A-Za-z0-9_]*$")
KEYWORDS = {"as", "import", "from", "func", "return", "if", "else", "for", "in", "range", "switch", "case", "default",
            "break", "continue", "var", "const", "true", "false", "nil", "struct", "defer", "go", "not"}


def render(path, syntax):
    """risor source for an access path [global, attr, attr, ...] in one of the script-level syntaxes."""
    if not all(IDENT.match(p) and p not in KEYWORDS for p in path):
        return None
    r, rest = path[0], path[1:]
    if syntax == "dot":
        return ".".join(path)
    if syntax == "getattr":
        s = r
        for a in rest:
            s = 'getattr(%s, "%s")' % (s, a)
        return s
    if syntax == "import":
        return "import %s\n%s" % (r, ".".join(path))
    if syntax == "alias":
        return "import %s as zz9\n%s" % (r, ".".join(["zz9"] + rest))
    if syntax == "from" and rest:
        s = rest[0]
        for a in rest[1:]:
            s = 'getattr(%s, "%s")' % (s, a)
        return "from %s import %s\n%s" % (r, rest[0], s)
    if syntax == "indirect":
        s = "func() { return [%s][0] }()" % r
        for a in rest:
            s = 'getattr(%s, "%s")' % (s, a)
        return s
    return None


SYNTAXES = ["dot", "getattr", "import", "alias", "from", "indirect"]


def canon_real(r):
    if r.startswith("other:") or r.startswith("sig:"):
        return "other"
    if r.startswith("err:"):
        return "none"
    return r


class Case:
    """One configuration with what is asked about it."""

    def __init__(self, cid, group, mode="A", nodefaults=False, custom=False, deny=(), override=(), lookups=(), evals=(),
                 indep=False, deny_many=False, opts=None, extra=(), reuse=(), nomodel=False):
        self.id, self.group, self.mode = cid, group, mode
        self.nodefaults, self.custom = nodefaults, custom
        self.deny, self.override = list(deny), list(override)      # override: (name, kind)
        self.lookups = list(lookups)
        self.evals = list(evals)                                   # (src, path-name, syntax, role)
        self.indep, self.deny_many = indep, deny_many
        # a configuration as the composition of a SEQUENCE of options (dicts {op, names, idx}); deny / override are then
        # what is asked about: the union of the denied names, every override option's (name, kind)
        self.opts = opts
        self.extra = list(extra)                                   # values of WithGlobal(s) options: (name, kind)
        self.reuse = [list(r) for r in reuse]                      # sub-lists of opts applied to further Configs (same Option values)
        self.nomodel = nomodel                                     # holds objects the base graph does not have: oracle only

    def go_json(self):
        j = {"id": self.id, "mode": self.mode, "nodefaults": self.nodefaults, "custom": self.custom,
             "deny": self.deny, "deny_many": self.deny_many,
             "override": [{"name": n, "kind": k} for n, k in self.override],
             "lookups": self.lookups, "eval": [e[0] for e in self.evals], "indep": self.indep}
        if self.opts is not None:
            j["opts"] = self.opts
            j["extra"] = [{"name": n, "kind": k} for n, k in self.extra]
            j["reuse"] = self.reuse
        return json.dumps(j)

    def value_node(self, base, kind, fresh):
        insts = (1, 3) if self.custom else (1,)
        if kind.startswith("ref:"):
            v = base.lookup(kind[4:], insts)
            if v is None:
                v = base.lookup("len.__module__", insts) or fresh + 500      # object.Nil
            return v
        return fresh

    def assembled(self, base):
        """A: tokens - the modules the host assembles (object.NewBuiltinsModule) before configuring"""
        insts = (1, 3) if self.custom else (1,)
        out = []
        for vals, off in ((self.override, 0), (self.extra, 1000)):
            for i, (n, k) in enumerate(vals):
                if k.startswith("asm:"):
                    _, mod, mem = k.split(":", 2)
                    pairs = []
                    for a in mem.split(","):
                        d = base.lookup(mod + "." + a, insts)
                        if d is not None:
                            pairs.append("%s=%d" % (hx(a), d))
                    out.append("A:%d:%s" % (NEW_BASE + off + i, ",".join(pairs)))
        return out

    def model_line(self, base, sub=None, suffix=""):
        """sub: indices into opts - the model's prediction for a Config made from that sub-list of the options"""
        toks = [self.id + suffix, "1" if (self.nodefaults and self.opts is None) else "0", "1" if self.custom else "0"]
        if self.opts is None:
            toks += ["D:" + hx(n) for n in self.deny]
            for i, (n, k) in enumerate(self.override):
                toks.append("O:%s:%d" % (hx(n), self.value_node(base, k, NEW_BASE + i)))
        else:
            toks += self.assembled(base)
            for oi, o in enumerate(self.opts):
                if sub is not None and oi not in sub:
                    continue
                op = o["op"]
                if op == "nodefaults":
                    toks.append("ND")
                elif op == "without":
                    toks.append("D:" + hx(o["names"][0]))
                elif op == "without_many":
                    toks.append("DM:" + ",".join(hx(n) for n in o["names"]))
                elif op == "override":
                    i = o["idx"][0]
                    n, k = self.override[i]
                    toks.append("O:%s:%d" % (hx(n), self.value_node(base, k, NEW_BASE + i)))
                elif op == "global":
                    j = o["idx"][0]
                    n, k = self.extra[j]
                    toks.append("G:%s:%d" % (hx(n), self.value_node(base, k, NEW_BASE + 1000 + j)))
                elif op == "globals":
                    toks.append("GM:" + ",".join("%s=%d" % (hx(self.extra[j][0]), self.value_node(base, self.extra[j][1], NEW_BASE + 1000 + j))
                                                 for j in o["idx"]))
        looks = list(self.lookups) + [e[1] for e in self.evals if e[1]] + [e[1].split(".")[0] for e in self.evals if e[1]]
        seen = set()
        for n in looks:
            if n not in seen:
                seen.add(n)
                toks.append("L:" + hx(n))
        return " ".join(toks)

    def describe(self):
        d = {"id": self.id, "group": self.group, "mode": self.mode, "nodefaults": self.nodefaults, "custom": self.custom,
             "deny": self.deny, "override": self.override, "indep": self.indep}
        if self.opts is not None:
            d["option_list"] = self.option_text()
            d.update({"opts": self.opts, "extra": self.extra, "reuse": self.reuse})
        return d

    def option_text(self, sub=None):
        out = []
        for oi, o in enumerate(self.opts or []):
            if sub is not None and oi not in sub:
                continue
            op = o["op"]
            if op == "nodefaults":
                out.append("WithoutDefaultGlobals()")
            elif op == "without":
                out.append("WithoutGlobal(%r)" % o["names"][0])
            elif op == "without_many":
                out.append("WithoutGlobals(%s)" % ", ".join(repr(n) for n in o["names"]))
            elif op == "override":
                out.append("WithGlobalOverride(%r, <%s>)" % tuple(self.override[o["idx"][0]]))
            elif op == "global":
                out.append("WithGlobal(%r, <%s>)" % tuple(self.extra[o["idx"][0]]))
            elif op == "globals":
                out.append("WithGlobals({%s})" % ", ".join("%r: <%s>" % tuple(self.extra[j]) for j in o["idx"]))
        return out

    def superseded(self):
        """override options whose name is given again by a LATER override option (the overrides are a map: the last wins)"""
        out = set()
        if self.opts is None:
            return out
        last = {}
        for o in self.opts:
            if o["op"] == "override":
                i = o["idx"][0]
                n = self.override[i][0]
                if n in last:
                    out.add(last[n])
                last[n] = i
        return out


def gen_cases(rng, base, tier):
    cases = []
    names1 = base.names(1)
    names3 = base.names(3)
    k = [0]

    def cid(prefix):
        k[0] += 1
        return "%s%d" % (prefix, k[0])

    def attempts(name, insts, role, maxn):
        tgt = base.lookup(name, insts)
        if tgt is None:
            return []
        out = []
        paths = base.paths_to(tgt, 1, 3)
        if 3 in insts:
            paths += base.paths_to(tgt, 3, 4)
        direct = name.split(".")
        cand = [direct] + [p for p in paths if p != direct]
        picked = [cand[0]]
        rest = cand[1:]
        while rest and len(picked) < maxn:
            picked.append(rest.pop(rng.below(len(rest))))
        for i, p in enumerate(picked):
            syns = SYNTAXES if i == 0 else [rng.choice(SYNTAXES), "dot"]
            for syn in syns:
                src = render(p, syn)
                if src:
                    out.append((src, ".".join(p), syn, role))
        return out

    def controls(avoid, n):
        out = []
        for _ in range(n):
            nm = rng.choice(names1)
            if any(nm == a or nm.startswith(a + ".") or a.startswith(nm + ".") for a in avoid):
                continue
            src = render(nm.split("."), rng.choice(["dot", "getattr", "import"] if "." in nm else ["dot"]))
            if src:
                out.append((src, nm, "control", "control"))
        return out

    # 1. every single-name deny configuration: identities captured (A, with script-level access attempts) and plain API (B)
    for nm in names1:
        cases.append(Case(cid("d"), "single-deny", "A", deny=[nm], lookups=[nm] + [rng.choice(names1)],
                          evals=attempts(nm, (1,), "denied", 4) + controls([nm], 2), indep=rng.chance(1, 8)))
        cases.append(Case(cid("b"), "single-deny-plain", "B", deny=[nm], lookups=[nm]))
    # 2. every single-name override configuration
    for i, nm in enumerate(names1):
        kind = ["new", "int", "new", "ref:len"][i % 4]
        if kind == "ref:len" and nm == "len":
            kind = "new"
        cases.append(Case(cid("o"), "single-override", "A", override=[(nm, kind)], lookups=[nm],
                          evals=attempts(nm, (1,), "overridden", 3) + controls([nm], 1), indep=rng.chance(1, 8)))
    # 3. host-defined nested modules: every dotted name of the custom tree, denied and overridden
    for nm in names3:
        cases.append(Case(cid("n"), "nested-deny", "A", custom=True, deny=[nm], lookups=names3,
                          evals=attempts(nm, (1, 3), "denied", 3)))
        cases.append(Case(cid("m"), "nested-override", "A", custom=True, override=[(nm, "new")], lookups=names3,
                          evals=attempts(nm, (1, 3), "overridden", 2)))
    # 3b. subsets of nested names (deny and override together), each run twice
    for _ in range(40 if tier == "quick" else 600):
        dn, ov = [], []
        for _ in range(1 + rng.below(3)):
            nm = rng.choice(names3)
            if nm not in dn:
                dn.append(nm)
        for _ in range(rng.below(3)):
            nm = rng.choice(names3)
            if nm not in [o[0] for o in ov]:
                ov.append((nm, rng.choice(["new", "int"])))
        i = cid("t")
        c1 = Case(i, "nested-subset", "A", custom=True, deny=dn, override=ov, lookups=names3)
        cases.append(c1)
        c2 = Case(i + "r", "nested-subset-rerun", "A", custom=True, deny=list(reversed(dn)), override=list(reversed(ov)),
                  lookups=names3)
        c2.twin = i
        cases.append(c2)
    # 4. sampled subsets (each run twice: the denylist and the overrides are Go maps)
    nsub = 500 if tier == "quick" else 6000
    for _ in range(nsub):
        dn = []
        for _ in range(1 + rng.below(6)):
            nm = rng.choice(names1)
            if rng.chance(1, 5) and "." in nm:
                nm = nm.split(".")[0]
            if nm not in dn:
                dn.append(nm)
        ov = []
        for _ in range(rng.below(3)):
            nm = rng.choice(names1)
            if rng.chance(1, 6):
                nm = "fresh_global_%d" % rng.below(3)
            if nm not in [o[0] for o in ov]:
                ov.append((nm, rng.choice(["new", "int", "ref:print", "ref:len"])))
        ev = []
        for nm in dn[:2]:
            ev += attempts(nm, (1,), "denied", 2)[:3]
        i = cid("s")
        mode = rng.choice(["A", "A", "B"])
        if any(k.startswith("ref:") for _, k in ov):
            mode = "A"      # an existing object as replacement needs captured identities
        c1 = Case(i, "subset", mode, deny=dn, override=ov, lookups=dn + [o[0] for o in ov],
                  evals=ev + controls(dn + [o[0] for o in ov], 1), deny_many=rng.chance(1, 2), indep=rng.chance(1, 10))
        cases.append(c1)
        c2 = Case(i + "r", "subset-rerun", c1.mode, deny=list(reversed(dn)), override=list(reversed(ov)), lookups=c1.lookups,
                  deny_many=c1.deny_many)
        c2.twin = i
        cases.append(c2)
    # 5. malformed names
    weird = ["", ".", "..", "os.", ".os", "os..getenv", "os.getenv.", "os.getenv.x", "OS", "os.GETENV", " os", "os .getenv",
             "os.__name__", "__name__", "os.__module__", "getenv.__module__", "os.stdin.x", "ös", "os.geténv", "nosuch",
             "nosuch.x", "os.nosuch", "len.x", "math.PI.x", "os/getenv", "os.getenv os", "os,getenv", "a.b.c.d.e", "time.RFC3339.x"]
    nmal = 200 if tier == "quick" else 2500
    for j in range(nmal):
        if j < len(weird):
            nm = weird[j]
        else:
            b = rng.choice(names1)
            op = rng.below(6)
            if op == 0:
                nm = b + "."
            elif op == 1:
                nm = "." + b
            elif op == 2:
                nm = b.replace(".", "..")
            elif op == 3:
                nm = b.upper()
            elif op == 4:
                nm = b + "." + rng.choice(["x", "__name__", "__module__", "spawn"])
            else:
                pos = rng.below(len(b) + 1)
                nm = b[:pos] + rng.choice([".", " ", "_", "é"]) + b[pos:]
        look = [nm, nm.split(".")[0], rng.choice(names1)]
        if rng.chance(1, 2):
            cases.append(Case(cid("w"), "malformed-deny", rng.choice(["A", "B"]), deny=[nm], lookups=look))
        else:
            cases.append(Case(cid("w"), "malformed-override", "A", override=[(nm, "new")], lookups=look))
    # 6. WithoutDefaultGlobals
    for j in range(6):
        dn = [rng.choice(names1) for _ in range(j % 3)]
        ov = [("fresh_global_0", "new")] if j >= 3 else []
        cases.append(Case(cid("z"), "without-defaults", rng.choice(["A", "B"]), nodefaults=True, deny=dn, override=ov,
                          lookups=dn + ["len", "os", "fresh_global_0"],
                          evals=[("len", "len", "dot", "nodefaults"), ("os", "os", "dot", "nodefaults"),
                                 ("import os", "os", "import", "nodefaults")]))
    # 7. configurations composed from a SEQUENCE of options in any order: several deny options of both kinds (each
    #    name given once or more, an empty WithoutGlobals), overrides (a name may be overridden twice: the last wins), extra
    #    globals through WithGlobal / WithGlobals (also under the name of a default), WithoutDefaultGlobals anywhere in
    #    the list; in plain-API mode further Configs are made from sub-lists of the SAME Option values
    def shuffle(xs):
        xs = list(xs)
        for i in range(len(xs) - 1, 0, -1):
            j = rng.below(i + 1)
            xs[i], xs[j] = xs[j], xs[i]
        return xs

    ncomp = 400 if tier == "quick" else 5000
    for ci in range(ncomp):
        dn = []
        for _ in range(2 + rng.below(5)):
            nm = rng.choice(names1)
            if rng.chance(1, 5) and "." in nm:
                nm = nm.split(".")[0]
            if nm not in dn and nm not in ("getattr",):
                dn.append(nm)
        groups = []
        rest = list(dn)
        while rest:
            gk = 1 + rng.below(min(3, len(rest)))
            groups.append(rest[:gk])
            rest = rest[gk:]
        opts = []
        for g in groups:
            if len(g) == 1 and rng.chance(2, 3):
                opts.append({"op": "without", "names": g, "idx": []})
            else:
                g2 = list(g)
                if rng.chance(1, 6):
                    g2.append(rng.choice(dn))        # a name given by two options
                opts.append({"op": "without_many", "names": g2, "idx": []})
        if rng.chance(1, 8):
            opts.append({"op": "without_many", "names": [], "idx": []})
        ov = []
        for _ in range(rng.below(3)):
            nm = rng.choice(names1) if rng.chance(5, 6) else "fresh_global_%d" % rng.below(3)
            if nm == "getattr":
                continue
            ov.append((nm, rng.choice(["new", "int"])))
            opts.append({"op": "override", "names": [], "idx": [len(ov) - 1]})
            if rng.chance(1, 6):
                ov.append((nm, rng.choice(["new", "int"])))      # the same name overridden again
                opts.append({"op": "override", "names": [], "idx": [len(ov) - 1]})
        mode = rng.choice(["A", "B"])
        ex = []
        nex = rng.below(3)
        for j in range(nex):
            nm = "fresh_extra_%d" % j
            if rng.chance(1, 4):
                nm = rng.choice([n for n in names1 if "." not in n and n != "getattr"])
            if nm in [e[0] for e in ex]:
                continue
            ex.append((nm, rng.choice(["new", "int"])))
        if ex:
            if len(ex) > 1 and rng.chance(1, 2):
                opts.append({"op": "globals", "names": [], "idx": list(range(len(ex)))})
            else:
                for j in range(len(ex)):
                    opts.append({"op": "global", "names": [], "idx": [j]})
        nodef = rng.chance(1, 15)
        if nodef:
            opts.append({"op": "nodefaults", "names": [], "idx": []})
        opts = shuffle(opts)
        ev = []
        for nm in dn[:2]:
            ev += attempts(nm, (1,), "denied", 2)[:3]
        reuse = []
        if mode == "B":
            for _ in range(1 + rng.below(2)):
                r = rng.below(3)
                if r == 0:
                    sub = list(range(1 + rng.below(len(opts))))                      # a prefix
                elif r == 1:
                    sub = [i for i in range(len(opts)) if rng.chance(1, 2)]         # a sub-sequence
                else:
                    sub = [rng.below(len(opts))]                                    # one option alone
                reuse.append(sub)
        cases.append(Case(cid("c"), "composed", mode, nodefaults=nodef, deny=dn, override=ov,
                          lookups=dn + [o[0] for o in ov] + [e[0] for e in ex],
                          evals=ev + controls(dn + [o[0] for o in ov] + [e[0] for e in ex], 1),
                          opts=opts, extra=ex, reuse=reuse, indep=rng.chance(1, 12)))
    # 8. modules the HOST assembles (object.NewBuiltinsModule) from members of an existing module, installed as an override of
    #    that module or under a new name beside a deny of it; the members come from this configuration's own defaults
    #    (asm) or from a separate full instance (asmx: the base graph does not hold those objects - oracle only)
    modglobals = [r for r, n in sorted(base.roots[1].items()) if n in base.mods]
    for mi, M in enumerate(modglobals):
        mnode = base.roots[1][M]
        mem = sorted((lbl, t) for lbl, (ismem, t) in base.out.get(mnode, {}).items() if ismem and IDENT.match(lbl) and lbl not in KEYWORDS)
        builtins = [lbl for lbl, t in mem if base.nodes[t][1] == "builtin"]
        others = [lbl for lbl, t in mem if base.nodes[t][1] != "builtin"]
        if len(builtins) < 2:
            continue
        nvar = 2 if tier == "quick" else 8
        for vi in range(nvar):
            sk = 1 + rng.below(min(5, len(builtins) - 1))
            S = shuffle(builtins)[:sk]
            if others and rng.chance(1, 3):
                S.append(rng.choice(others))
            outside = [b for b in builtins if b not in S]
            src = "asm" if (vi % 2 == 0 or rng.chance(1, 2)) else "asmx"
            kind = "%s:%s:%s" % (src, M, ",".join(S))
            if rng.chance(1, 2):
                name = M
                opts = [{"op": "override", "names": [], "idx": [0]}]
                case_kw = dict(override=[(M, kind)], extra=[], deny=[])
            else:
                name = "safe_" + M
                opts = shuffle([{"op": "without", "names": [M], "idx": []}, {"op": "global", "names": [], "idx": [0]}])
                case_kw = dict(override=[], extra=[(name, kind)], deny=[M])
            ev = []
            for m in S[:2]:
                for syn in ("dot", "getattr", "from"):
                    ev.append((render([name, m, "__module__"], syn), ".".join([name, m, "__module__"]), syn, "asm-self"))
                if outside:
                    x = rng.choice(outside)
                    syn = rng.choice(["dot", "getattr", "from"])
                    ev.append((render([name, m, "__module__", x], syn), ".".join([name, m, "__module__", x]), syn, "asm-out"))
            if outside:
                x = rng.choice(outside)
                ev.append((render([name, x], "dot"), name + "." + x, "dot", "asm-out"))
            ev.append((render([name, S[0]], "dot"), name + "." + S[0], "dot", "control"))
            ev = [e for e in ev if e[0]]
            cases.append(Case(cid("a"), "assembled" if src == "asm" else "assembled-foreign", "A",
                              lookups=[M, name, name + "." + S[0], name + "." + S[0] + ".__module__"], evals=ev,
                              opts=opts, nomodel=(src == "asmx"), **case_kw))
    return cases


# ------------------------------------------------------------------ histories of configurations (sessions)
# One host process: ONE globals map the host hands to every configuration, optionally ONE VM and code compiled once,
# evaluated under a SEQUENCE of configurations that differ in WithoutDefaultGlobals / deny / override options.  The
# property quantifies over configurations, so evaluation k of a history must behave as its configuration does alone.

HOST_NODE = NEW_BASE + 2000


def split_probe(src):
    """risor source of an access attempt -> (statements before, expression)"""
    lines = src.split("\n")
    return "\n".join(lines[:-1]), lines[-1]


class Session:
    def __init__(self, sid, group, vm, host, override, extra, steps, probes):
        self.id, self.group, self.vm = sid, group, vm
        self.host, self.override, self.extra = host, override, extra      # lists of (name, kind)
        self.steps = steps          # [{"route":..., "opts":[{op,names,idx}]}]
        self.probes = probes        # [{"pre","expr","src","path","syn","uses":[top-level names the script mentions]}]

    def go_json(self):
        return json.dumps({"id": self.id, "vm": self.vm,
                           "host": [{"name": n, "kind": k} for n, k in self.host],
                           "override": [{"name": n, "kind": k} for n, k in self.override],
                           "extra": [{"name": n, "kind": k} for n, k in self.extra],
                           "probes": [{"pre": p["pre"], "expr": p["expr"]} for p in self.probes],
                           "steps": self.steps})

    def option_text(self, k):
        out = []
        for o in self.steps[k]["opts"]:
            op = o["op"]
            if op == "hostmap":
                out.append("WithGlobals(HOSTMAP)")
            elif op == "nodefaults":
                out.append("WithoutDefaultGlobals()")
            elif op == "without":
                out.append("WithoutGlobal(%r)" % o["names"][0])
            elif op == "without_many":
                out.append("WithoutGlobals(%s)" % ", ".join(repr(n) for n in o["names"]))
            elif op == "override":
                out.append("WithGlobalOverride(%r, <%s>)" % tuple(self.override[o["idx"][0]]))
            elif op == "global":
                out.append("WithGlobal(%r, <%s>)" % tuple(self.extra[o["idx"][0]]))
            elif op == "globals":
                out.append("WithGlobals({%s})" % ", ".join("%r: <%s>" % tuple(self.extra[j]) for j in o["idx"]))
        return out

    def step_text(self, k):
        r = self.steps[k]["route"]
        api = {"newconfig": "cfg := risor.NewConfig(%s) (kept; scripts run with cfg.CompilerOpts / cfg.VMOpts)",
               "eval": "risor.Eval(ctx, SCRIPT, %s)", "evalcode": "risor.EvalCode(ctx, CODE compiled once, %s)",
               "call": "risor.Call(ctx, CODE compiled once, \"c11probe\", nil, %s)"}[r]
        opts = self.option_text(k) + (["WithVM(THE_VM)"] if self.vm and r != "newconfig" else [])
        return api % ", ".join(opts)

    def describe(self):
        return {"id": self.id, "group": self.group, "one_vm_for_all_steps": self.vm,
                "HOSTMAP (one map object handed to every step)": {n: "<%s>" % k for n, k in self.host},
                "history": ["%d. %s" % (k + 1, self.step_text(k)) for k in range(len(self.steps))]}

    def model_line(self, k):
        toks = ["%s~%d" % (self.id, k), "0", "0"]
        for o in self.steps[k]["opts"]:
            op = o["op"]
            if op == "hostmap":
                toks.append("GM:" + ",".join("%s=%d" % (hx(n), HOST_NODE + i) for i, (n, _) in enumerate(self.host)))
            elif op == "nodefaults":
                toks.append("ND")
            elif op == "without":
                toks.append("D:" + hx(o["names"][0]))
            elif op == "without_many":
                toks.append("DM:" + ",".join(hx(n) for n in o["names"]))
            elif op == "override":
                toks.append("O:%s:%d" % (hx(self.override[o["idx"][0]][0]), NEW_BASE + o["idx"][0]))
            elif op == "global":
                toks.append("G:%s:%d" % (hx(self.extra[o["idx"][0]][0]), NEW_BASE + 1000 + o["idx"][0]))
            elif op == "globals":
                toks.append("GM:" + ",".join("%s=%d" % (hx(self.extra[j][0]), NEW_BASE + 1000 + j) for j in o["idx"]))
        return " ".join(toks)

    def step_config(self, k):
        """-> (nodefaults, denied names, overridden names) of step k, from its own options"""
        nd, dn, ov = False, [], []
        for o in self.steps[k]["opts"]:
            if o["op"] == "nodefaults":
                nd = True
            elif o["op"] in ("without", "without_many"):
                dn += o["names"]
            elif o["op"] == "override":
                ov.append(self.override[o["idx"][0]][0])
        return nd, dn, ov


def gen_sessions(rng, base, tier):
    names1 = base.names(1)
    tops = [n for n in names1 if "." not in n and IDENT.match(n) and n not in KEYWORDS and n != "getattr"]
    out = []

    def shuffle(xs):
        xs = list(xs)
        for i in range(len(xs) - 1, 0, -1):
            j = rng.below(i + 1)
            xs[i], xs[j] = xs[j], xs[i]
        return xs

    def uses(path, syn):
        u = [path[0]]
        if syn in ("getattr", "indirect") and len(path) > 1 or syn == "from" and len(path) > 2:
            u.append("getattr")
        return u

    nsess = 160 if tier == "quick" else 2400
    for si in range(nsess):
        vm = si % 2 == 1
        pool = []
        while len(pool) < 2 + rng.below(3):
            nm = rng.choice(names1)
            if rng.chance(1, 4) and "." in nm:
                nm = nm.split(".")[0]
            if nm == "getattr" or nm in pool or not all(IDENT.match(x) and x not in KEYWORDS for x in nm.split(".")):
                continue
            pool.append(nm)
        host = [("answer", "int")]
        if rng.chance(2, 3):
            host.append(("hostfn", "new"))
        if rng.chance(2, 3):
            host.append(("hostmod", "hmod"))
        if rng.chance(1, 5):
            host.append((rng.choice(tops), "new"))          # the host's own value under the name of a default
        override = [(nm, rng.choice(["new", "int"])) for nm in pool if rng.chance(2, 3)]
        if rng.chance(1, 5):
            override.append(("fresh_global_0", "new"))
        extra = [("fresh_extra_0", "new")] if rng.chance(1, 3) else []
        nsteps = 2 + rng.below(4)
        steps = []
        for k in range(nsteps):
            if vm:
                route = rng.choice(["eval", "evalcode", "call", "evalcode"])
            else:
                route = rng.choice(["eval", "newconfig", "eval", "evalcode", "call", "newconfig"])
            opts = []
            if not (k == 0 and rng.chance(1, 2)):       # (half of the histories start with the plain configuration)
                dn = [nm for nm in pool if rng.chance(1, 3)]
                if rng.chance(1, 8):
                    dn.append(rng.choice(host)[0])
                if dn:
                    if len(dn) == 1 or rng.chance(1, 2):
                        opts += [{"op": "without", "names": [n], "idx": []} for n in dn]
                    else:
                        opts.append({"op": "without_many", "names": dn, "idx": []})
                for i in range(len(override)):
                    if rng.chance(1, 3):
                        opts.append({"op": "override", "names": [], "idx": [i]})
                if rng.chance(1, 4):
                    opts.append({"op": "nodefaults", "names": [], "idx": []})
                if extra and rng.chance(1, 2):
                    opts.append({"op": rng.choice(["global", "globals"]), "names": [], "idx": [0]})
                opts = shuffle(opts)
            if rng.chance(7, 8):
                hm = {"op": "hostmap", "names": [], "idx": []}
                if rng.chance(2, 3):
                    opts.insert(0, hm)          # what hosts write: their globals first, then the restrictions
                else:
                    opts.insert(rng.below(len(opts) + 1), hm)
            steps.append({"route": route, "opts": opts})
        probes, seen = [], set()

        def add(path, syn):
            src = render(path, syn)
            if src and src not in seen and len(probes) < 26:
                seen.add(src)
                pre, expr = split_probe(src)
                probes.append({"pre": pre, "expr": expr, "src": src, "path": ".".join(path), "syn": syn, "uses": uses(path, syn)})
        for nm in pool:
            direct = nm.split(".")
            for syn in SYNTAXES:
                add(direct, syn)
            tgt = base.lookup(nm)
            alts = [p for p in base.paths_to(tgt, 1, 3) if p != direct] if tgt else []
            for _ in range(2):
                if alts:
                    add(alts.pop(rng.below(len(alts))), rng.choice(["dot", "getattr"]))
        for n, kind in host:
            add([n], "dot")
            if kind == "hmod":
                add([n, "hm_a"], rng.choice(["dot", "getattr", "from"]))
                add([n, "hm_a", "__module__", "hm_b"], "dot")
        for n, _ in extra + [o for o in override if "." not in o[0]]:
            add([n], "dot")
        for _ in range(2):
            nm = rng.choice(names1)
            add(nm.split("."), rng.choice(["dot", "import"] if "." in nm else ["dot"]))
        out.append(Session("S%d" % si, "session-vm" if vm else "session-map", vm, host, override, extra, steps, probes))
    return out


def unresolved(r):
    """the script failed because a top-level name (identifier or imported module) does not resolve"""
    return r in ("err:undefined", "err:import", "none") or ("variable" in r and "has no value" in r)


def judge_session(s, g, base, regnames):
    """-> (why: strict findings, known: findings of the recorded reused-VM class, nontrivial marks)"""
    why, known, marks = [], [], set()
    if g.get("problem"):
        return ["harness could not observe: " + g["problem"]], [], marks
    steps = g.get("steps") or []
    envs = []
    for k, so in enumerate(steps):
        nd, dn, ov = s.step_config(k)
        route = s.steps[k]["route"]
        tag = "evaluation %d of the history [%s]" % (k + 1, s.step_text(k))
        env, ienv = so.get("env") or [], so.get("iso_env") or []
        if so.get("hostmap"):
            why.append("%s changed the HOST's own globals map: %s" % (tag, so["hostmap"]))
        if env != ienv:
            why.append("%s: the configured globals differ from those of the same option list with a copy of the host's map: "
                       "only in the history %s, only alone %s" % (tag, sorted(set(env) - set(ienv))[:6], sorted(set(ienv) - set(env))[:6]))
        forbidden = {}
        for nm in dn + ov:
            t = base.lookup(nm) if nm in regnames else None
            if t is not None:
                forbidden[t] = "the object registered under the %s name %r" % ("denied" if nm in dn else "overridden", nm)
                marks.add(("session-" + ("deny" if nm in dn else "override"), s.id, k))
        earlier_vm_names = set()
        if s.vm and route != "newconfig":
            for j in range(k):
                if s.steps[j]["route"] != "newconfig":
                    earlier_vm_names |= set(envs[j])
        for p, po in zip(s.probes, so.get("probes") or []):
            r, iso, stale = po["res"], po["iso"], po.get("stale", 0)
            msgs = []
            if r.startswith("sig:") and int(r[4:]) in forbidden:
                msgs.append("%s: script %r obtains %s (object %s)" % (tag, p["src"], forbidden[int(r[4:])], r))
            if nd and r.startswith("sig:"):
                msgs.append("%s: script %r obtains the default object %s although default globals are disabled" % (tag, p["src"], r))
            if r != iso:
                msgs.append("%s: script %r gives %s, but %s when the same option list is evaluated alone (copy of the host's map, "
                            "new VM, newly compiled code)%s" % (tag, p["src"], r, iso,
                                                                "; the object was first obtained by evaluation %d" % stale if stale else ""))
            elif stale:
                msgs.append("%s: script %r obtains the very %s that evaluation %d of the history obtained first: two "
                            "configurations share a mutable object" % (tag, p["src"], r, stale))
            if not msgs:
                continue
            # the recorded finding: a reused VM keeps the top-level globals of earlier configurations
            # (decided on the observation: alone the script stops at a name that does not resolve, in the history it gets past
            # it - it obtains an object, or fails LATER: at a member the earlier configuration had removed, at the next name)
            absent = [u for u in p["uses"] if u not in ienv and u in earlier_vm_names]
            if absent and unresolved(iso) and r != iso:
                known.append({"step": k + 1, "script": p["src"], "absent_top_level_names": absent, "got": r, "alone": iso})
            else:
                why += msgs
        envs.append(ienv)
        if len(set(json.dumps(x["opts"], sort_keys=True) for x in s.steps[:k + 1])) > 1:
            marks.add(("session-step", s.id, k))
    for lo in g.get("late") or []:
        k = lo["step"] - 1
        if k >= len(steps):
            continue
        first = steps[k]
        if lo.get("env") != first.get("env"):
            a, b2 = set(first.get("env") or []), set(lo.get("env") or [])
            why.append("the Config made by step %d [%s] changed after the later steps of the history: lost %s, gained %s"
                       % (k + 1, s.step_text(k), sorted(a - b2)[:6], sorted(b2 - a)[:6]))
        for p, r0, r1 in zip(s.probes, [x["res"] for x in first.get("probes") or []], lo.get("probes") or []):
            if r0 != r1:
                why.append("the Config made by step %d [%s]: script %r gave %s when the Config was made and %s after the later "
                           "steps of the history" % (k + 1, s.step_text(k), p["src"], r0, r1))
        marks.add(("session-kept", s.id, k))
    return why, known, marks


def run_sessions(obs, repo, sessions, nshard):
    lines = [s.go_json() for s in sessions]
    shards = [lines[i::nshard] for i in range(nshard)]

    def one(i):
        if not shards[i]:
            return 0, "", ""
        return C.run([obs, "sessions", repo], input=("\n".join(shards[i]) + "\n").encode(), timeout=3000)
    with ThreadPoolExecutor(max_workers=nshard) as ex:
        outs = list(ex.map(one, range(nshard)))
    res = {}
    for rc, o, e in outs:
        if rc != 0:
            return None, "c11obs sessions failed: rc=%s %s" % (rc, e[-1500:])
        for line in o.split("\n"):
            if line.strip():
                j = json.loads(line)
                res[j["id"]] = j
    return res, ""


# ------------------------------------------------------------------ importer histories
# 2-4 configurations of one host process share ONE importer (LocalImporter / FSImporter over a directory of script
# modules).  Every configuration keeps a VM whose main script imports the modules and defines handler functions; the
# host calls the handlers later - after OTHER configurations have imported the same modules through the same importer.
# A script module exposes the globals of its code as attributes, so everything a handler reaches THROUGH the module
# object (helper.os, getattr(helper, "exec"), from helper import os) must stay inside the handler's own configuration.

class ImpSession(Session):
    def __init__(self, sid, importer, modules, prelude, eval_src, override, extra, configs, probes, events):
        Session.__init__(self, sid, "session-importer-" + importer, False, [], override, extra, configs, probes)
        self.importer, self.modules, self.prelude, self.eval_src, self.events = importer, modules, prelude, eval_src, events

    def go_json(self):
        return json.dumps({"id": self.id, "importer": self.importer,
                           "modules": [{"name": n, "source": src} for n, src in self.modules],
                           "prelude": self.prelude, "eval_src": self.eval_src,
                           "override": [{"name": n, "kind": k} for n, k in self.override],
                           "extra": [{"name": n, "kind": k} for n, k in self.extra],
                           "probes": [{"pre": p["pre"], "expr": p["expr"]} for p in self.probes],
                           "configs": self.steps, "events": self.events})

    def step_text(self, k):
        r = self.steps[k]["route"]
        opts = ", ".join(self.option_text(k) + ["WithImporter(SHARED)"])
        if r == "evalvm":
            return "configuration %d: m%d := vm.NewEmpty(); risor.Eval(ctx, MAIN, %s, WithVM(m%d))" % (k + 1, k + 1, opts, k + 1)
        return ("configuration %d: cfg := risor.NewConfig(%s); m%d := vm.New(compile(MAIN, cfg.CompilerOpts()), cfg.VMOpts()...); "
                "m%d.Run(ctx)" % (k + 1, opts, k + 1, k + 1))

    def event_text(self, i):
        ev = self.events[i]
        c = ev["cfg"]
        if ev["op"] == "load":
            return "load " + self.step_text(c)
        if ev["op"] == "eval":
            return "risor.Eval(ctx, %r, %s) [options of configuration %d]" % (
                self.eval_src, ", ".join(self.option_text(c) + ["WithImporter(SHARED)"]), c + 1)
        return "call every handler of configuration %d: m%d.Call(ctx, m%d.Get(\"c11p<i>\"), nil)" % (c + 1, c + 1, c + 1)

    def describe(self):
        return {"id": self.id, "group": self.group,
                "SHARED": "one importer.New%sImporter over a directory with the modules below, given to every configuration"
                          % ("FS" if self.importer == "fs" else "Local"),
                "modules": {n + ".risor": src for n, src in self.modules},
                "MAIN": self.prelude + "\nfunc c11p<i>() { <statements>; return <script i> }  (one handler per script)",
                "history": ["%d. %s" % (i + 1, self.event_text(i)) for i in range(len(self.events))]}


def gen_imp_sessions(rng, base, tier):
    names1 = base.names(1)
    okname = lambda nm: nm != "getattr" and all(IDENT.match(x) and x not in KEYWORDS for x in nm.split("."))
    dotted = [n for n in names1 if "." in n and okname(n)]
    tops = [n for n in names1 if "." not in n and okname(n)]
    topmods = [n for n in tops if base.lookup(n) in base.mods]
    out = []

    def shuffle(xs):
        xs = list(xs)
        for i in range(len(xs) - 1, 0, -1):
            j = rng.below(i + 1)
            xs[i], xs[j] = xs[j], xs[i]
        return xs

    nsess = 160 if tier == "quick" else 2400
    for si in range(nsess):
        importer = "fs" if si % 3 == 2 else "local"
        pool = []
        want = 2 + rng.below(3)
        while len(pool) < want:
            nm = rng.choice(dotted) if rng.chance(3, 5) else rng.choice(topmods) if rng.chance(1, 2) else rng.choice(tops)
            if nm not in pool:
                pool.append(nm)
        override = [(nm, rng.choice(["new", "int"])) for nm in pool if rng.chance(1, 2)]
        extra = [("fresh_extra_0", "new")] if rng.chance(1, 3) else []
        ncfg = 2 + rng.below(3)
        configs = []
        for k in range(ncfg):
            opts = []
            if not (k == rng.below(ncfg) and rng.chance(1, 2)):          # (some histories hold the plain configuration)
                dn = [nm for nm in pool if rng.chance(1, 3)]
                if dn:
                    if len(dn) == 1 or rng.chance(1, 2):
                        opts += [{"op": "without", "names": [n], "idx": []} for n in dn]
                    else:
                        opts.append({"op": "without_many", "names": dn, "idx": []})
                for i in range(len(override)):
                    if override[i][0] not in dn and rng.chance(1, 3):
                        opts.append({"op": "override", "names": [], "idx": [i]})
                if rng.chance(1, 10):
                    opts.append({"op": "nodefaults", "names": [], "idx": []})
                if extra and rng.chance(1, 2):
                    opts.append({"op": rng.choice(["global", "globals"]), "names": [], "idx": [0]})
                opts = shuffle(opts)
            configs.append({"route": rng.choice(["vm", "vm", "evalvm"]), "opts": opts})
        if len(set(json.dumps(c["opts"], sort_keys=True) for c in configs)) == 1:
            # the configurations of a history differ: one of them denies a name of the pool
            configs[rng.below(ncfg)]["opts"] = [{"op": "without", "names": [pool[0]], "idx": []}]
        # the host's script modules
        mname = rng.choice(["helper", "shared", "kit", "lib/tools"])
        mident = mname.split("/")[-1]
        reach = sorted(set(nm.split(".")[0] for nm in pool))
        msrc = "func greet(name) { return \"hello \" + name }\n" + "".join("func reach_%s() { return %s }\n" % (r, r) for r in reach)
        modules = [(mname, msrc)]
        alias = mident if rng.chance(2, 3) else "hm"

        def imp_stmt(bind):
            """the import statement that binds the host's module to the name bind"""
            if "/" in mname:
                par, leaf = mname.rsplit("/", 1)
                return "from %s import %s" % (par.replace("/", "."), leaf) + ("" if bind == leaf else " as " + bind)
            return "import %s" % mname + ("" if bind == mname else " as " + bind)
        prelude = imp_stmt(alias)
        outer = rng.chance(1, 2)
        if outer:
            modules.append(("outer", "%s\nfunc inner() { return %s }\n" % (imp_stmt(mident), mident)))
            prelude += "\nimport outer"
        eval_src = "%s\n%s.greet(\"once\")" % (imp_stmt(mident), mident)
        probes, seen = [], set()

        def add(pre, expr, path):
            if expr and (pre, expr) not in seen and len(probes) < 34:
                seen.add((pre, expr))
                probes.append({"pre": pre, "expr": expr, "src": (pre + "; " if pre else "") + expr, "path": path})

        def forms(parts):
            """access paths to the global parts[0] (and on to its members) THROUGH the script module"""
            path = ".".join(parts)
            tail = "".join("." + x for x in parts[1:])
            add("", "%s.%s" % (alias, path), path)
            g = alias
            for x in parts:
                g = 'getattr(%s, "%s")' % (g, x)
            add("", g, path)
            if len(parts) > 1:
                add("", 'getattr(%s.%s, "%s", "absent")' % (alias, ".".join(parts[:-1]), parts[-1]), path)
            add("from %s import %s as c11x" % (mname.replace("/", "."), parts[0]), "c11x" + tail, path)
            add(imp_stmt("c11y"), "c11y." + path, path)
            add("", "%s.reach_%s()%s" % (alias, parts[0], tail), path)
            if outer:
                add("", "outer.%s.%s" % (mident, path), path)
                add("", "outer.inner().%s" % path, path)
        add("", alias, "")
        for nm in pool:
            parts = nm.split(".")
            forms(parts)
            add("", "%s.%s == %s" % (alias, parts[0], parts[0]), parts[0])
            if len(parts) > 1:
                add("", "%s.%s" % (alias, parts[0]), parts[0])
            tgt = base.lookup(nm)
            alts = [p for p in base.paths_to(tgt, 1, 3) if p != parts and all(IDENT.match(x) and x not in KEYWORDS for x in p)] if tgt else []
            for _ in range(2):
                if alts:
                    ap = alts.pop(rng.below(len(alts)))
                    add("", "%s.%s" % (alias, ".".join(ap)), ".".join(ap))
        for n, _ in extra:
            add("", "%s.%s" % (alias, n), n)
        for _ in range(2):
            nm = rng.choice(dotted)
            add("", "%s.%s" % (alias, nm), nm)
        # the history: loads, calls and one-shot evaluations interleaved; at the end every kept VM is called once more
        events, loaded, todo = [], [], shuffle(range(ncfg))
        while todo:
            if not loaded or rng.chance(1, 2):
                c = todo.pop()
                events.append({"op": "load", "cfg": c})
                loaded.append(c)
            elif rng.chance(1, 4):
                events.append({"op": "eval", "cfg": rng.below(ncfg)})
            else:
                events.append({"op": "call", "cfg": rng.choice(loaded)})
        if rng.chance(1, 3):
            events.append({"op": "eval", "cfg": rng.below(ncfg)})
        for c in shuffle(loaded):
            events.append({"op": "call", "cfg": c})
        out.append(ImpSession("I%d" % si, importer, modules, prelude, eval_src, override, extra, configs, probes, events))
    return out


def judge_imp_session(s, g, base, regnames):
    """-> (why, nontrivial marks)"""
    why, marks = [], set()
    if g.get("problem"):
        return ["harness could not observe: " + g["problem"]], marks
    for ev in g.get("evals") or []:
        i, rest = ev.split(":", 1)
        a, b2 = rest.rsplit("|", 1)
        if a != b2:
            why.append("event %d [%s] gives %s, but %s with an importer of its own" % (int(i) + 1, s.event_text(int(i)), a, b2))
    for co in g.get("calls") or []:
        i, c = co["event"], co["cfg"]
        nd, dn, ov = s.step_config(c)
        others = [e["cfg"] for e in s.events[:i] if e["op"] in ("load", "eval") and e["cfg"] != c
                  and json.dumps(s.steps[e["cfg"]]["opts"], sort_keys=True) != json.dumps(s.steps[c]["opts"], sort_keys=True)]
        tag = "event %d of the history [%s; options %s]" % (i + 1, s.event_text(i), ", ".join(s.option_text(c)) or "none")
        if co.get("load") != co.get("iso_load"):
            why.append("%s: loading the main script gave %s, but %s with an importer of its own" % (tag, co.get("load"), co.get("iso_load")))
        forbidden = {}
        for nm in dn + ov:
            t = base.lookup(nm) if nm in regnames else None
            if t is not None:
                forbidden[t] = "the object registered under the %s name %r" % ("denied" if nm in dn else "overridden", nm)
        for p, po in zip(s.probes, co.get("probes") or []):
            r, iso, stale = po["res"], po.get("iso"), po.get("stale", 0)
            if r.startswith("sig:") and int(r[4:]) in forbidden:
                why.append("%s: handler %r obtains %s (object %s)" % (tag, p["src"], forbidden[int(r[4:])], r))
            if nd and r.startswith("sig:"):
                why.append("%s: handler %r obtains the default object %s although default globals are disabled" % (tag, p["src"], r))
            if r != iso:
                why.append("%s: handler %r gives %s, but %s when the events of this configuration run alone (an importer and a VM "
                           "of its own)%s" % (tag, p["src"], r, iso,
                                              "; the object was first obtained by configuration %d" % stale if stale else ""))
            elif po.get("mem") != po.get("iso_mem"):
                why.append("%s: handler %r gives a module (%s) whose attributes (two levels) differ from those it has when the events "
                           "of this configuration run alone: fingerprint %s, alone %s" % (tag, p["src"], r, po.get("mem"), po.get("iso_mem")))
            elif stale:
                why.append("%s: handler %r obtains the very %s that a handler of configuration %d obtained first: two "
                           "configurations share a mutable object" % (tag, p["src"], r, stale))
        if others and any(po["res"].split(":")[0] in ("sig", "new", "other") for po in co.get("probes") or []):
            marks.add(("importer-call-after-other-configuration", s.id, i))
    why.sort(key=lambda w: 0 if "obtains the object registered" in w else 1)      # (stable: reachability of a denied object first)
    return why, marks


def run_imp_sessions(obs, repo, sessions, nshard):
    lines = [s.go_json() for s in sessions]
    shards = [lines[i::nshard] for i in range(nshard)]

    def one(i):
        if not shards[i]:
            return 0, "", ""
        return C.run([obs, "impsessions", repo], input=("\n".join(shards[i]) + "\n").encode(), timeout=3000)
    with ThreadPoolExecutor(max_workers=nshard) as ex:
        outs = list(ex.map(one, range(nshard)))
    res = {}
    for rc, o, e in outs:
        if rc != 0:
            return None, "c11obs impsessions failed: rc=%s %s" % (rc, e[-1500:])
        for line in o.split("\n"):
            if line.strip():
                j = json.loads(line)
                res[j["id"]] = j
    return res, ""


# ------------------------------------------------------------------ running both sides

def run_go(obs, repo, lines, work, nshard):
    shards = [lines[i::nshard] for i in range(nshard)]

    def one(i):
        if not shards[i]:
            return 0, "", ""
        return C.run([obs, "configs", repo], input=("\n".join(shards[i]) + "\n").encode(), timeout=3000)
    with ThreadPoolExecutor(max_workers=nshard) as ex:
        outs = list(ex.map(one, range(nshard)))
    res = {}
    for rc, o, e in outs:
        if rc != 0:
            return None, "c11obs configs failed: rc=%s %s" % (rc, e[-1500:])
        for line in o.split("\n"):
            if line.strip():
                j = json.loads(line)
                res[j["id"]] = j
    return res, ""


def run_model(model, basefile, lines, nshard):
    shards = [lines[i::nshard] for i in range(nshard)]

    def one(i):
        if not shards[i]:
            return 0, "", ""
        return C.run([model, basefile], input=("\n".join(shards[i]) + "\n").encode(), timeout=3000)
    with ThreadPoolExecutor(max_workers=nshard) as ex:
        outs = list(ex.map(one, range(nshard)))
    res = {}
    for rc, o, e in outs:
        if rc != 0:
            return None, "model_globals failed: rc=%s %s" % (rc, e[-1500:])
        for line in o.split("\n"):
            if not line:
                continue
            f = line.split("\t")
            if f[0] == "NAMES":
                res["NAMES"] = f
                continue
            d = {"env": [], "reach": None, "look": {}}
            for part in f[1:]:
                key, _, val = part.partition("=")
                if key == "env":
                    d["env"] = sorted(bytes.fromhex(x[1:]).decode("utf-8", "replace") for x in val.split(",") if x)
                elif key == "reach":
                    d["reach"] = None if val == "FUEL" else [int(x) for x in val.split(",") if x]
                elif key == "look":
                    for it in val.split(","):
                        if it:
                            n, _, v = it.partition(":")
                            d["look"][bytes.fromhex(n[1:]).decode("utf-8", "replace")] = v
            res[f[0]] = d
    return res, ""


def canon_model(v, case, base):
    """Model node id -> the vocabulary of the implementation-side observation."""
    if v == "none" or v is None:
        return "none"
    n = int(v)
    if n >= NEW_BASE:
        i = n - NEW_BASE
        if i < len(case.override) and not case.override[i][1].startswith("ref:"):
            return "new:%d" % i
        if 1000 <= i < 1000 + len(case.extra):
            return "new:g%d" % (i - 1000)
        return "other"
    info = base.nodes.get(n)
    if info is None or not info[0]:
        return "other"
    return "id:%d" % n


def is_known_class(names):
    """Class of the (repaired) finding C11#1: dotted names with two or more intermediate modules (>= 4 components)."""
    return any(len(n.split(".")) >= 4 for n in names)


def run(res):
    tier = res.tier
    cov = res.coverage
    repo = repo_dir()
    ov = make_overlay()
    gen, err1 = C.go_build("c11gen", overlay=ov)
    obs, err2 = C.go_build("c11obs", overlay=ov)
    if not gen or not obs:
        res.violation({"property": PROP, "kind": "harness-build-failed",
                       "stage": "go build c11gen/c11obs with the overlay hook object.(*Module).VerifAttrNames",
                       "log": (err1 + err2)[-3000:]}, nofail=True, tag="build")
        return
    # 2. translate: the object graph of the running packages
    rc, coq_text, e = C.run([gen, repo], timeout=300)
    if rc != 0 or "Definition heap" not in coq_text:
        res.violation({"property": PROP, "kind": "translator-failed", "stage": "c11gen", "log": (coq_text + e)[-2000:]},
                      nofail=True, tag="translate")
        return
    C.write_if_changed(os.path.join(C.COQ, "gen", "GenGlobalsGraph.v"), coq_text)
    rc, base_text, e = C.run([obs, "base", repo], timeout=300)
    if rc != 0:
        res.violation({"property": PROP, "kind": "harness-run-failed", "stage": "c11obs base", "log": e[-2000:]},
                      nofail=True, tag="run")
        return
    base = Base(base_text)
    m = re.search(r'struct_hash : string := "([0-9a-f]+)"', coq_text)
    hash_equal = bool(m) and m.group(1) == base.hash
    rc, alias_text, e = C.run([obs, "aliases", repo], timeout=300)
    aliases = [json.loads(l) for l in alias_text.split("\n") if l.strip()]

    # 3. prove, extract
    proved = C.prove(res, PROP)
    model, err = C.build_extracted("globals", "ExtractGlobals.v", "globals_driver.ml")
    if not model:
        res.violation({"property": PROP, "kind": "model-build-failed", "stage": "extraction", "log": err[-3000:],
                       "broken": getattr(res, "broken", None)}, nofail=True, tag="extract")
        return

    work = tempfile.mkdtemp(prefix="c11-", dir=C.WORK if os.path.isdir(C.WORK) else None)
    try:
        _body(res, tier, repo, obs, model, base, base_text, hash_equal, aliases, proved, work)
    finally:
        shutil.rmtree(work, ignore_errors=True)


def _body(res, tier, repo, obs, model, base, base_text, hash_equal, aliases, proved, work):
    cov = res.coverage
    known = load_known()
    basefile = os.path.join(work, "base.txt")
    open(basefile, "w").write(base_text)
    rng = C.Rng(res.seed)
    cases = []
    # corpus first: witnesses of past findings
    cdir = os.path.join(C.VERIF, "corpus", PROP)
    if os.path.isdir(cdir):
        for f in sorted(os.listdir(cdir)):
            if f.endswith(".json"):
                j = json.load(open(os.path.join(cdir, f)))
                cases.append(Case("corpus-" + f[:-5], "corpus", j.get("mode", "A"), custom=j.get("custom", False),
                                  deny=j.get("deny", []), override=[tuple(x) for x in j.get("override", [])],
                                  lookups=j.get("lookups", []),
                                  evals=[(s, p, "dot", r) for s, p, r in j.get("evals", [])],
                                  opts=j.get("opts"), extra=[tuple(x) for x in j.get("extra", [])],
                                  reuse=j.get("reuse", [])))
    cases += gen_cases(rng, base, tier)
    nshard = min(C.NCPU, 16)
    go, err = run_go(obs, repo, [c.go_json() for c in cases], work, nshard)
    if go is None:
        res.violation({"property": PROP, "kind": "harness-run-failed", "stage": "c11obs configs", "log": err}, nofail=True, tag="run")
        return
    mlines = ["NAMES"]
    for c in cases:
        if c.nomodel:
            continue
        mlines.append(c.model_line(base))
        for k, sub in enumerate(c.reuse):
            mlines.append(c.model_line(base, sub=sub, suffix="~r%d" % k))
    mo, err = run_model(model, basefile, mlines, nshard)
    if mo is None:
        res.violation({"property": PROP, "kind": "harness-run-failed", "stage": "model_globals", "log": err}, nofail=True, tag="run")
        return

    sessions = gen_sessions(rng, base, tier)
    sgo, err = run_sessions(obs, repo, sessions, nshard)
    if sgo is None:
        res.violation({"property": PROP, "kind": "harness-run-failed", "stage": "c11obs sessions", "log": err}, nofail=True, tag="run")
        return
    smo, err = run_model(model, basefile, [s.model_line(k) for s in sessions for k in range(len(s.steps))], nshard)
    if smo is None:
        res.violation({"property": PROP, "kind": "harness-run-failed", "stage": "model_globals (sessions)", "log": err}, nofail=True, tag="run")
        return

    imps = gen_imp_sessions(rng, base, tier)
    igo, err = run_imp_sessions(obs, repo, imps, nshard)
    if igo is None:
        res.violation({"property": PROP, "kind": "harness-run-failed", "stage": "c11obs impsessions", "log": err}, nofail=True, tag="run")
        return
    imo, err = run_model(model, basefile, [s.model_line(k) for s in imps for k in range(len(s.steps))], nshard)
    if imo is None:
        res.violation({"property": PROP, "kind": "harness-run-failed", "stage": "model_globals (importer histories)", "log": err},
                      nofail=True, tag="run")
        return

    stable = {n for n, info in base.nodes.items() if info[0]}
    oracle_viol, known_hits, corr = [], [], []
    evals = 0
    nontrivial = set()
    groups = {}
    samples = []
    by_id = {c.id: c for c in cases}
    names1 = base.names(1)
    regnames = set(names1) | set(base.names(3))
    nil_id = base.lookup("len.__module__")      # the immutable singleton object.Nil (every replacement builtin points to it)

    # the model's registered names must be the names seen in the implementation's graph; its finite check must pass
    mnames = mo.get("NAMES")
    if not mnames:
        corr.append({"stage": "names", "why": "model driver gave no NAMES line"})
    else:
        got = {}
        for it in mnames[2].split(","):
            n, _, v = it.partition(":")
            got[bytes.fromhex(n).decode()] = v
        if sorted(got) != sorted(names1):
            corr.append({"stage": "names", "why": "registered names differ",
                         "only_model": sorted(set(got) - set(names1))[:10], "only_impl": sorted(set(names1) - set(got))[:10]})
        bad = sorted(n for n, v in got.items() if v != "1")
        if bad or mnames[1] != "wf=1":
            corr.append({"stage": "names", "why": "model's check_deny/wf_world fails on the generated graph", "names": bad[:10],
                         "wf": mnames[1]})
    if not hash_equal:
        corr.append({"stage": "translate", "why": "struct hash of GenGlobalsGraph.v differs from c11obs base (graph not reproducible)"})
    if base.dupsig:
        res.notes.append("%d objects of the default configuration share a signature: plain-API identification is by class" % base.dupsig)

    for c in cases:
        g = go.get(c.id)
        m = mo.get(c.id)
        if c.nomodel and g is not None:
            m = {"env": sorted(g["env"] or []), "reach": None, "look": {}}      # no prediction: oracle only
        groups[c.group] = groups.get(c.group, 0) + 1
        if g is None or m is None:
            corr.append({"stage": "run", "case": c.describe(), "why": "missing output", "impl": g is not None, "model": m is not None})
            continue
        if g.get("problem"):
            oracle_viol.append({"case": c.describe(), "why": "harness could not observe: " + g["problem"], "structural": True})
            continue
        evals += 1 + len(c.evals) + len(c.lookups)
        klass = is_known_class(c.deny + [o[0] for o in c.override])
        why = []
        insts = (1, 3) if c.custom else (1,)
        # objects the host itself re-installs (an existing object given as replacement) are not judged
        exempt = set()
        for _, kind in c.override:
            if kind.startswith("ref:"):
                t = base.lookup(kind[4:], insts)
                stack = [t] if t else []
                while stack:
                    n = stack.pop()
                    if n not in exempt:
                        exempt.add(n)
                        stack += [d for (_, d) in base.out.get(n, {}).values()]
        # ---------------- ORACLE: the property on the implementation's observations
        for d in g.get("denied") or []:
            if d["name"] not in regnames or d["obj"] in exempt:
                d["obj"] = 0        # not a registered name (no-op by design), or re-installed by the host
            if d["obj"] and d["reachable"]:
                why.append("object %d registered under denied name %r is still in the GetAttr closure of the configured globals"
                           % (d["obj"], d["name"]))
            if d["obj"]:
                nontrivial.add(("deny", d["name"]))
        for d in g.get("denied") or []:
            if d["obj"] and g["lookups"].get(d["name"], "none") == "id:%d" % d["obj"]:
                why.append("denied name %r still resolves to object %d" % (d["name"], d["obj"]))
        any_ref = any(k2.startswith("ref:") for _, k2 in c.override)
        superseded = c.superseded()
        forbidden = {}       # object id -> why a script must not get it
        for d in g.get("denied") or []:
            if d["obj"]:
                forbidden[d["obj"]] = "the object registered under the denied name %r" % d["name"]
        for i, o in enumerate(g.get("over") or []):
            if i in superseded:
                continue
            kind = c.override[i][1]
            nm = o["name"]
            registered = o["old"] != 0 and nm in regnames and o["old"] not in exempt
            toplevel = "." not in nm
            shadowed = (any(nm == d or nm.startswith(d + ".") for d in c.deny) or
                        any(n2 != nm and nm.startswith(n2 + ".") for n2, _ in c.override))
            applies = (toplevel and nm != "") or (registered and not shadowed)
            if applies and not kind.startswith("ref:"):
                if o["seen"] != "new:%d" % i:
                    why.append("override of %r is not what the name resolves to (saw %s)" % (nm, o["seen"]))
                if not o["new_reachable"]:
                    why.append("replacement installed under %r is not reachable" % nm)
            if registered and applies and o["old_reachable"] and not any_ref:
                why.append("object %d registered under overridden name %r is still reachable" % (o["old"], nm))
            if registered and applies and not any_ref:
                forbidden[o["old"]] = "the object that was registered under the overridden name %r" % nm
            if registered:
                nontrivial.add(("override", nm))
        # copies of a denied / replaced object that belong to another instance of the defaults (a host-assembled module
        # may carry them in): by signature
        for k in g.get("reach_sig") or []:
            if k in forbidden:
                why.append("a copy of object %d (%s) from another instance of the defaults is in the GetAttr closure of the "
                           "configured globals" % (k, forbidden[k]))
        # whatever the access path: no script may obtain a denied or replaced object
        for (src, path, syn, role), ev in zip(c.evals, g.get("eval") or []):
            r = ev["res"]
            by_identity = c.mode == "A" or not base.dupsig      # plain-API mode names objects by signature: exact only if unique
            if by_identity and (r.startswith("id:") or r.startswith("sig:")) and int(r.split(":")[1]) in forbidden:
                msg = "script %r obtains %s (object %s)" % (src, forbidden[int(r.split(":")[1])], r)
                if not any(src in w for w in why):
                    why.append(msg)
            if role == "asm-out" and (r.startswith("id:") or r.startswith("sig:")):
                why.append("script %r reaches %s through a module the host assembled without that member" % (src, r))
            if role in ("asm-self", "asm-out"):
                nontrivial.add(("assembled", c.group, path.split(".")[0]))
        for (src, path, syn, role), ev in zip(c.evals, g.get("eval") or []):
            r = ev["res"]
            if role == "denied":
                tgt = None
                for d in g.get("denied") or []:
                    b = base.lookup(path, (1, 3) if c.custom else (1,))
                    if d["obj"] and b == d["obj"]:
                        tgt = d["obj"]
                if tgt and r == "id:%d" % tgt:
                    why.append("script %r obtains denied object %d" % (src, tgt))
                if tgt and r == "sig:%d" % tgt:
                    why.append("script %r obtains another configuration's copy of denied object %d" % (src, tgt))
            elif role == "overridden":
                for o in g.get("over") or []:
                    b = base.lookup(path, (1, 3) if c.custom else (1,))
                    if o["old"] and b == o["old"] and r == "id:%d" % o["old"]:
                        why.append("script %r still obtains the replaced object %d" % (src, o["old"]))
            elif role == "nodefaults":
                if not r.startswith("err:"):
                    why.append("script %r obtains %s although default globals are disabled" % (src, r))
        left = [n for n in (g["reach"] or []) if n != nil_id or not c.extra]      # a fresh builtin's __module__ is object.Nil
        if c.nodefaults and not c.override and left:
            why.append("WithoutDefaultGlobals leaves %d default objects reachable" % len(left))
        if g.get("indep") not in (None, "", "ok"):
            why.append("configurations are not independent: " + g["indep"])
        # further Configs made from sub-lists of the SAME Option values: each is configured by ITS options only
        for k, sub in enumerate(c.reuse):
            ro = (g.get("reuse") or [None] * len(c.reuse))[k]
            if ro is None:
                continue
            sub_opts = [c.opts[i] for i in sub]
            own_deny = [n for o in sub_opts if o["op"] in ("without", "without_many") for n in o["names"]]
            own_over = [c.override[o["idx"][0]][0] for o in sub_opts if o["op"] == "override"]
            own_extra = [c.extra[j][0] for o in sub_opts if o["op"] in ("global", "globals") for j in o["idx"]]
            nodef = any(o["op"] == "nodefaults" for o in sub_opts)
            env = set(ro["env"] or [])
            for nm in sorted(base.roots[1]):
                if not nodef and nm not in own_deny and nm not in env:
                    why.append("a Config made from the options %s has lost the default global %r, which none of ITS options denies "
                               "(an Option value carried state from the Config it was applied to before)"
                               % (c.option_text(sub), nm))
            for nm in own_deny:
                if "." not in nm and nm in env and nm not in own_over:
                    why.append("a Config made from the options %s still has the global %r, which one of its options denies"
                               % (c.option_text(sub), nm))
            for nm in own_over + own_extra:
                if "." not in nm and nm != "" and nm not in env and not (nm in own_deny and nm not in own_over):
                    why.append("a Config made from the options %s lacks the global %r, which one of its options provides"
                               % (c.option_text(sub), nm))
            nontrivial.add(("reuse", c.id, k))
            mr = mo.get(c.id + "~r%d" % k)
            if mr is not None:
                if sorted(ro["env"] or []) != mr["env"]:
                    corr.append({"stage": "reuse-env", "case": c.describe(), "sub_list": c.option_text(sub),
                                 "differences": sorted(set(ro["env"] or []) ^ set(mr["env"]))[:6]})
                elif mr["reach"] is not None:
                    a = sorted(n for n in mr["reach"] if n in stable and n != nil_id)
                    b2 = sorted(n for n in (ro["reach"] or []) if n != nil_id)
                    if a != b2 and not base.dupsig:
                        corr.append({"stage": "reuse-reach", "case": c.describe(), "sub_list": c.option_text(sub),
                                     "only_model": sorted(set(a) - set(b2))[:6], "only_impl": sorted(set(b2) - set(a))[:6]})
        if why:
            v = {"case": c.describe(), "why": why,
                 "impl": {k: g.get(k) for k in ("denied", "over", "lookups", "eval", "indep", "reach_sig", "reuse")}}
            if klass and any(k.get("id") == "C11#1" for k in known):
                known_hits.append(v)        # only while an unrepaired entry C11#1 is listed in known_findings.jsonl
            else:
                oracle_viol.append(v)
        # ---------------- CORRESPONDENCE: model prediction vs implementation
        diffs = []
        if c.nomodel:
            if groups[c.group] <= 2 and len(samples) < 24:
                samples.append({"case": c.describe(), "impl_reach_size": len(g["reach"] or []), "impl_over": g.get("over"),
                                "eval": (g.get("eval") or [])[:4], "model": "none (oracle only)"})
            continue
        if sorted(g["env"] or []) != m["env"]:
            diffs.append(("env", sorted(set(g["env"] or []) ^ set(m["env"]))[:6]))
        if m["reach"] is None:
            diffs.append(("reach", "model ran out of fuel"))
        else:
            mr = sorted(n for n in m["reach"] if n in stable and n != nil_id)
            gr = sorted(n for n in (g["reach"] or []) if n != nil_id)
            if mr != gr:
                diffs.append(("reach", {"only_model": sorted(set(mr) - set(gr))[:6], "only_impl": sorted(set(gr) - set(mr))[:6]}))
        for nm, r in (g.get("lookups") or {}).items():
            mv = canon_model(m["look"].get(nm), c, base)
            if canon_real(r) != mv and not (r.startswith("id:") and mv == "other"):
                diffs.append(("lookup " + nm, {"impl": r, "model": mv}))
        getattr_changed = "getattr" in c.deny or any(n == "getattr" for n, _ in c.override)
        for (src, path, syn, role), ev in zip(c.evals, g.get("eval") or []):
            if getattr_changed and "getattr(" in src:
                continue        # the script-level builtin getattr is itself denied / replaced in this configuration
            mv = canon_model(m["look"].get(path), c, base)
            if syn in ("import", "alias", "from"):
                # an import statement resolves among the configured globals that are modules
                rootv = m["look"].get(path.split(".")[0], "none")
                asm_nodes = ({NEW_BASE + i for i, (_, k2) in enumerate(c.override) if k2.startswith("asm:")} |
                             {NEW_BASE + 1000 + j for j, (_, k2) in enumerate(c.extra) if k2.startswith("asm:")})
                if rootv == "none" or (int(rootv) not in base.mods and int(rootv) not in asm_nodes):
                    mv = "none"
            r = canon_real(ev["res"])
            if mv.startswith("id:") and base.nodes[int(mv[3:])][1] == "dynamic_attr":
                ok = r in (mv, "other", "none")
            else:
                ok = (r == mv) or (mv == "other" and r != "none")
            if not ok:
                diffs.append(("eval " + src, {"impl": ev["res"], "model": mv}))
        if diffs:
            corr.append({"stage": diffs[0][0], "case": c.describe(), "differences": diffs[:6], "known_class": klass})
        if groups[c.group] <= 2 and len(samples) < 24:
            samples.append({"case": c.describe(), "impl_reach_size": len(g["reach"] or []), "impl_denied": g.get("denied"),
                            "impl_over": g.get("over"), "eval": (g.get("eval") or [])[:3],
                            "model_reach_size": len([n for n in (m["reach"] or []) if n in stable])})
    # ---------------- histories of configurations
    vm_known = []
    session_samples = []
    for sn in sorted(sessions, key=lambda x: len(x.steps)):      # (the shortest failing history is reported first)
        g = sgo.get(sn.id)
        groups[sn.group] = groups.get(sn.group, 0) + 1
        if g is None:
            corr.append({"stage": "run", "case": sn.describe(), "why": "missing output of c11obs sessions"})
            continue
        why, kn, marks = judge_session(sn, g, base, regnames)
        nontrivial |= marks
        evals += sum(2 * len(so.get("probes") or []) + 2 for so in g.get("steps") or [])
        if why:
            oracle_viol.append({"case": sn.describe(), "why": why[:12], "session": json.loads(sn.go_json()),
                                "scripts": [p["src"] for p in sn.probes],
                                "impl": {"steps": [{"env_size": len(so.get("env") or []), "hostmap": so.get("hostmap"),
                                                    "differing": [dict(po, script=p["src"]) for p, po in zip(sn.probes, so.get("probes") or [])
                                                                  if po["res"] != po["iso"] or po.get("stale")][:8]}
                                                   for so in g.get("steps") or []], "late": g.get("late")}})
        if kn:
            vm_known.append({"case": sn.describe(), "hits": kn[:6]})
        # the model's config_of on the step's own option list: the same names of globals
        for k, so in enumerate(g.get("steps") or []):
            mr = smo.get("%s~%d" % (sn.id, k))
            if mr is None:
                corr.append({"stage": "session-model", "case": sn.describe(), "why": "no model output for step %d" % (k + 1)})
            elif sorted(so.get("iso_env") or []) != mr["env"]:
                corr.append({"stage": "session-env", "case": sn.describe(), "step": k + 1, "options": sn.option_text(k),
                             "differences": sorted(set(so.get("iso_env") or []) ^ set(mr["env"]))[:6]})
        if groups[sn.group] <= 2:
            session_samples.append({"case": sn.describe(), "scripts": [p["src"] for p in sn.probes][:8],
                                    "step_results": [[po["res"] for po in (so.get("probes") or [])][:8] for so in g.get("steps") or []]})
    # ---------------- importer histories
    imp_stats = {"calls": 0, "calls_after_another_configuration_imported_reaching_objects": 0,
                 "calls_on_a_main_script_that_did_not_load": 0, "handler_results_that_are_objects": 0}
    cov["importer_histories"] = imp_stats
    for sn in sorted(imps, key=lambda x: len(x.events)):
        g = igo.get(sn.id)
        groups[sn.group] = groups.get(sn.group, 0) + 1
        if g is None:
            corr.append({"stage": "run", "case": sn.describe(), "why": "missing output of c11obs impsessions"})
            continue
        why, marks = judge_imp_session(sn, g, base, regnames)
        nontrivial |= marks
        for co in g.get("calls") or []:
            imp_stats["calls"] += 1
            imp_stats["calls_after_another_configuration_imported_reaching_objects"] = len([m for m in nontrivial if m[0].startswith("importer-")])
            imp_stats["calls_on_a_main_script_that_did_not_load"] += co.get("load") != "ok"
            imp_stats["handler_results_that_are_objects"] += len([1 for po in co.get("probes") or [] if po["res"].split(":")[0] in ("sig", "new", "other")])
        evals += sum(2 * len(co.get("probes") or []) for co in g.get("calls") or [])
        if why:
            oracle_viol.append({"case": sn.describe(), "why": why[:12], "imp_session": json.loads(sn.go_json()),
                                "scripts": [p["src"] for p in sn.probes],
                                "impl": {"calls": [{"event": co["event"] + 1, "configuration": co["cfg"] + 1,
                                                    "differing": [dict(po, script=p["src"]) for p, po in zip(sn.probes, co.get("probes") or [])
                                                                  if po["res"] != po.get("iso") or po.get("mem") != po.get("iso_mem")
                                                                  or po.get("stale")][:8]}
                                                   for co in g.get("calls") or []]}})
        for k, env in enumerate(g.get("envs") or []):
            mr = imo.get("%s~%d" % (sn.id, k))
            if mr is None:
                corr.append({"stage": "importer-session-model", "case": sn.describe(), "why": "no model output for configuration %d" % (k + 1)})
            elif sorted(env or []) != mr["env"]:
                corr.append({"stage": "importer-session-env", "case": sn.describe(), "configuration": k + 1, "options": sn.option_text(k),
                             "differences": sorted(set(env or []) ^ set(mr["env"]))[:6]})
        if groups[sn.group] <= 1:
            calls = g.get("calls") or []
            session_samples.append({"case": sn.describe(), "scripts": [p["src"] for p in sn.probes][:8],
                                    "call_results": [[po["res"] for po in (co.get("probes") or [])][:8] for co in calls[:4]]})
    samples += session_samples
    cov["session_known_class_hits"] = len(vm_known)
    if vm_known:
        if any(k.get("id") == "reused-vm-keeps-top-level-globals" for k in known):
            res.known_finding("a VM reused through WithVM keeps the top-level globals of EARLIER configurations: a later configuration "
                              "that lacks a top-level name (WithoutGlobal(s) of it, WithoutDefaultGlobals, an extra global not given "
                              "again) still resolves it - by identifier, import, getattr - to the earlier configuration's object "
                              "(vm.WithGlobals merges into vm.inputGlobals; %d histories, e.g. %s)"
                              % (len(vm_known), json.dumps(vm_known[0]["hits"][0])))
        else:
            for v in vm_known:
                oracle_viol.append({"case": v["case"], "why": ["reused VM resolves a top-level name the configuration lacks: %s" % json.dumps(h)
                                                               for h in v["hits"]]})

    # the denylist and overrides are Go maps: a rerun must observe the same thing
    for c in cases:
        t = getattr(c, "twin", None)
        if t and go.get(c.id) and go.get(t):
            if go[c.id].get("reach") != go[t].get("reach") or go[c.id].get("env") != go[t].get("env"):
                corr.append({"stage": "order", "case": by_id[t].describe(),
                             "why": "two runs of the same configuration observe different reachable sets (map order)"})

    cov["evaluations"] = evals
    cov["distinct_nontrivial"] = len(nontrivial)
    cov["rule"] = ("every single-name deny and single-name override configuration over the %d registered names of the running "
                   "default configuration (globals and module members), %d sampled subsets (run twice), malformed names, "
                   "WithoutDefaultGlobals, and every dotted name of a host-defined nested module tree; each applied through "
                   "risor.NewConfig (identities captured before configuration, and through the plain API with identification by "
                   "signature); observed: names of the globals, identities in the GetAttr closure, identity under names, "
                   "risor.Eval of generated access attempts (identifier, import, import-as, from-import, attribute chain, getattr, "
                   "__module__ back-references, indirect), and a second untouched configuration. %d configurations COMPOSED from a "
                   "shuffled sequence of options (several WithoutGlobal / WithoutGlobals options, names given twice, an empty "
                   "WithoutGlobals, repeated WithGlobalOverride of one name, WithGlobal / WithGlobals also under default names, "
                   "WithoutDefaultGlobals anywhere), predicted by the model's config_of; in plain-API mode further Configs are made "
                   "from sub-lists of the SAME Option values and must be configured by their own options only. %d configurations "
                   "with a module the HOST assembles (object.NewBuiltinsModule) from members of a default module - of this "
                   "configuration's own instance or of a separate one - installed as override of that module or beside a deny of "
                   "it: no script result and no node of the GetAttr closure may be the denied / replaced module (or a copy of it). "
                   "%d HISTORIES of 2-5 configurations in one host process: one globals map object (host values, a host module, "
                   "sometimes under a default's name) handed to every step by WithGlobals, half of them with ONE VM (WithVM) and "
                   "code compiled once; routes NewConfig (kept and observed again at the end) / Eval / EvalCode / Call; the steps "
                   "differ in WithoutDefaultGlobals, deny and override options over a shared pool of names; up to 26 access scripts "
                   "per step (identifier, getattr, import forms, __module__ back-references, host values). Every step is also "
                   "run ALONE (copy of the map, new VM, newly compiled code): names of globals and every script result must be "
                   "equal, no result may be the object registered under a name the step denies / overrides, no module or builtin "
                   "may be the very object an earlier step obtained, the host's map (names, values, members of its modules) must "
                   "be as the host made it, a kept Config must not change. "
                   "%d IMPORTER HISTORIES: 2-4 configurations share ONE importer (LocalImporter / FSImporter over a directory of "
                   "script modules, one of which may import the other); every configuration keeps a VM (vm.New + Run, or vm.NewEmpty "
                   "+ risor.Eval WithVM) whose main script imports the modules and defines one handler per access script; loads, "
                   "one-shot risor.Eval of other configurations and handler calls (VirtualMachine.Call) are interleaved, and every "
                   "kept VM is called again at the end. Handlers reach host globals THROUGH the module object (attribute chain, "
                   "getattr, from-import, import-as inside the handler, the module's own functions, the nested module, __module__ "
                   "back-references, == with the global). Every call is compared with the same configuration's events run ALONE "
                   "(importer and VM of its own): equal results, equal two-level attribute fingerprint of every module obtained, no "
                   "object of a denied / overridden name, no module or builtin that another configuration's handler obtained first. "
                   "Non-trivial = distinct (deny|override, name) pairs whose name was registered before configuration, reused "
                   "sub-lists, assembled modules, steps of histories whose option lists differ." % (
                       len(names1), groups.get("subset", 0), groups.get("composed", 0),
                       groups.get("assembled", 0) + groups.get("assembled-foreign", 0),
                       groups.get("session-map", 0) + groups.get("session-vm", 0),
                       groups.get("session-importer-local", 0) + groups.get("session-importer-fs", 0)))
    cov["samples"] = samples
    cov["input_distribution"] = groups
    cov["correspondence"] = {"cases": len(cases), "differences": len(corr), "graph_nodes": len(base.nodes),
                             "graph_stable_nodes": len(stable), "registered_names": len(names1), "struct_hash": base.hash}
    cov["capability_aliases"] = aliases
    cov["known_finding_hits"] = len(known_hits)
    res.assumptions += [
        "the object graph is the GetAttr closure over the attribute names a module stores (hook VerifAttrNames) plus every "
        "string case label of the GetAttr methods of package object; objects made fresh by GetAttr are leaves",
        "the denylist and the overrides are Go maps: the model applies them in list order; order-independence is observed "
        "(each sampled subset runs twice), not proved",
        "in identity mode (A) the captured default globals are handed over with WithoutDefaultGlobals + WithGlobals placed LAST "
        "in the option list, which is what applyDefaultGlobals does (defaults are written over WithGlobal(s) values)",
        "host-assembled modules built from a SEPARATE instance of the defaults are judged by the oracle only (signatures); "
        "the base graph has no nodes for them",
        "objects returned by CALLING builtins are outside the property's observable (GetAttr closure)",
        "capability aliases (distinct builtins wrapping one Go function, e.g. os.getenv / getenv) are reported, not judged",
        "histories never deny / override a member of a module the HOST supplies (Config edits such a module object in place; "
        "the property's independence clause speaks of default globals)",
        "importer histories: the host gives its importer the names of every global any configuration of the history can "
        "provide (as the default configuration's names in the repository's examples); module files are read-only during a history",
        "histories: objects are named by signature (kind, description, Go function, module name) - exact because no two objects "
        "of the default configuration share a signature (checked: DUPSIG lines of c11obs base)",
    ]

    # 6. decide
    if known_hits:
        res.known_finding("WithoutGlobal/WithGlobalOverride with a dotted name of >= 4 components resolves intermediate modules "
                          "from the root module (risor_config.go resolveModule): e.g. deny vx.inner.deep.leaf2 leaves that object "
                          "reachable and edits vx.deep.leaf2 instead (%d configurations)" % len(known_hits))
    if oracle_viol:
        tally = {}
        for v in oracle_viol:
            grp = v.get("case", {}).get("group", "?")
            for w in (v.get("why") or []) if isinstance(v.get("why"), list) else [v.get("why")]:
                kind = ("option value carried state" if "Option value carried state" in w else
                        "denied object reachable" if "denied name" in w else
                        "replaced object reachable" if "overridden name" in w else "other")
                tally["%s: %s" % (grp, kind)] = tally.get("%s: %s" % (grp, kind), 0) + 1
        cov["oracle_violations_by_group"] = tally
    for v in oracle_viol[:10]:
        v.update({"property": PROP, "kind": "oracle-violation",
                  "replay_cmd": "./check C11 --replay <this file>"})
        res.violation(v)
    if oracle_viol:
        return
    if not proved:
        res.violation({"property": PROP, "kind": "proof-obligation-broken", "theorem_file": "coq/props/C11.v",
                       "broken": res.broken, "first_difference": corr[0] if corr else None,
                       "search": "%d configurations, %d observations: no failing input" % (len(cases), evals)},
                      nofail=True, tag="proof")
        return
    corr_new = corr      # every model/implementation difference counts (no finding is open for this property)
    if corr_new:
        res.violation({"property": PROP, "kind": "correspondence-broken", "stage": corr_new[0].get("stage"),
                       "first_difference": corr_new[0], "differences": corr_new[:20],
                       "search": "oracle evaluated on all %d configurations: no failing input" % len(cases)},
                      nofail=True, tag="corr")
    if tier == "thorough":
        C.coqchk(res, PROP)


def replay(data):
    print(json.dumps(data, indent=1)[:6000])
    c = data.get("case")
    if not c:
        return 0
    ov = make_overlay()
    obs, err = C.go_build("c11obs", overlay=ov)
    if not obs:
        print(err)
        return 2
    if data.get("imp_session"):
        rc, o, e = C.run([obs, "impsessions", repo_dir()], input=(json.dumps(data["imp_session"]) + "\n").encode())
        print(o, e)
        return 0
    if data.get("session"):
        rc, o, e = C.run([obs, "sessions", repo_dir()], input=(json.dumps(data["session"]) + "\n").encode())
        print(o, e)
        return 0
    spec = {"id": "replay", "mode": c.get("mode", "A"), "nodefaults": c.get("nodefaults", False), "custom": c.get("custom", False),
            "deny": c.get("deny", []), "override": [{"name": n, "kind": k} for n, k in c.get("override", [])],
            "lookups": c.get("deny", []) + [n for n, _ in c.get("override", [])],
            "eval": [e["src"] for e in (data.get("impl", {}).get("eval") or [])], "indep": c.get("indep", False)}
    if c.get("opts") is not None:
        spec.update({"opts": c["opts"], "extra": [{"name": n, "kind": k} for n, k in c.get("extra", [])], "reuse": c.get("reuse", [])})
    rc, o, e = C.run([obs, "configs", repo_dir()], input=(json.dumps(spec) + "\n").encode())
    print(o, e)
    return 0
