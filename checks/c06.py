"""C06 - cancelling the context stops the evaluation and everything it started."""
import json
import os
import shutil
import subprocess
import tempfile
from concurrent.futures import ThreadPoolExecutor

from lib import common as C

PROP = "C06"
LEVEL = "proof"

BLKS = ["recv", "send", "recvm", "next", "sleep", "wait"]
CBKS = ["each", "map", "filter", "sorted", "call", "try"]
STRINGIFIERS = ("each", "map", "filter", "sorted", "call")
SPAWNS = ["go", "spawn", "fnspawn"]

# shapes: ("K",) skip | ("T",) tick | ("M",) mark | ("B", blk) | ("S", a, b) | ("F", body) | ("C", cbk, n, body)
#         | ("W", kind, body) spawn | ("D", d, body) | ("X", pre, body): a function that defers a function running `body` and
#         then runs `pre` (for the model: a call that runs pre, then body)


def toks(s):
    t = s[0]
    if t in ("K", "T", "M"):
        return [t]
    if t == "B":
        return ["B", s[1]]
    if t == "S":
        return ["S"] + toks(s[1]) + toks(s[2])
    if t == "F":
        return ["F"] + toks(s[1])
    if t == "C":
        return ["C", s[1], str(s[2])] + toks(s[3])
    if t == "W":
        return ["W"] + toks(s[2])
    if t == "D":
        return ["D", str(s[1])] + toks(s[2])
    if t == "X":
        return ["D", "1", "S"] + toks(s[1]) + toks(s[2])
    raise ValueError(s)


def src(s, ind=""):
    t = s[0]
    if t == "K":
        return ""
    if t == "T":
        return ind + "tick()"
    if t == "M":
        return ind + "mark()"
    if t == "B":
        return ind + {
            "recv": "<-rc",
            "recvm": "rc.receive()",
            "send": "sc <- 1",
            "next": "for x := range rc { tick() }",
            "sleep": "time.sleep(30)",
            "wait": "spawn(func() { <-rc }).wait()",
        }[s[1]]
    if t == "S":
        return src(s[1], ind) + "\n" + src(s[2], ind)
    if t == "F":
        return ind + "for {\n" + src(s[1], ind + "  ") + "\n" + ind + "}"
    if t == "C":
        c, n, body = s[1], s[2], src(s[3], ind + "  ")
        items = ", ".join(str(i) for i in range(1, n + 1))
        if c in ("each", "map", "filter"):
            return ind + "[%s].%s(func(x) {\n%s\n%s})" % (items, c, body, ind)
        if c == "sorted":
            items = ", ".join(str(i) for i in range(1, n + 2))
            return ind + "sorted([%s], func(a, b) {\n%s\n%sreturn false\n%s})" % (items, body, ind + "  ", ind)
        if c == "call":
            return ind + "call(func() {\n%s\n%s})" % (body, ind)
        if c == "try":
            fns = ["func() {\n%s\n%s}" % (body, ind)] + ["func(e) {\n%s\n%s}" % (body, ind) for _ in range(n - 1)]
            return ind + "try(" + ", ".join(fns) + ")"
    if t == "W":
        body = src(s[2], ind + "  ")
        if s[1] == "go":
            return ind + "go func() {\n%s\n%s}()" % (body, ind)
        if s[1] == "spawn":
            return ind + "spawn(func() {\n%s\n%s})" % (body, ind)
        return ind + "(func() {\n%s\n%s}).spawn()" % (body, ind)
    if t == "D":
        x = src(s[2], ind + "  ")
        for _ in range(s[1]):
            x = ind + "(func() {\n" + x + "\n" + ind + "})()"
        return x
    if t == "X":
        pre = src(s[1], ind + "  ")
        return (ind + "(func() {\n" + ind + "  defer func() {\n" + src(s[2], ind + "    ") + "\n" + ind + "  }()\n"
                + (pre + "\n" if pre else "") + ind + "})()")
    raise ValueError(s)


def terminates(s):
    t = s[0]
    if t in ("K", "T", "M", "W"):
        return True
    if t in ("B", "F"):
        return False
    if t == "S" or t == "X":
        return terminates(s[1]) and terminates(s[2])
    if t == "C":
        return terminates(s[3])
    if t == "D":
        return terminates(s[2])
    raise ValueError(s)


def progress(s):
    """the program calls tick() sooner or later when nothing cancels it: some thread reaches a tick() without having to get
    past a blocking operation or an endless loop first"""
    t = s[0]
    if t == "T":
        return True
    if t in ("K", "M", "B"):
        return False
    if t == "S" or t == "X":
        return progress(s[1]) or (terminates(s[1]) and progress(s[2]))
    if t == "F":
        return progress(s[1])
    if t == "C":
        return progress(s[3])
    if t == "W" or t == "D":
        return progress(s[2])
    raise ValueError(s)


def starts_threads(s):
    t = s[0]
    if t == "W" or (t == "B" and s[1] == "wait"):
        return True
    return any(starts_threads(x) for x in s[1:] if isinstance(x, tuple))


def program(s):
    return "rc := chan()\nsc := chan()\n" + src(s)


def main_part(s):
    """sub-shapes that run on the evaluation's own thread (spawn bodies excluded)"""
    yield s
    t = s[0]
    if t == "S":
        yield from main_part(s[1])
        yield from main_part(s[2])
    elif t == "F":
        yield from main_part(s[1])
    elif t == "C":
        yield from main_part(s[3])
    elif t == "D":
        yield from main_part(s[2])
    elif t == "X":
        yield from main_part(s[1])
        yield from main_part(s[2])


def seq(*xs):
    xs = list(xs)
    r = xs[-1]
    for x in reversed(xs[:-1]):
        r = ("S", x, r)
    return r


LOOP = ("F", ("T",))


def base_shapes(rng, tier):
    """every program shape of the property's quantifier: loops, recursion, blocking primitives, callbacks in
    builtins, spawned goroutines nested to depth 3; the main thread never ends by itself"""
    out = []
    # loops and deep recursion
    out.append(("loop", seq(("M",), LOOP)))
    out.append(("loop2", seq(("M",), ("F", seq(("T",), ("F", seq(("T",), ("M",))))))))
    for d in (1, 3):
        out.append(("deep%d" % d, ("D", d, seq(("M",), LOOP))))
    # blocking primitives, cancelled while blocked; then nothing / more code
    for b in BLKS:
        out.append(("block-%s" % b, seq(("M",), ("B", b), LOOP)))
        out.append(("block-%s-tail" % b, seq(("M",), ("B", b), ("T",))))
        out.append(("loop-block-%s" % b, ("F", seq(("M",), ("B", b), ("T",)))))
    # callbacks run by builtins on the same VM
    for c in CBKS:
        for n in (1, 3):
            out.append(("cb-%s-%d-loop" % (c, n), seq(("C", c, n, seq(("M",), LOOP)), LOOP)))
        out.append(("cb-%s-tail" % c, ("C", c, 2, seq(("M",), LOOP))))
        out.append(("cb-%s-recv" % c, seq(("C", c, 2, seq(("M",), ("B", "recv"))), LOOP)))
        out.append(("cb-%s-sleep" % c, seq(("C", c, 2, seq(("M",), ("B", "sleep"))), LOOP)))
        out.append(("cb-%s-deep" % c, seq(("C", c, 2, ("D", 2, seq(("M",), LOOP))), LOOP)))
    # goroutines the script starts, nested to depth 3
    for k in SPAWNS:
        out.append(("%s-loop" % k, seq(("W", k, LOOP), ("M",), ("F", ("K",)))))
        out.append(("%s-loop-wait" % k, seq(("W", k, LOOP), ("M",), ("B", "wait"))))
        out.append(("%s-blocked-then-loop" % k, seq(("W", k, seq(("B", "recv"), LOOP)), ("M",), ("B", "recvm"))))
        out.append(("%s-cb" % k, seq(("W", k, ("C", "each", 2, LOOP)), ("M",), LOOP)))
        out.append(("%s-nest2" % k, seq(("W", k, seq(("W", "go", LOOP), LOOP)), ("M",), ("B", "sleep"), LOOP)))
        out.append(("%s-nest3" % k, seq(("W", k, seq(("W", "spawn", seq(("W", "fnspawn", LOOP), ("B", "next"), LOOP)), LOOP)),
                                     ("M",), LOOP)))
        out.append(("%s-nest3-blocked" % k, seq(("W", k, seq(("W", "go", seq(("W", k, seq(("B", "sleep"), LOOP)), ("B", "send"))), ("B", "wait"))),
                                             ("M",), ("B", "recv"))))
    # spawn inside a callback inside a spawn
    out.append(("spawn-in-cb", seq(("C", "each", 2, ("W", "go", LOOP)), ("M",), LOOP)))
    out.append(("cb-in-spawn-in-cb", seq(("C", "map", 1, ("W", "spawn", ("C", "filter", 2, LOOP))), ("M",), ("B", "wait"))))
    # deferred functions: cancelled while a deferred function runs / while one is pending; threads started from a deferred
    # function; deferred functions of thread functions and of callbacks
    out.append(("defer-loop", ("X", ("K",), seq(("M",), LOOP))))
    out.append(("defer-pending-loop", ("X", seq(("M",), LOOP), LOOP)))
    out.append(("defer-pending-block", ("X", seq(("M",), ("B", "recv")), LOOP)))
    out.append(("defer-block", seq(("X", ("T",), seq(("M",), ("B", "recv"))), LOOP)))
    out.append(("defer-nested", ("X", ("K",), ("X", ("T",), seq(("M",), LOOP)))))
    for c in ("each", "call", "try"):
        out.append(("cb-%s-defer" % c, seq(("C", c, 2, ("X", ("K",), seq(("M",), LOOP))), LOOP)))
    for k in SPAWNS:
        out.append(("defer-%s-loop" % k, seq(("X", ("K",), ("W", k, LOOP)), ("M",), ("B", "recv"))))
        out.append(("defer-%s-nest" % k, seq(("X", ("T",), ("W", k, seq(("W", "go", LOOP), ("B", "sleep")))), ("M",), ("F", ("K",)))))
        out.append(("%s-defer-loop" % k, seq(("W", k, ("X", ("K",), LOOP)), ("M",), ("B", "recvm"))))
        out.append(("%s-defer-%s" % (k, k), seq(("W", k, ("X", ("T",), ("W", k, ("X", ("K",), LOOP)))), ("M",), ("B", "wait"))))
    if tier == "thorough":
        for i in range(120):
            out.append(("rand%d" % i, random_shape(rng)))
    return out


def random_shape(rng):
    def inner(depth, spawn_budget):
        r = rng.below(7)
        if depth <= 0 or r == 0:
            return rng.choice([LOOP, seq(("B", rng.choice(BLKS)), LOOP), ("F", seq(("T",), ("B", rng.choice(["sleep", "next"]))))])
        if r == 1:
            return ("C", rng.choice(CBKS), 1 + rng.below(3), inner(depth - 1, spawn_budget))
        if r == 2 and spawn_budget[0] > 0:
            spawn_budget[0] -= 1
            return seq(("W", rng.choice(SPAWNS), inner(depth - 1, spawn_budget)), inner(depth - 1, spawn_budget))
        if r == 3:
            return ("D", 1 + rng.below(3), inner(depth - 1, spawn_budget))
        if r == 4:
            return seq(("T",), inner(depth - 1, spawn_budget))
        return ("F", seq(("T",), inner(depth - 1, spawn_budget)))

    budget = [2]
    pre = inner(2, budget) if rng.chance(1, 3) else None
    body = inner(3, budget)
    main = seq(("M",), body)
    if pre is not None and pre[0] == "S" and pre[1][0] == "W":
        main = seq(pre[1], main)
    return main


def cases(rng, tier):
    out = []
    reps = 1 if tier == "quick" else 20
    for name, s in base_shapes(rng, tier):
        for inst, delay in (("pre", 0), ("burst", 0), ("mark", 0), ("mark", 20000)):
            for r in range(reps):
                out.append({"id": "%s/%s%s/%d" % (name, inst, "+20ms" if delay else "", r), "name": name, "shape": s,
                            "instant": inst, "delay_us": delay,
                            "need_ticks": 1 if (delay and progress(s)) else 0})
    return out


WARM_SRC = {
    "spawn-wait": ("spawn(func() { wdone() }).wait()", 1),
    "go-many": ("for i := range 40 { go func() { wdone() }() }", 40),
    "spawn-many": ("ts := []\nfor i := range 40 { ts.append(spawn(func() { tick(); wdone() })) }\nfor _, t := range ts { t.wait() }", 40),
    "fnspawn-many": ("f := func() { wdone() }\nfor i := range 40 { f.spawn() }", 40),
    "nested": ("for i := range 20 { go func() { spawn(func() { wdone() }).wait(); wdone() }() }", 40),
}
WARM_ENDS = ["alive", "cancelled", "expired"]


def history(rng, first_end):
    """one or two small evaluations whose threads all finish (more threads than processors, so that whatever they leave
    behind per processor is there for the next evaluation); the first one's context ends as asked"""
    h = []
    k = rng.choice(sorted(k for k in WARM_SRC if k != "spawn-wait"))
    h.append({"src": WARM_SRC[k][0], "done": WARM_SRC[k][1], "end": first_end, "kind": k})
    if True:
        # the second evaluation runs after the first one's context has ended (or not): its own threads must run too
        k2 = rng.choice(sorted(WARM_SRC))
        h.append({"src": WARM_SRC[k2][0], "done": WARM_SRC[k2][1], "end": rng.choice(WARM_ENDS), "kind": k2})
    return h


def history_cases(rng, tier, plain):
    """every case whose program starts threads, once more after a HISTORY in the same process: earlier evaluations whose
    threads have finished and whose contexts are still alive / were cancelled / have expired.  What an evaluation leaves
    behind in the process (pools, caches, package-level state) must not decide whether the threads of a later evaluation stop
    with their context - nor whether they run at all (progress the scenario implies is required before the cancellation)."""
    out = []
    seen = set()
    for c in plain:
        if c["instant"] != "mark" or not c["delay_us"]:
            continue
        if "shape" in c and c["shape"] != ("K",):
            if not starts_threads(c["shape"]):
                continue
        elif not c["name"].startswith("contend-"):
            continue
        ends = WARM_ENDS
        if c["name"].startswith("contend-"):
            if c["delay_us"] != 3000:
                continue
            ends = [WARM_ENDS[len(seen) % 3]]
        seen.add(c["id"])
        for e in ends:
            d = dict(c)
            d["warm"] = history(rng, e)
            d["id"] = "%s~after-%s" % (c["id"], "+".join("%s:%s" % (w["kind"], w["end"]) for w in d["warm"]))
            d["name"] = c["name"]
            d["history"] = e
            if c.get("reps"):
                d["reps"] = max(3, c["reps"] // 5)
            out.append(d)
    return out


def reuse_cases(rng, tier):
    """the embedding `run once, then serve calls on the same VM`: vm.Run(appCtx) starts long-lived threads and returns; the
    host makes other invocations (vm.Call under another context) on the same VM; only then the threads of the first
    invocation go on (wait_gate()) and start goroutines of their own; then appCtx ends.  Everything the first invocation's
    threads start - whenever - stops with appCtx.  Oracle only."""
    out = []
    launches = {"go": "go %s()", "spawn": "spawn(%s)", "fnspawn": "%s.spawn()"}
    inners = {
        "loop": "for { tick() }",
        "cb": "[1, 2].each(func(x) { for { tick() } })",
        "nest": "go func() { for { tick() } }()\n  for { tick() }",
        "defer": "defer func() { for { tick() } }()",
    }
    handlers = {
        "plain": "return 42",
        "threads": "spawn(func() { return 1 }).wait()\n  return 42",
        "cb": "return [1, 2].map(func(x) { return x })",
    }
    for l1 in sorted(launches):
        for iname in sorted(inners):
            l2 = rng.choice(sorted(launches))
            hname = rng.choice(sorted(handlers))
            ncalls = rng.choice([0, 1, 1, 2, 3])
            srcs = "\n".join([
                "rc := chan()",
                "func inner() {\n  %s\n}" % inners[iname],
                "func outer() {\n  wait_gate()\n  %s\n  mark()\n  <-rc\n}" % (launches[l2] % "inner"),
                "func handler() {\n  %s\n}" % handlers[hname],
                launches[l1] % "outer",
            ])
            for ctx2 in ("background", "cancelled"):
                name = "reuse-%s-%s-%s-%s-%dcalls-%s" % (l1, l2, iname, hname, ncalls, ctx2)
                out.append({"id": "%s/mark+20ms/0" % name, "name": name, "shape": ("K",), "src": srcs, "instant": "mark", "delay_us": 20000,
                            "oracle_only": True, "route": "vmreuse", "calls": ["handler"] * ncalls, "ctx2": ctx2, "need_ticks": 1})
    return out


def big_callback_cases(tier):
    """a builtin that drives a SHORT callback over a LONG collection: the loop is in Go, every callback is a fresh entry
    into the interpreter.  After the cancellation no further callback may run to its end, the call returns promptly and
    with the context's error - also when the callback loop is the last thing the program does.  (Judged by the oracle
    only: the all-schedules model explores callbacks over 1 - 3 items.)"""
    out = []
    n = 400000
    head = "rc := chan()\nsc := chan()\nbig := []\nfor i := range %d { big.append(i) }\nk := 0\n" % n
    calls = {
        "each": "big.each(func(x) { if x == 0 { mark() }; tick() })",
        "map": "big.map(func(x) { if x == 0 { mark() }; tick(); return x })",
        "filter": "big.filter(func(x) { if x == 0 { mark() }; tick(); return true })",
        "sorted": "sorted(big, func(a, b) { if k == 0 { mark() }; k = 1; tick(); return a < b })",
    }
    reps = 1 if tier == "quick" else 5
    for c, call in calls.items():
        for tail, rest in (("tail", ""), ("loop", "\nfor { tick() }")):
            for inst, delay in (("mark", 0), ("mark", 20000)):
                for r in range(reps):
                    name = "bigcb-%s-%s" % (c, tail)
                    out.append({"id": "%s/%s%s/%d" % (name, inst, "+20ms" if delay else "", r), "name": name, "shape": ("K",),
                                "src": head + call + rest, "instant": inst, "delay_us": delay, "oracle_only": True})
    return out


def contention_cases(rng, tier):
    """Statistical families: SEVERAL contenders on one blocking operation, nobody to release them, cancelled while they are
    parked.  blocking operation {send statement, send method, send in a loop, receive, receive method, range over the channel,
    thread wait, sleep} x channel capacity {0, 1, 2, 5} x number of contenders x who contends {threads only, the main code too}
    x how the threads are started.  The contenders wait for a common gate so that they reach the operation together; whether
    two of them collide in a particular window depends on the schedule, so every case is evaluated many times in one process
    and the first evaluation that is not clean is reported.  Judged like every other case - the call is back with the
    context's error, nothing ticks, nothing is left behind - plus the goroutine-dump evidence of c06obs (risor code parked in
    an operation no context can interrupt); never by timing.  Oracle only: the all-schedules model has no racing contenders."""
    out = []
    reps = 25 if tier == "quick" else 150
    ops = {
        "send": ("c <- i", 0),
        "sendm": ("c.send(i)", 0),
        "sendloop": ("for { c <- i }", 0),
        "recv": ("<-c", 1),
        "recvm": ("c.receive()", 1),
        "range": ("for x := range c { tick() }", 1),
        "wait": ("th.wait()", 2),
        "sleep": ("time.sleep(30)", 2),
    }
    launches = {"go": "go w(%d)", "spawn": "spawn(w, %d)", "fnspawn": "w.spawn(%d)"}
    combos = []
    for op in ops:
        caps = [0, 1, 2, 5] if ops[op][1] < 2 else [1]
        for cap in caps:
            for k in (2, 3, 6):
                combos.append((op, cap, k))
    for op, cap, k in combos:
        stmt, kind = ops[op]
        launch = rng.choice(sorted(launches))
        main_too = rng.chance(1, 2)
        lines = ["gate := 0", "c := chan(%d)" % cap if cap else "c := chan()", "rc := chan()"]
        if op == "wait":
            lines.append("th := spawn(func() { <-rc })")
        if kind == 1:
            # receivers: fewer values than receivers are ready (only possible with a buffer)
            for j in range(min(cap, k - 1)):
                lines.append("c <- %d" % j)
        lines.append("func w(i) {\n  for gate == 0 { }\n  %s\n  tick()\n}" % stmt)
        nthreads = k - 1 if main_too else k
        for j in range(nthreads):
            lines.append(launches[launch] % (j + 1))
        lines.append("time.sleep(0.0005)")
        lines.append("mark()")
        lines.append("gate = 1")
        if main_too:
            lines.append("i := 0")
            lines.append(stmt)
            lines.append("tick()")
        # whatever happens, the main code never ends by itself
        lines.append("<-rc")
        name = "contend-%s-cap%d-%dx-%s%s" % (op, cap, k, launch, "+main" if main_too else "")
        for delay in (300, 3000):
            out.append({"id": "%s/mark+%dus/0" % (name, delay), "name": name, "shape": ("K",), "src": "\n".join(lines), "instant": "mark",
                        "delay_us": delay, "oracle_only": True, "reps": reps})
    return out


def malformed(rng, tier):
    """the malformed stream: sources that never get to run (or fail at once); the part of the property that still
    applies is checked - the call returns, nothing keeps running"""
    srcs = [("bad-parse", "for {"), ("bad-undefined", "mark()\nundefined_fn()"), ("bad-runtime", "mark()\n[1][5]"),
            ("bad-empty", ""), ("bad-spawn-arg", "mark()\nspawn(1)"), ("bad-go", "go 1"), ("bad-send", "mark()\n1 <- 2"),
            ("bad-recv", "mark()\n<-1"), ("bad-wait", "mark()\n(1).wait()"), ("bad-each", "mark()\n[1].each(1)")]
    frags = ["for", "{", "}", "go", "func()", "(", ")", "<-", "chan()", "spawn", "tick()", "mark()", ";", "\n", "range", "x", ":=", "1", "try(", "[", "]", ".each", "defer"]
    for i in range(30 if tier == "quick" else 300):
        srcs.append(("soup%d" % i, " ".join(rng.choice(frags) for _ in range(2 + rng.below(10)))))
    out = []
    for name, text in srcs:
        for inst in ("pre", "burst", "mark"):
            out.append({"id": "%s/%s" % (name, inst), "name": name, "src": text, "instant": inst, "delay_us": 0})
    return out


def model_instant(c):
    if c["instant"] in ("pre", "burst"):
        return "E"
    return "M"


def run_lines(exe, lines, args=(), env=None, timeout=900):
    r = subprocess.run([exe] + list(args), input=("\n".join(lines) + "\n").encode(), stdout=subprocess.PIPE,
                       stderr=subprocess.PIPE, timeout=timeout, env=env)
    return r.returncode, r.stdout.decode("utf-8", "replace"), r.stderr.decode("utf-8", "replace")


def load_known_c():
    out = []
    for name in ("known_findings.c.jsonl", "known_findings.jsonl"):
        p = os.path.join(C.VERIF, name)
        if os.path.exists(p):
            for line in open(p):
                line = line.strip()
                if line and not line.startswith("#"):
                    j = json.loads(line)
                    if j.get("property") == PROP and not j.get("fixed"):
                        out.append(j)
    return out


def known_class(c, errclass):
    """no known finding is left for C06: a returned error that is not the context's is a violation"""
    return None


def run(res):
    tier = res.tier
    obs, err = C.go_build("c06obs")
    if not obs:
        res.violation({"property": PROP, "kind": "harness-build-failed", "stage": "go build c06obs", "log": err[-3000:]},
                      nofail=True, tag="build")
        return
    proved = C.prove(res, PROP)
    model, err = C.build_extracted("vmconc", "ExtractVmConc.v", "vmconc_driver.ml")
    if not model:
        res.violation({"property": PROP, "kind": "model-build-failed", "stage": "extraction", "log": err[-3000:],
                       "broken": getattr(res, "broken", None)}, nofail=True, tag="extract")
        return
    cov = res.coverage
    rng = C.Rng(res.seed)
    cs = cases(rng, tier) + big_callback_cases(tier)
    # own random stream: the cases above stay as they were
    cs += contention_cases(C.Rng(res.seed ^ 0x636f6e74656e64), tier)
    cs += history_cases(C.Rng(res.seed ^ 0x686973746f7279), tier, cs)
    cs += reuse_cases(C.Rng(res.seed ^ 0x7265757365), tier)
    # every case twice: ended by an explicit cancel, and ended like an expired deadline (context.DeadlineExceeded)
    dl = []
    for c in cs:
        d = dict(c)
        d["id"] = c["id"] + "-dl"
        d["mode"] = "deadline"
        dl.append(d)
    cs = cs + dl
    by_id = {c["id"]: c for c in cs}
    C.log("C06: %d cases" % len(cs))

    # model: all schedules of each (shape, instant)
    mkeys = {}
    for c in cs:
        if c.get("oracle_only"):
            c["mkey"] = None
            continue
        c["mkey"] = "%s/%s" % (c["name"], model_instant(c))
        mkeys.setdefault(c["mkey"], "%s %s current %s" % (c["mkey"], model_instant(c), " ".join(toks(c["shape"]))))
    mlines = list(mkeys.values())
    nshard = min(C.NCPU, max(1, len(mlines) // 10))
    with ThreadPoolExecutor(max_workers=nshard) as ex:
        mres = list(ex.map(lambda sh: run_lines(model, sh), [mlines[i::nshard] for i in range(nshard)]))
    model_out = {}
    for rc, o, e in mres:
        if rc != 0:
            res.violation({"property": PROP, "kind": "harness-run-failed", "stage": "model driver", "log": e[-2000:]}, nofail=True, tag="run")
            return
        for line in o.splitlines():
            f = line.split("\t")
            model_out[f[0]] = {"complete": f[1] == "true", "states": int(f[2]), "results": [x for x in f[3].split(",") if x],
                               "stuck": f[4] == "true", "maxsteps": int(f[5])}

    # implementation: the cases in shards (each case measures its own goroutines, so shards are separate processes);
    # thorough repeats under GOMAXPROCS 1, 2 and the default
    bad = malformed(rng, tier)
    ilines = [json.dumps({"id": c["id"], "src": c.get("src") or program(c["shape"]), "instant": c["instant"], "delay_us": c["delay_us"],
                          "mode": c.get("mode", "cancel"), "reps": c.get("reps", 1), "warm": c.get("warm", []),
                          "need_ticks": c.get("need_ticks", 0), "route": c.get("route", ""), "calls": c.get("calls", []),
                          "ctx2": c.get("ctx2", "")}) for c in cs]
    ilines += [json.dumps({"id": c["id"], "src": c["src"], "instant": c["instant"], "delay_us": 0}) for c in bad]
    procs = [None] if tier == "quick" else [None, "1", "2"]
    impl_runs = []
    for gmp in procs:
        env = dict(os.environ)
        if gmp:
            env["GOMAXPROCS"] = gmp
        n = 8 if not gmp else 12
        with ThreadPoolExecutor(max_workers=n) as ex:
            rs = list(ex.map(lambda sh: run_lines(obs, sh, env=env), [ilines[i::n] for i in range(n)]))
        out = {}
        for rc, o, e in rs:
            if rc != 0:
                res.violation({"property": PROP, "kind": "harness-run-failed", "stage": "c06obs", "log": e[-2000:]}, nofail=True, tag="run")
                return
            for line in o.splitlines():
                f = line.split("\t")
                out[f[0]] = f[1:]
        # wall-clock observations (not back within the bound, late, goroutines not settled) depend on the load of the
        # machine: those cases are run again, one at a time, and the second observation is the one that is judged
        by_id = {json.loads(l)["id"]: l for l in ilines}
        # (a case whose goroutine dump shows risor code parked in an uninterruptible operation is not a wall-clock observation:
        # it is judged as it is)
        slow = [cid for cid, f in out.items() if not f[0].startswith("SKIPPED") and len(f) == 11 and f[10] == "-"
                and (f[0] != "true" or int(f[1]) > 2000000 or f[9] != "true")]
        # "the threads made no progress" is a bounded wait too: confirmed alone, in a fresh process (the case carries its own
        # history); a few confirmations are enough, the others are dropped
        noprog = sorted(cid for cid, f in out.items() if f[0].startswith("WARMFAIL") or (len(f) == 11 and "NOPROGRESS" in f[2]))
        # first those whose own history can explain it (an evaluation after one whose context has ended)
        noprog.sort(key=lambda cid: (0 if ":alive" not in cid.split("~after-")[-1].split("+")[0] else 1, cid))
        for cid in noprog[6:]:
            out[cid] = ["SKIPPED-NOPROGRESS-UNCONFIRMED"]
        slow = noprog[:6] + [x for x in slow if x not in noprog]
        for cid in slow[:100]:
            rc2, o2, e2 = run_lines(obs, [by_id[cid]], env=env)
            for line in o2.splitlines():
                f2 = line.split("\t")
                if f2[0] == cid:
                    out[cid] = f2[1:]
        if slow:
            cov.setdefault("rerun_after_slow_observation", 0)
            cov["rerun_after_slow_observation"] += len(slow)
        impl_runs.append((gmp or "default", out))

    evals = 0
    oracle_viol = []
    known_hits = {}
    corr_diffs = []
    nontrivial = set()
    lat = []
    errhist = {}
    samples = []
    skipped = 0
    unexplored = set()
    for gmp, out in impl_runs:
        for c in cs:
            f = out.get(c["id"])
            if f is None:
                corr_diffs.append({"case": c["id"], "why": "no output from the harness", "gomaxprocs": gmp})
                continue
            if f[0].startswith("SKIPPED"):
                skipped += 1
                continue
            if f[0].startswith("WARMFAIL"):
                k = int(f[0].split("-")[1])
                oracle_viol.append({"case": c["id"], "ended_by": c.get("mode", "cancel"), "src": c.get("src") or program(c["shape"]),
                                    "instant": c["instant"], "delay_us": c["delay_us"], "gomaxprocs": gmp, "history": c.get("warm", []),
                                    "need_ticks": c.get("need_ticks", 0), "route": c.get("route", ""), "calls": c.get("calls", []),
                                    "ctx2": c.get("ctx2", ""),
                                    "why": "evaluation %d of the history (%s) returned without an error, but the threads it started never "
                                           "reached their last statement (wdone() calls missing after 4 s, context alive): what earlier "
                                           "evaluations left behind in the process keeps the threads of a later one from running" % (
                                               k, c["warm"][k]["src"])})
                continue
            returned, lat_us, ec, val, t_ret, t_b, t_c, g0, g_after, settled, stuck = f
            evals += 1
            nomark = "NOMARK" in ec
            earlydone = "EARLYDONE" in ec       # the evaluation had ended before the cancellation was issued
            noprogress = "NOPROGRESS" in ec
            if earlydone:
                cov["ended_before_cancellation"] = cov.get("ended_before_cancellation", 0) + 1
            ec = ec.split(" ")[0]
            errhist[ec] = errhist.get(ec, 0) + 1
            m = model_out[c["mkey"]] if c["mkey"] else None
            info = {"case": c["id"], "ended_by": c.get("mode", "cancel"), "shape": toks(c["shape"]), "src": c.get("src") or program(c["shape"]), "instant": c["instant"], "delay_us": c["delay_us"],
                    "gomaxprocs": gmp, "repetitions": c.get("reps", 1), "history": c.get("warm", []), "need_ticks": c.get("need_ticks", 0),
                    "route": c.get("route", ""), "calls": c.get("calls", []), "ctx2": c.get("ctx2", ""), "observed": {"returned": returned, "latency_us": int(lat_us), "err": ec, "value": val,
                                                    "ticks": [int(t_ret), int(t_b), int(t_c)], "goroutines": [int(g0), int(g_after)],
                                                    "settled": settled}, "model": m}
            # ---- oracle: the property itself
            why = None
            if stuck != "-":
                info["observed"]["parked"] = stuck
                why = ("%s after the context ended: goroutine(s) running risor code are parked in an operation that no context can interrupt "
                       "(same state in two goroutine dumps; <goroutine>:<state>:<innermost risor frame>): %s" % (
                           "risor.Eval has not returned" if returned != "true" else "goroutines the evaluation started are left behind", stuck))
            elif c.get("route") == "vmreuse" and ec != "nil":
                why = "the host's sequence vm.Run / vm.Call on one VM failed: %s" % ec
            elif noprogress:
                why = ("the scenario implies that script code calls tick() (a thread or the main code reaches it without a blocking "
                       "operation before it), but no call was seen within 5 s while the context was still alive: threads of this "
                       "evaluation do not run")
            elif returned != "true":
                why = "risor.Eval did not return within 3 s of the cancellation"
            elif int(lat_us) > 2000000:
                why = "risor.Eval returned %d us after the cancellation" % int(lat_us)
            elif settled != "true":
                why = "goroutines did not settle after the return (%s before, %s after)" % (g0, g_after)
            elif t_b != t_c:
                why = "script code kept running after the return: tick() counter %s -> %s" % (t_b, t_c)
            elif ec != "ctx" and not earlydone:
                why = "returned error is %s, not the context's error" % ec
            if why:
                cls = known_class(c, ec) if why.startswith("returned error") else None
                info["why"] = why
                if cls:
                    known_hits.setdefault(cls, []).append(info)
                else:
                    oracle_viol.append(info)
            else:
                lat.append(int(lat_us))
            # ---- correspondence: the observation is one the model allows
            if m is None:
                pass
            elif not m["complete"]:
                unexplored.add(c["mkey"])
            elif noprogress:
                pass
            elif returned == "true" and ec not in m["results"] and not nomark and not earlydone:
                corr_diffs.append(dict(info, why="the model allows %s, the implementation returned %s" % (m["results"], ec)))
            elif m["stuck"] != (settled != "true" or t_b != t_c):
                corr_diffs.append(dict(info, why="model stuck=%s, implementation settled=%s ticks %s->%s" % (m["stuck"], settled, t_b, t_c)))
            if int(t_ret) > 0 or c["instant"] == "mark":
                nontrivial.add((c["name"], c["instant"], c["delay_us"]))
            if len(samples) < 8 and c["name"] in ("go-nest3", "cb-sorted-3-loop", "block-wait", "spawn-nest3-blocked") and c["instant"] == "mark":
                samples.append(info)

    # the malformed stream: whatever comes back, the call returns and nothing keeps running
    bad_evals = 0
    for gmp, out in impl_runs:
        for c in bad:
            f = out.get(c["id"])
            if f is None or f[0].startswith("SKIPPED"):
                continue
            bad_evals += 1
            returned, lat_us, ec, val, t_ret, t_b, t_c, g0, g_after, settled, stuck = f
            if returned != "true" or settled != "true" or t_b != t_c:
                oracle_viol.append({"case": c["id"], "src": c["src"], "instant": c["instant"], "delay_us": 0, "gomaxprocs": gmp,
                                    "why": "malformed program: returned=%s settled=%s ticks %s->%s" % (returned, settled, t_b, t_c)})
    evals += bad_evals
    lat.sort()
    cov["evaluations"] = evals
    cov["distinct_nontrivial"] = len(nontrivial)
    cov["rule"] = ("%d program shapes (loops, deep recursion; each of 6 blocking primitives with and without code after it and inside a loop; "
                   "each of 6 callback builtins with 1/3 callbacks, in tail position, with a blocked/sleeping/deep callback; go/spawn/f.spawn "
                   "with loops, blocked threads, callbacks, nested to depth 3%s) x cancellation instants {before start, right after start, at "
                   "mark(), 20 ms after mark() (main thread blocked / inside the callback)}%s. Observed: return latency, error class, tick() "
                   "counter after return, goroutine count settling. The oracle is the property on these observations; the extracted model "
                   "explores ALL schedules of the same shape and must allow the observed error and predict whether everything stops. "
                   "Non-trivial = distinct (shape, instant) in which script code ran before the cancellation." % (
                       len(base_shapes(C.Rng(res.seed), tier)), "; 120 random shapes" if tier == "thorough" else "",
                       "" if tier == "quick" else " x 20 repetitions x GOMAXPROCS {default, 1, 2}"))
    cov["samples"] = samples
    cov["correspondence"] = {"cases": evals - bad_evals, "malformed_stream": bad_evals, "differences": len(corr_diffs), "skipped_after_hang": skipped,
                             "shapes_explored_by_the_model": len(model_out) - len(unexplored), "shapes_beyond_the_explorer_budget": len(unexplored),
                             "model_states_max": max(v["states"] for v in model_out.values()),
                             "model_max_steps_after_flag": max(v["maxsteps"] for v in model_out.values())}
    cov["input_distribution"] = {"cases": len(cs), "returned_error_classes": errhist,
                                 "latency_us": {"n": len(lat), "median": lat[len(lat) // 2] if lat else None,
                                                "p99": lat[int(len(lat) * 0.99)] if lat else None, "max": lat[-1] if lat else None}}
    res.assumptions += [
        "Go's scheduler is fair to runnable goroutines and wakes every goroutine selecting on a closed Done channel (hypothesis `fair` of C06_all_stop)",
        "wall-clock promptness is measured (latency distribution in input_distribution), the theorems bound the number of steps",
        "one model step = one iteration of eval's loop (poll + instruction), one callback dispatch by a builtin, one frame of unwinding, or one wake-up from a select",
        "the blocking primitives modelled are those of the property: channel send/receive/range, time.sleep, thread.wait; other builtins that block (network, exec, stdin) are outside",
    ]
    known = load_known_c()
    for cls, vs in sorted(known_hits.items()):
        match = [kf for kf in known if kf.get("id") == cls]
        if match:
            res.known_finding("%s (%d observations, e.g. %s: %s)" % (match[0]["what"], len(vs), vs[0]["case"], vs[0]["why"]))
        else:
            oracle_viol += vs
    for v in oracle_viol[:10]:
        v.update({"property": PROP, "kind": "oracle-violation"})
        res.violation(v)
    if oracle_viol:
        return
    if proved and tier == "thorough":
        if not C.coqchk(res, PROP):
            proved = False
            res.broken = {"log_tail": res.coverage.get("coqchk", {}).get("tail", ""), "errors": []}
    if not proved:
        res.violation({"property": PROP, "kind": "proof-obligation-broken", "theorem_file": "coq/props/C06.v",
                       "broken": res.broken, "search": "%d observations: no failing input" % evals}, nofail=True, tag="proof")
        return
    if corr_diffs:
        res.violation({"property": PROP, "kind": "correspondence-broken", "first_difference": corr_diffs[0],
                       "differences": corr_diffs[:10], "count": len(corr_diffs),
                       "search": "the oracle was evaluated on all %d observations: no failing input" % evals}, nofail=True, tag="corr")


def replay(data):
    print(json.dumps({k: v for k, v in data.items() if k not in ("src",)}, indent=1)[:3000])
    obs, err = C.go_build("c06obs")
    if not obs:
        print(err)
        return 2
    d = data if "src" in data else data.get("first_difference", {})
    if "src" not in d:
        return 0
    line = json.dumps({"id": "replay", "src": d["src"], "instant": d["instant"], "delay_us": d["delay_us"],
                       "mode": d.get("ended_by", "cancel"), "reps": 4 * int(d.get("repetitions") or 1),
                       "warm": d.get("history", []), "need_ticks": d.get("need_ticks", 0), "route": d.get("route", ""),
                       "calls": d.get("calls", []), "ctx2": d.get("ctx2", "")})
    bad = 0
    for _ in range(5):
        rc, o, e = run_lines(obs, [line])
        print("implementation now: " + o.strip())
        f = o.strip().split("\t")
        if len(f) >= 2 and f[1].startswith("WARMFAIL"):
            bad += 1
        if len(f) >= 11 and (f[1] != "true" or (f[3].split(" ")[0] != "ctx" and "EARLYDONE" not in f[3]) or f[6] != f[7] or f[10] != "true" or (len(f) > 11 and f[11] != "-")
                              or "NOPROGRESS" in f[3]):
            bad += 1
    return 1 if bad else 0
