"""C05 - evaluation and compilation are deterministic."""
import os
import subprocess
from concurrent.futures import ThreadPoolExecutor

from lib import common as C, gen

PROP = "C05"
LEVEL = "proof"


def container_program(rng):
    """maps / sets / iteration / printing with the default builtins"""
    keys = ["b", "a", "c", "zz", "k1", "k2", "é", ""]
    r = rng
    n = 2 + r.below(5)
    ks = []
    while len(ks) < n:
        k = r.choice(keys)
        ks.append(k)       # duplicates allowed
    vals = ["1", "2", "[3, 1]", "{\"x\": 1, \"a\": 2}", "nil", "\"s\"", "t(1)", "t(\"v\")", "1.5"]
    pairs = [(k, r.choice(vals)) for k in ks]
    layout = r.below(4)
    if layout == 0:
        items = ", ".join('"%s": %s' % kv for kv in pairs)
    elif layout == 1:
        # one entry per line, keys aligned in the same column (the usual formatting)
        items = "\n" + "".join('    "%s": %s,\n' % kv for kv in pairs)
    elif layout == 2:
        # two entries per line
        rows = [pairs[i:i + 2] for i in range(0, len(pairs), 2)]
        items = "\n" + "".join("  " + ", ".join('"%s": %s' % kv for kv in row) + ",\n" for row in rows)
    else:
        items = "\n" + "".join('%s"%s": %s,\n' % (" " * (i % 3), kv[0], kv[1]) for i, kv in enumerate(pairs))
    pool = r.choice([
        [str(i) for i in range(9)],
        ["1.5", "2.25", "0.5", "-3.75", "1e9", "0.1", "100.0", "-0.0", "3.0"],
        ["1", "2.5", "\"a\"", "true", "0.5", "\"b\"", "3", "false", "-1.25", "byte(7)", "byte(3)", "nil"][:11],
        ["\"b\"", "\"a\"", "\"zz\"", "\"\"", "\"é\"", "\"k\""],
        ["1", "1.0", "2", "2.0", "0.5", "3", "true", "byte(1)", "byte(2)"],
        ["math.sqrt(-1)", "1.0", "2.0", "3.0", "math.inf()", "-math.inf()", "0.0", "-0.0", "math.sqrt(-4)", "1"],
    ])
    sitems = ", ".join(r.choice(pool) for _ in range(2 + r.below(6)))
    lines = ["import math", "func t(x) { print(\"t\", x); return x }", "m := {%s}" % items, "s := {%s}" % sitems, "out := []"]
    ops = ["print(m)", "print(s)", "out.append(string(m))", "out.append(string(s))", "for k, v := range m { out.append(k) }",
           "for x := range s { out.append(x) }", "out.append(keys(m))", "out.append(try(func() { return sorted(s) }, \"unsortable\"))", "out.append(list(s))",
           "for k := range m { print(k) }", "m2 := {\"q\": 0}\nm2.update(m)\nout.append(m2)", "out.append(m.keys())", "out.append(m.values())",
           "out.append(m.items())", "import json\nout.append(json.marshal(m))", "out.append(s.union({100, 50}))",
           "out.append(s.intersection({1, 2, 3, 0.5, 2.25}))", "out.append(s.union({1.5, 0.25, 7.75}))", "import json\nout.append(try(func() { return json.marshal(s) }, \"nojson\"))",
           "out.append(set(list(s)))", "out.append(string(list(s)))", "out.append(m == {%s})" % items, "out.append(s == {%s})" % sitems,
           "out.append(any(m))", "out.append(all(s))", "import os\nout.append(os.environ())", "out.append(encode(m, \"json\"))",
           "out.append(hash(string(m)))", "func f(a, b=1, c=\"x\") { return [a, b, c] }\nout.append(f(1))",
           "func g(a=[1], b={2}, c=t, d=-1) { return a }",        # several unsupported defaults: one compile error, always the same
           "out.append(func(a=1, b=[2], c={\"k\": 3}) { return a }())",
           "out.append(type(m))", "out.append('{m}')", "for i, x := range list(s) { out.append([i, x]) }"]
    for _ in range(3 + r.below(6)):
        lines.append(r.choice(ops))
    lines.append("out")
    return "\n".join(lines)


def run(res):
    tier = res.tier
    nprog = 1200 if tier == "quick" else 25000
    ncont = 1200 if tier == "quick" else 25000
    nproc = 5 if tier == "quick" else 20
    nrep = 3 if tier == "quick" else 5
    cov = res.coverage

    from checks import c12
    c12.sync_xt_mod()
    gen_exe, err = c12.build_xt("c05gen")
    if not gen_exe:
        res.violation({"property": PROP, "kind": "harness-build-failed", "stage": "go build harness_xt c05gen", "log": (err or "")[-3000:]}, nofail=True, tag="build")
        return
    rc, o, e = C.run([gen_exe, c12.XT], env=dict(C.GOENV), timeout=600)
    if rc != 0 or "gen_map_range_sites" not in o:
        res.violation({"property": PROP, "kind": "translator-failed", "stage": "c05gen", "log": (o + e)[-2500:]}, nofail=True, tag="translate")
        return
    C.write_if_changed(os.path.join(C.COQ, "gen", "GenMapRangeSites.v"), o)
    nsites = o.count('";') + 1
    exe, err = C.go_build("c05obs")
    if not exe:
        res.violation({"property": PROP, "kind": "harness-build-failed", "stage": "go build c05obs", "log": err[-3000:]}, nofail=True, tag="build")
        return
    proved = C.prove(res, PROP)

    rng = C.Rng(res.seed)
    srcs = []
    cdir = os.path.join(C.VERIF, "corpus", "C05")
    if os.path.isdir(cdir):
        for f in sorted(os.listdir(cdir)):
            srcs.append(open(os.path.join(cdir, f)).read())
    for i in range(nprog):
        srcs.append(gen.Gen(rng, features=["template"] if i % 3 == 0 else [], budget=35).program())
    for i in range(ncont):
        srcs.append(container_program(rng))
    inp = ("\n".join(s.encode("utf-8", "surrogateescape").hex() for s in srcs) + "\n").encode()

    def proc(k):
        # a fresh process each time: Go re-rolls its hash seed
        p = subprocess.run([exe, str(nrep)], input=inp, stdout=subprocess.PIPE)
        return p.stdout.decode("utf-8", "replace").splitlines()
    with ThreadPoolExecutor(max_workers=min(C.NCPU, nproc)) as ex:
        runs = list(ex.map(proc, range(nproc)))

    oracle = []
    evals = 0
    distinct = set()
    skipped = 0
    timeouts = 0
    for i, src in enumerate(srcs):
        lines = [r[i] if i < len(r) else None for r in runs]
        if any(l is None for l in lines):
            oracle.append({"kind": "oracle-violation", "source": src, "why": "a fresh process gave no answer for this program", "impl": str(lines)[:300]})
            continue
        if lines[0].startswith("SKIP"):
            skipped += 1
            continue
        if any(l.startswith("TIMEOUT") for l in lines):
            # the program runs into the evaluation's time budget (e.g. a loop that extends the list it ranges over):
            # what it has done by then depends on the clock
            timeouts += 1
            continue
        evals += nproc * nrep * 2
        distinct.add(src)
        why = None
        if any(l.startswith("GOPANIC") for l in lines):
            why = "panic: " + [l for l in lines if l.startswith("GOPANIC")][0][:200]
        else:
            f = [l.split(" ") for l in lines]
            if any(x[3] != "same_compile=1" for x in f):
                why = "compiling the same source several times in one process gave different bytes / errors"
            elif any(x[4] != "same_eval=1" for x in f):
                why = "evaluating the same source several times in fresh VMs gave different results / output"
            elif len({x[1] for x in f}) != 1:
                why = "the marshalled bytecode differs between fresh processes"
            elif len({x[2] for x in f}) != 1:
                why = "result / error / output differ between fresh processes"
        if why:
            oracle.append({"kind": "oracle-violation", "source": src, "impl": lines[:3], "why": why})

    cov["evaluations"] = evals
    cov["distinct_nontrivial"] = len(distinct)
    cov["rule"] = ("programs of the C01 generator and map/set-centred programs over the default builtins (printing, iteration, keys/values/items, "
                   "sorted, json, update/union/intersection, os.environ on a virtual OS, map literals with duplicate keys); each is compiled "
                   "and evaluated %d times in fresh VMs in each of %d fresh processes (fresh hash seeds); marshalled bytes, compile error "
                   "text, result, error text and captured stdout must all coincide. %d map-range sites of the current source are "
                   "classified. Non-trivial = distinct programs that compile." % (nrep, nproc, nsites))
    cov["samples"] = [{"source": srcs[-1], "digests": runs[0][len(srcs) - 1]}]
    cov["map_range_sites"] = nsites
    cov["skipped_not_parsing"] = skipped
    cov["skipped_time_budget"] = timeouts
    res.assumptions += [
        "rand, time and goroutine scheduling are excluded by the property; the corresponding modules are removed from the globals",
        "the hand classification of the map-range sites (coq/model/MapSites.v) is trusted; the obligation only guarantees that no site is unclassified",
    ]
    for v in oracle[:10]:
        v["property"] = PROP
        res.violation(v)
    if oracle:
        return
    if not proved:
        res.violation({"property": PROP, "kind": "proof-obligation-broken", "theorem_file": "coq/props/C05.v", "broken": res.broken,
                       "search": "%d repeated compilations/evaluations found no nondeterminism" % evals}, nofail=True, tag="proof")


def replay(data):
    import json
    print(json.dumps(data, indent=1)[:3000])
    return 0
