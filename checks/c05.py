"""C05 - evaluation and compilation are deterministic."""
import json
import os
import subprocess
from concurrent.futures import ThreadPoolExecutor

from lib import common as C, gen

PROP = "C05"
LEVEL = "proof"


def container_program(rng):
    """maps / sets / iteration / printing with the default builtins"""
    keys = ["b", "a", "c", "zz", "k1", "k2", "é", ""]
    r = rng
    n = 2 + r.below(5)
    ks = []
    while len(ks) < n:
        k = r.choice(keys)
        ks.append(k)       # duplicates allowed
    vals = ["1", "2", "[3, 1]", "{\"x\": 1, \"a\": 2}", "nil", "\"s\"", "t(1)", "t(\"v\")", "1.5"]
    pairs = [(k, r.choice(vals)) for k in ks]
    layout = r.below(4)
    if layout == 0:
        items = ", ".join('"%s": %s' % kv for kv in pairs)
    elif layout == 1:
        # one entry per line, keys aligned in the same column (the usual formatting)
        items = "\n" + "".join('    "%s": %s,\n' % kv for kv in pairs)
    elif layout == 2:
        # two entries per line
        rows = [pairs[i:i + 2] for i in range(0, len(pairs), 2)]
        items = "\n" + "".join("  " + ", ".join('"%s": %s' % kv for kv in row) + ",\n" for row in rows)
    else:
        items = "\n" + "".join('%s"%s": %s,\n' % (" " * (i % 3), kv[0], kv[1]) for i, kv in enumerate(pairs))
    pool = r.choice([
        [str(i) for i in range(9)],
        ["1.5", "2.25", "0.5", "-3.75", "1e9", "0.1", "100.0", "-0.0", "3.0"],
        ["1", "2.5", "\"a\"", "true", "0.5", "\"b\"", "3", "false", "-1.25", "byte(7)", "byte(3)", "nil"][:11],
        ["\"b\"", "\"a\"", "\"zz\"", "\"\"", "\"é\"", "\"k\""],
        ["1", "1.0", "2", "2.0", "0.5", "3", "true", "byte(1)", "byte(2)"],
        ["math.sqrt(-1)", "1.0", "2.0", "3.0", "math.inf()", "-math.inf()", "0.0", "-0.0", "math.sqrt(-4)", "1"],
    ])
    sitems = ", ".join(r.choice(pool) for _ in range(2 + r.below(6)))
    lines = ["import math", "func t(x) { print(\"t\", x); return x }", "m := {%s}" % items, "s := {%s}" % sitems, "out := []"]
    ops = ["print(m)", "print(s)", "out.append(string(m))", "out.append(string(s))", "for k, v := range m { out.append(k) }",
           "for x := range s { out.append(x) }", "out.append(keys(m))", "out.append(try(func() { return sorted(s) }, \"unsortable\"))", "out.append(list(s))",
           "for k := range m { print(k) }", "m2 := {\"q\": 0}\nm2.update(m)\nout.append(m2)", "out.append(m.keys())", "out.append(m.values())",
           "out.append(m.items())", "import json\nout.append(json.marshal(m))", "out.append(s.union({100, 50}))",
           "out.append(s.intersection({1, 2, 3, 0.5, 2.25}))", "out.append(s.union({1.5, 0.25, 7.75}))", "import json\nout.append(try(func() { return json.marshal(s) }, \"nojson\"))",
           "out.append(set(list(s)))", "out.append(string(list(s)))", "out.append(m == {%s})" % items, "out.append(s == {%s})" % sitems,
           "out.append(any(m))", "out.append(all(s))", "import os\nout.append(os.environ())", "out.append(encode(m, \"json\"))",
           "out.append(hash(string(m)))", "func f(a, b=1, c=\"x\") { return [a, b, c] }\nout.append(f(1))",
           "func g(a=[1], b={2}, c=t, d=-1) { return a }",        # several unsupported defaults: one compile error, always the same
           "out.append(func(a=1, b=[2], c={\"k\": 3}) { return a }())",
           "out.append(type(m))", "out.append('{m}')", "for i, x := range list(s) { out.append([i, x]) }"]
    for _ in range(3 + r.below(6)):
        lines.append(r.choice(ops))
    lines.append("out")
    return "\n".join(lines)


INT_EDGES = [0, 1, -1, 255, 256, 65535, 2 ** 31 - 1, 2 ** 31, 2 ** 32, 2 ** 53 - 1, 2 ** 53, 2 ** 53 + 1, 2 ** 53 + 3, 2 ** 54 + 2, 2 ** 56 + 1,
             10 ** 15, 10 ** 16 + 1, 10 ** 17 + 7, 10 ** 18 + 9, 1700000000123456789, 2 ** 62 - 1, 2 ** 62, 2 ** 62 + 1, 2 ** 63 - 2, 2 ** 63 - 1,
             0x7FFFFFFFFFFFFFFF, 0x20000000000001, 0x5555555555555555, 0x123456789ABCDEF]
FLOAT_EDGES = ["0.0", "-0.0", "0.1", "0.5", "1.0", "2.5", "8988465674311579" + "0" * 292 + ".0", "179769313486231570" + "0" * 291 + ".0",
               "0." + "0" * 323 + "5", "0." + "0" * 307 + "22250738585072014", "0." + "0" * 320 + "1", "9007199254740993.0", "9007199254740992.0",
               "0.30000000000000004", "123456789012345680000.0", "3.141592653589793", "4.9406564584124654", "0.000001", "1234567.125",
               "1" + "0" * 22 + ".0", "0.1000000000000000055511151231257827", "100000000000000000000000000000.0"]
STR_EDGES = ['""', '"a"', '"\\x00"', '"a\\x00b"', '"\\t\\n\\r"', '"\\\\"', '"\\""', '"\\x7f"', '"\\x01\\x02\\x1f"', '"é"', '"\u20ac"', '"\U0001F600"', '"e\u0301"', '"\u2028\u2029"',
             '"\ufeffbom"', '"\u00a0"', '"<>&\\u003c"', '"\\u00e9"', '"\\u2028"', '"\\U0001F600"', '`raw \\n {x} "q"`', '"{not} a template"', '"\\176"', '"\\101"',
             '"' + "x" * 300 + '"', '"\ud7ff\ue000"', '"\\e[0m"', '"\\a\\b\\f\\v"', "'t{1}\\n'"]


def constant_program(rng):
    """constants at the boundaries of every scalar type, as literals in expressions, in containers and as parameter defaults"""
    r = rng

    def intlit():
        n = r.choice(INT_EDGES)
        if r.chance(1, 4):
            n = n + r.choice([-2, -1, 1, 2]) if abs(n) < 2 ** 63 - 3 else n
        form = r.below(5)
        if n >= 0 and form == 0:
            t = hex(n)
        elif n >= 0 and form == 1 and n < 2 ** 63:
            t = "0" + oct(n)[2:] if n > 7 else str(n)
        else:
            t = str(n)
        if r.chance(1, 3):
            t = "-" + t if not t.startswith("-") else t[1:]
        return t

    def const():
        k = r.below(10)
        if k < 5:
            return intlit()
        if k < 7:
            f = r.choice(FLOAT_EDGES)
            return "-" + f if r.chance(1, 4) and not f.startswith("-") else f
        if k < 9:
            return r.choice(STR_EDGES)
        return r.choice(["true", "false", "nil"])
    lines = ["out := []"]
    for _ in range(2 + r.below(5)):
        k = r.below(10)
        if k < 3:
            c = const()
            lines.append("out.append(%s)" % c)
        elif k == 3:
            lines.append("out.append(%s %% 10)" % intlit())
        elif k == 4:
            lines.append("out.append(string(%s) + \"|\" + string(%s))" % (const(), const()))
        elif k == 5:
            lines.append("out.append([%s, %s, {\"k\": %s}])" % (const(), const(), const()))
        elif k == 6:
            name = "f%d" % len(lines)
            ps = ", ".join("p%d=%s" % (i, const()) for i in range(1 + r.below(4)))
            lines.append("func %s(%s) { return [%s] }\nout.append(%s())" % (name, ps, ", ".join("p%d" % i for i in range(ps.count("=")) ), name))
        elif k == 7:
            lines.append("out.append(func(a=%s, b=%s) { return [a, b, a == %s] }())" % (intlit(), const(), intlit()))
        elif k == 8:
            a, b = intlit(), intlit()
            lines.append("out.append(try(func() { return [%s == %s, %s < %s, %s - %s, (%s) & 0xFF, (%s) >> 3] }, \"E\"))" % (a, b, a, b, a, b, a, a))
        else:
            lines.append("const K%d = %s\nout.append(K%d)\nprint(K%d)" % (len(lines), const(), len(lines), len(lines)))
    lines.append("out")
    return "\n".join(lines)


def os_layer_case(rng):
    """A VirtualOS configuration whose Go maps have several entries that matter for one lookup - mount points nested in one
    another (3 to 7 deep, with and without a root mount), sibling mount points whose names extend one another, a larger
    environment - and a script that reads, stats, lists, writes, renames and removes at every depth, by absolute and relative
    paths.  Each mount answers with its own tag, so the result tells which mount served every access."""
    r = rng
    segs = ["data", "cache", "deep", "x", "y", "tmp", "srv", "a", "b", "lib"]
    mounts = {}
    if r.chance(3, 4):
        mounts["/"] = "ROOT"
    chain = []
    cur = ""
    for d in range(3 + r.below(5)):
        cur += "/" + r.choice(segs)
        if cur not in mounts:
            mounts[cur] = "M%d" % d
            chain.append(cur)
    for i in range(r.below(4)):
        base = r.choice(chain)
        sib = r.choice([base + "2", base + "-old", base[:-1] if len(base) > 2 else base + "z", base + "/" + r.choice(segs) + "_s",
                        "/" + r.choice(segs) + "_t"])
        if sib not in mounts and sib != "/":
            mounts[sib] = "S%d" % i
    env = dict(("V%d" % i, str(i)) for i in range(2 + r.below(8)))
    cwd = r.choice(["/"] + chain)
    points = sorted(mounts)
    lines = ["out := []", "func q(f) { return try(f, func(e) { return \"E:\" + string(e) }) }"]

    def somepath():
        mp = r.choice(points)
        mp0 = "" if mp == "/" else mp
        return r.choice([mp0 + "/f.txt", mp0 + "/sub/g.txt", mp0 + "/sub/deeper/h.txt", mp, mp0 + "/", mp0 + "x/f.txt", mp0 + "/../f.txt",
                         mp0 + "/./f.txt", mp0 + "//f.txt", mp0 + "/" + r.choice(segs) + "/f.txt", mp0 + "/" + r.choice(segs)])
    for _ in range(6 + r.below(10)):
        p = somepath()
        k = r.below(12)
        if k < 4:
            lines.append("out.append(q(func() { return string(os.read_file(%s)) }))" % json.dumps(p))
        elif k == 4:
            lines.append("out.append(q(func() { st := os.stat(%s); return [st.name, st.size] }))" % json.dumps(p))
        elif k == 5:
            lines.append("out.append(q(func() { return os.read_dir(%s).map(func(e) { return e.name }) }))" % json.dumps(p))
        elif k == 6:
            lines.append("out.append(q(func() { os.write_file(%s, \"w%d\"); return string(os.read_file(%s)) }))" % (json.dumps(p), len(lines), json.dumps(p)))
        elif k == 7:
            p2 = somepath()
            lines.append("out.append(q(func() { os.rename(%s, %s); return string(os.read_file(%s)) }))" % (json.dumps(p), json.dumps(p2), json.dumps(p2)))
        elif k == 8:
            lines.append("out.append(q(func() { os.remove(%s); return string(os.read_file(%s)) }))" % (json.dumps(p), json.dumps(p)))
        elif k == 9:
            mp = r.choice(points)
            rel = r.choice(["f.txt", "sub/g.txt", "../f.txt", "./f.txt", r.choice(segs) + "/f.txt"])
            lines.append("out.append(q(func() { os.chdir(%s); return [os.getwd(), string(os.read_file(%s))] }))" % (json.dumps(mp), json.dumps(rel)))
        elif k == 10:
            lines.append("out.append(q(func() { f := open(%s); d := string(f.read()); f.close(); return d }))" % json.dumps(p))
        else:
            lines.append("out.append(q(func() { return [os.environ(), os.getenv(\"V1\"), os.getwd()] }))")
    lines.append("out")
    return {"mounts": mounts, "cwd": cwd, "env": env, "src": "\n".join(lines)}


# ------------------------------------------------------------------ containers with order-sensitive contents through every consumer

DENIED_MODULES = ("exec", "http", "net", "ssh", "sql", "pgx", "aws", "redis", "kubernetes", "vault", "slack", "github", "playwright",
                  "fetch", "nslookup", "rand", "time", "uuid", "sched")
# excluded by the property (goroutines / channels) or ending the evaluation; everything else the configuration offers is called
NOT_CALLED = ("spawn", "chan", "make", "close", "os.exit", "exit", "sleep", "try", "call")

# members whose SUM depends on the order of addition (float addition is not associative), whose first element is visibly
# another one in every order, or whose kinds differ - so any consumer that takes the members in hash-map order shows it
BIG = "1" + "0" * 100 + ".0"
SET_POOLS = [
    ["10000000000000000.0", "1.0", "-10000000000000000.0", "3.0", "0.1", "0.2", "0.3", BIG, "-" + BIG, "0.7", "0.000000001"],
    ["9007199254740993", "-9007199254740992", "1", "0.5", "7", "10000000000000000.0", "-10000000000000000.0", "0.1", "3"],
    ['"b"', '"a"', "true", "nil", "1.5", "byte(3)", "2", '"zz"', "false", "byte(200)", '""'],
    ['"b"', '"a"', '"c"', '"y"', '"x"', '"é"', '"A"', '"10"', '"9"'],
    ["0.1", "0.2", "0.3", "0.4", "0.6", "0.7", "1000000000000000.0", "-1000000000000000.0", "0.001", "123456.789"],
    ["3", "1", "2", "10", "-5", "100", "7"],
]
VERBS = ["%v", "%s", "%d", "%q", "%+v", "%#v", "%T", "%x", "%5v|%v", "%f", "%t"]
CODECS = ["json", "base64", "base32", "hex", "gzip", "csv", "urlquery", "nosuch"]
SCALARS = ["1", "2", '"a"', '"json"', '","', "2.5", "true", "nil", "func(x) { return x }", "func(a, b) { return a }", "0", '"%v"']


def consumer_program(rng, callables, accepting=(), arity=None):
    """Sets and maps with order-sensitive contents handed to every function the configuration offers (alone, nested in a list /
    a map, next to a scalar, as second argument), to every formatting verb of sprintf / fmt.sprintf / printf / error / errorf, to
    every codec, to string templates, loops that accumulate, and finally returned to the host (Interface / MarshalJSON)."""
    r = rng
    lines = ["func q(f) { return try(f, func(e) { return \"E:\" + string(e) }) }", "out := []"]
    names = []

    def members(lo=2):
        pool = r.choice(SET_POOLS)
        n = lo + r.below(5)
        ms = []
        for _ in range(n):
            m = r.choice(pool)
            if r.chance(1, 8):
                m = r.choice(r.choice(SET_POOLS))
            ms.append(m)
        return ms
    nsets = 1 + r.below(3)
    for i in range(nsets):
        lines.append("s%d := {%s}" % (i, ", ".join(members())))
        names.append("s%d" % i)
    for i in range(1 + r.below(2)):
        ms = members()
        keys = ['"%s"' % k for k in ["b", "a", "c", "zz", "k", "é", "10", "9"]]
        vals = ms + [r.choice(names), "[%s]" % r.choice(names)]
        lines.append("m%d := {%s}" % (i, ", ".join("%s: %s" % (r.choice(keys), r.choice(vals)) for _ in range(2 + r.below(4)))))
        names.append("m%d" % i)
    if r.chance(1, 2):
        lines.append("fm := {%s}" % ", ".join("\"%s\": %s" % (r.choice(["k", "a", "b", "zz", "é", "10"]) + str(i), m) for i, m in enumerate(members())))
        names.append("fm")

    def cont():
        x = r.choice(names)
        k = r.below(10)
        if k == 0:
            return "[%s]" % x
        if k == 1:
            return "{\"tags\": %s, \"n\": 1}" % x
        if k == 2:
            return "[1, %s, %s]" % (x, r.choice(names))
        if k == 3:
            return "list(%s)" % x
        return x
    for _ in range(5 + r.below(8)):
        k = r.below(20)
        x = cont()
        if k < 8:
            # half of the calls go to the functions that were seen to ACCEPT a container (measured on the running configuration)
            f = r.choice(accepting) if accepting and r.chance(1, 2) else r.choice(callables)
            shape = r.below(6)
            # a call with a number of arguments the function does not take raises an args error, which try() does not catch: the
            # evaluation would end there.  Use a number of arguments the function was seen to take
            ar = (arity or {}).get(f) or {1, 2}
            if 1 not in ar and shape < 3:
                shape = 3 + r.below(3)
            if 2 not in ar and shape >= 3:
                shape = 0 if 1 in ar else 6
            if shape == 6:
                call = "%s(%s, %s, %s)" % (f, x, r.choice(SCALARS), r.choice(SCALARS))
            elif shape < 3:
                call = "%s(%s)" % (f, x)
            elif shape == 3:
                call = "%s(%s, %s)" % (f, x, r.choice(SCALARS))
            elif shape == 4:
                call = "%s(%s, %s)" % (f, r.choice(SCALARS), x)
            else:
                call = "%s(%s, %s)" % (f, x, cont())
            lines.append("out.append(q(func() { return %s }))" % call)
        elif k < 11:
            f = r.choice(["sprintf", "fmt.sprintf", "fmt.printf", "printf", "error", "errorf", "fmt.errorf", "errors.new", "fmt.println", "print"])
            if f in ("fmt.println", "print"):
                call = "%s(%s, %s)" % (f, x, cont())
            elif r.chance(1, 2):
                call = "%s(%s, %s)" % (f, json.dumps(r.choice(VERBS).split("|")[0]), x)
            else:
                call = "%s(%s, %s, %s)" % (f, json.dumps("a " + r.choice(VERBS).split("|")[0] + " b " + r.choice(VERBS).split("|")[0]), x, cont())
            lines.append("out.append(q(func() { return %s }))" % call)
        elif k < 13:
            lines.append("out.append(q(func() { return encode(%s, %s) }))" % (x, json.dumps(r.choice(CODECS))))
        elif k == 13:
            lines.append("out.append(q(func() { return decode(encode(%s, %s), %s) }))" % (x, json.dumps(r.choice(CODECS)), json.dumps(r.choice(CODECS))))
        elif k == 14:
            n = r.choice(names)
            lines.append("out.append(q(func() { return 'a {%s} b {%s}' }))" % (n, r.choice(names)))
        elif k == 15:
            n = r.choice(names)
            lines.append("out.append(q(func() { acc := 0.0; first := nil; for i, x := range list(%s) { if i == 0 { first = x }; acc += float(x) }; return [acc, first] }))" % n)
        elif k == 16:
            n = r.choice(names)
            lines.append("out.append(q(func() { acc := 0.0; names := []; for x := range %s { names.append(x); acc += float(x) }; return [acc, names] }))" % n)
        elif k == 17:
            lines.append("out.append(q(func() { return string(%s) + \"|\" + string(type(%s)) }))" % (x, x))
        elif k == 18:
            n = r.choice(names)
            lines.append("out.append(q(func() { return %s.%s }))" % (
                n, r.choice(["union(%s)" % r.choice(names), "difference({1})", "keys()", "values()", "items()", "has(1)", "size()", "clear()", "pop(\"a\", 0)"])))
        else:
            lines.append("out.append(q(func() { return json.marshal(%s) }))" % x)
    lines.append(r.choice(["[out, %s]" % ", ".join(names), r.choice(names), "out", "{\"r\": %s, \"out\": out}" % r.choice(names)]))
    return "\n".join(lines)


def history_case(rng, attrs, arity=None):
    """Several evaluations with DIFFERENT options in one process: dotted denies / overrides on attributes of default modules,
    denies / overrides of plain globals, extra globals.  Every step's script reads a small pool of attributes (type, printed
    form, a call), so a step shows what an earlier step's options did to the modules it is given."""
    r = rng
    pool = []
    mod = r.choice(sorted({a.split(".")[0] for a in attrs if "." in a}))
    same = [a for a in attrs if a.startswith(mod + ".")]
    for _ in range(2 + r.below(3)):
        pool.append(r.choice(same))
    for _ in range(1 + r.below(3)):
        pool.append(r.choice(attrs))
    pool = sorted(set(pool))
    ARGS1 = ["16", "\"a,b\"", "[3, 1, 2]", "2.5", "\"A\"", "\"a\""]

    def script():
        ps = []
        pr = []
        for a in pool:
            if r.chance(3, 4):
                # what the attribute IS goes to stdout first (an args error of a call below ends the evaluation; stdout is kept)
                pr.append("print(q(func() { return string(%s) + \"|\" + string(type(%s)) }))" % (a, a))
                ar = sorted((arity or {}).get(a) or {1})
                ps.append("q(func() { return %s(%s) })" % (a, ", ".join(r.choice(ARGS1) for _ in range(r.choice(ar)))))
        ps.append("q(func() { return g1 })")
        return "func q(f) { return try(f, func(e) { return \"E:\" + string(e) }) }\n%s\n[%s]" % ("\n".join(pr), ",\n ".join(ps))
    steps = []
    for _ in range(2 + r.below(4)):
        st = {"src": script(), "deny": [], "override": {}, "globals": {"g1": 1}}
        k = r.below(8)
        if k < 3:
            st["deny"] = [r.choice(pool) for _ in range(1 + r.below(2))]
        elif k < 5:
            st["override"] = {r.choice(pool): r.choice([3, "ov", [1, 2], 0])}
        elif k == 5:
            st["deny"] = [r.choice(pool).split(".")[0]]
        elif k == 6:
            st["globals"] = {"g1": r.choice([7, "g"])}
        steps.append(st)
    return {"steps": steps}


def run(res):
    tier = res.tier
    nprog = 1200 if tier == "quick" else 25000
    ncont = 1200 if tier == "quick" else 25000
    nproc = 5 if tier == "quick" else 20
    nrep = 3 if tier == "quick" else 5
    cov = res.coverage

    from checks import c12, c11
    c12.sync_xt_mod()
    gen_exe, err = c12.build_xt("c05gen")
    if not gen_exe:
        res.violation({"property": PROP, "kind": "harness-build-failed", "stage": "go build harness_xt c05gen", "log": (err or "")[-3000:]}, nofail=True, tag="build")
        return
    rc, o, e = C.run([gen_exe, c12.XT], env=dict(C.GOENV), timeout=600)
    translator_log = None
    if rc != 0 or "gen_map_range_sites" not in o:
        # the tables could not be produced (the usual reason: the source tree does not type-check).  That is a broken obligation,
        # not the end of the check: if the harness still builds, the differential stages below look for a concrete input
        translator_log = (o + e)[-2500:]
        nsites = 0
    else:
        C.write_if_changed(os.path.join(C.COQ, "gen", "GenMapRangeSites.v"), o)
        nsites = o.count('";') + 1
    exe, err = C.go_build("c05obs")
    lst, err2 = C.go_build("c05list", overlay=c11.make_overlay()) if exe else (None, "")
    if not exe or not lst:
        v = {"property": PROP, "kind": "harness-build-failed", "stage": "go build c05obs / c05list", "log": ((err or "") + (err2 or ""))[-3000:]}
        if translator_log:
            v["translator_log"] = translator_log
            v["note"] = "c05gen could not load the source tree either: the tree under test does not compile, so there is nothing to evaluate"
        res.violation(v, nofail=True, tag="build")
        return
    rc, o, e = C.run([lst], timeout=120)
    reach = [l.split(" ", 1) for l in o.splitlines() if " " in l]
    reach = [(k, n) for k, n in reach if n.split(".")[0] not in DENIED_MODULES]
    callables = [n for k, n in reach if k == "builtin" and n not in NOT_CALLED]
    attrs = [n for k, n in reach if k != "module" and n not in NOT_CALLED]
    if rc != 0 or len(callables) < 50:
        res.violation({"property": PROP, "kind": "harness-build-failed", "stage": "c05list", "log": (o + e)[-2000:]}, nofail=True, tag="build")
        return
    if translator_log:
        proved = False
        res.broken = {"log_tail": "translator c05gen failed (tables of map-range sites not produced): " + translator_log, "errors": []}
    else:
        proved = C.prove(res, PROP)

    rng = C.Rng(res.seed)
    srcs = []
    cdir = os.path.join(C.VERIF, "corpus", "C05")
    if os.path.isdir(cdir):
        for f in sorted(os.listdir(cdir)):
            srcs.append(open(os.path.join(cdir, f)).read())
    for i in range(nprog):
        srcs.append(gen.Gen(rng, features=["template"] if i % 3 == 0 else [], budget=35).program())
    for i in range(ncont):
        srcs.append(container_program(rng))
    # own random streams for the families added later (the streams above stay as they were)
    krng = C.Rng(res.seed ^ 0x636f6e7374)
    nconst = 800 if tier == "quick" else 20000
    for i in range(nconst):
        srcs.append(constant_program(krng))
    orng = C.Rng(res.seed ^ 0x6f736c61796572)
    nos = 400 if tier == "quick" else 8000
    oscases = {}
    for i in range(nos):
        c = os_layer_case(orng)
        oscases[len(srcs)] = c
        srcs.append(c["src"])
    # containers with order-sensitive contents through every consumer the configuration offers
    crng = C.Rng(res.seed ^ 0x636f6e73756d65)
    ncons = 3000 if tier == "quick" else 40000
    # which of the functions take a container at all (a set, a list, a map as only argument without raising)?  Measured, not listed
    probes = [(f, x) for f in callables for x in ("{2, 1}", "[2, 1]", "{\"b\": 2, \"a\": 1}", "{\"b\", \"a\"}")]
    pin = ("\n".join(("try(func() { %s(%s); return \"Y\" }, \"N\")" % fx).encode().hex() for fx in probes) + "\n").encode()
    pout = subprocess.run([exe, "1"], input=pin, stdout=subprocess.PIPE).stdout.decode("utf-8", "replace").splitlines()
    yes = "OK \"Y\"".encode().hex()
    accepting = sorted({fx[0] for fx, l in zip(probes, pout) if len(l.split(" ")) > 6 and l.split(" ")[6] == yes})
    # and with how many arguments can each be called (an args error is not caught by try and ends the evaluation)?
    aprobes = [(f, k) for f in callables for k in (1, 2, 3)]
    pin = ("\n".join(("%s(%s)" % (f, ", ".join(["1"] * k))).encode().hex() for f, k in aprobes) + "\n").encode()
    pout = subprocess.run([exe, "1"], input=pin, stdout=subprocess.PIPE).stdout.decode("utf-8", "replace").splitlines()
    arity = {}
    argserr = "ERR args error".encode().hex()
    for (f, k), l in zip(aprobes, pout):
        fl = l.split(" ")
        if len(fl) > 6 and fl[0] == "D" and not fl[6].startswith(argserr):
            arity.setdefault(f, set()).add(k)
    for i in range(ncons):
        srcs.append(consumer_program(crng, callables, accepting, arity))
    inp = ("\n".join(("O " + json.dumps(oscases[k]).encode("utf-8").hex()) if k in oscases else s.encode("utf-8", "surrogateescape").hex()
                      for k, s in enumerate(srcs)) + "\n").encode()

    def proc(k):
        # a fresh process each time: Go re-rolls its hash seed
        p = subprocess.run([exe, str(nrep)], input=inp, stdout=subprocess.PIPE)
        return p.stdout.decode("utf-8", "replace").splitlines()
    with ThreadPoolExecutor(max_workers=min(C.NCPU, nproc)) as ex:
        runs = list(ex.map(proc, range(nproc)))

    oracle = []
    evals = 0
    distinct = set()
    skipped = 0
    timeouts = 0
    for i, src in enumerate(srcs):
        lines = [r[i] if i < len(r) else None for r in runs]
        if any(l is None for l in lines):
            oracle.append({"kind": "oracle-violation", "source": src, "why": "a fresh process gave no answer for this program", "impl": str(lines)[:300]})
            continue
        if lines[0].startswith("SKIP"):
            skipped += 1
            continue
        if any(l.startswith("TIMEOUT") for l in lines):
            # the program runs into the evaluation's time budget (e.g. a loop that extends the list it ranges over):
            # what it has done by then depends on the clock
            timeouts += 1
            continue
        evals += nproc * nrep * 2
        distinct.add(src)
        why = None
        if any(l.startswith("GOPANIC") for l in lines):
            why = "panic: " + [l for l in lines if l.startswith("GOPANIC")][0][:200]
        else:
            f = [l.split(" ") for l in lines]
            if any(x[3] != "same_compile=1" for x in f):
                why = "compiling the same source several times in one process gave different bytes / errors"
            elif any(x[4] != "same_eval=1" for x in f):
                why = "evaluating the same source several times in fresh VMs of one process gave different results / output / host views"
                bad = [x for x in f if x[4] != "same_eval=1" and len(x) > 8]
                if bad:
                    try:
                        why += ": " + bytes.fromhex(bad[0][8]).decode("utf-8", "replace")
                    except ValueError:
                        pass
            elif any(len(x) < 6 or x[5] != "same_reload=1" for x in f):
                bad = [x for x in f if len(x) >= 6 and x[5] != "same_reload=1"]
                detail = ""
                if bad and len(bad[0]) > 7:
                    try:
                        detail = ": " + bytes.fromhex(bad[0][7]).decode("utf-8", "replace")
                    except ValueError:
                        pass
                why = ("the compiled code is not identical after serialisation: MarshalCode -> UnmarshalCode -> MarshalCode gives other bytes, or the "
                       "code read back evaluates differently from the source" + detail)
            elif len({x[1] for x in f}) != 1:
                why = "the marshalled bytecode differs between fresh processes"
            elif len({x[2] for x in f}) != 1:
                why = "result / error / output differ between fresh processes"
        if why:
            v = {"kind": "oracle-violation", "source": src, "impl": lines[:3], "why": why}
            if i in oscases:
                v["virtual_os"] = {k: oscases[i][k] for k in ("mounts", "cwd", "env")}
                v["why"] += (" (the script runs under a VirtualOS with the mounts / environment given in `virtual_os`; every mount is a tagged in-memory "
                             "filesystem, so a result `TAG:path` names the mount that served the access)")
            oracle.append(v)

    # option histories: several evaluations with different options in one process; every step must give what the same step
    # gives alone in a fresh process
    hrng = C.Rng(res.seed ^ 0x68697374)
    nhist = 150 if tier == "quick" else 4000
    hists = [history_case(hrng, attrs, arity) for _ in range(nhist)]

    def hrun(steps):
        line = (json.dumps({"steps": steps}).encode("utf-8").hex() + "\n").encode()
        for attempt in range(2):
            p = subprocess.run([exe, "hist"], input=line, stdout=subprocess.PIPE)
            f = p.stdout.decode("utf-8", "replace").split()
            if len(f) == len(steps) + 1 and f[0] == "H":
                try:
                    return [bytes.fromhex(x).decode("utf-8", "replace") for x in f[1:]]
                except ValueError:
                    pass
        return None

    def hjudge(h):
        steps = h["steps"]
        whole = hrun(steps)
        if whole is None:
            return ("noanswer", None)
        if any(o.startswith("TIMEOUT") for o in whole):
            return ("timeout", None)
        for i, st in enumerate(steps):
            alone = hrun([st])
            if alone is None:
                return ("noanswer", None)
            if alone[0].startswith("TIMEOUT"):
                return ("timeout", None)
            if alone[0] != whole[i]:
                # confirm: the step alone, once more, gives the same as before (otherwise the step itself is not deterministic
                # - also a violation, but another one)
                again = hrun([st])
                return ("diff", {"step": i, "in_history": whole[i].replace("\x00", " | ")[:1500], "alone": alone[0].replace("\x00", " | ")[:1500],
                                 "alone_again_same": again is not None and again[0] == alone[0]})
        return ("ok", None)
    with ThreadPoolExecutor(max_workers=C.NCPU) as ex:
        hres = list(ex.map(hjudge, hists))
    hist_ok = 0
    for h, (verdict, d) in zip(hists, hres):
        if verdict == "ok":
            hist_ok += 1
            evals += 2 * len(h["steps"])
            distinct.add(json.dumps(h, sort_keys=True))
        elif verdict == "timeout":
            timeouts += 1
        elif verdict == "noanswer":
            oracle.append({"kind": "oracle-violation", "history": h["steps"], "why": "c05obs hist gave no answer for this history (twice)"})
        else:
            st = h["steps"][d["step"]]
            oracle.append({"kind": "oracle-violation", "history": h["steps"], "failing_step": d["step"], "source": st["src"],
                           "options_of_failing_step": {k: st[k] for k in ("deny", "override", "globals")},
                           "in_history": d["in_history"], "alone_in_fresh_process": d["alone"], "alone_again_same": d["alone_again_same"],
                           "why": "evaluating step %d of this history (same source, same options, fresh Config / compiler / VM) after the earlier steps "
                                  "of the history - which had OTHER options (dotted denies / overrides on default modules, extra globals) - gives another result "
                                  "than the same step alone in a fresh process (observations: result | stdout | host view)" % d["step"]})

    cov["evaluations"] = evals
    cov["distinct_nontrivial"] = len(distinct)
    cov["rule"] = ("programs of the C01 generator and map/set-centred programs over the default builtins (printing, iteration, keys/values/items, "
                   "sorted, json, update/union/intersection, os.environ on a virtual OS, map literals with duplicate keys); each is compiled "
                   "and evaluated %d times in fresh VMs in each of %d fresh processes (fresh hash seeds); marshalled bytes, compile error "
                   "text, result, error text and captured stdout must all coincide; the marshalled code is read back and marshalled again (twice: same bytes) and "
                   "the code read back is evaluated (same result / error / output as the source); %d programs of constants at the boundaries of the scalar types "
                   "(integers around 2^53, 2^62, 2^63, floats with long digit strings / -0.0 / denormals, strings of every character class; as literals, in containers, "
                   "as parameter defaults); %d OS-layer cases (VirtualOS with 3-7 mount points nested in one another plus look-alike siblings, tagged in-memory "
                   "filesystems, reads / stats / listings / writes / renames / removes by absolute and relative paths, environment). %d map-range sites of the current source are "
                   "classified, and the text of every function that holds one is the text that was reviewed (digest). %d consumer programs: sets / maps with order-sensitive contents "
                   "(floats whose sum depends on the order, mixed kinds) handed to each of the %d builtins and module functions the configuration offers (listed from the "
                   "running configuration), to every formatting verb, codec, template and accumulating loop, and returned to the host; the observation of every evaluation "
                   "includes the host's view of the result (Interface() with slices in order, json.Marshal, String()). %d option histories: 2-5 evaluations with different "
                   "options (dotted denies / overrides on default modules, denied modules, extra globals) in one process, every step compared with the same step alone in a "
                   "fresh process. Non-trivial = distinct programs that compile / histories." % (nrep, nproc, nconst, nos, nsites, ncons, len(callables), nhist))
    cov["samples"] = [{"source": srcs[-1], "digests": runs[0][len(srcs) - 1]}, {"history": hists[0]["steps"]}]
    cov["consumer_programs"] = ncons
    cov["callables_reached"] = len(callables)
    cov["callables_accepting_a_container"] = accepting
    cov["option_histories"] = nhist
    cov["option_histories_equal_to_alone"] = hist_ok
    cov["map_range_sites"] = nsites
    cov["skipped_not_parsing"] = skipped
    cov["skipped_time_budget"] = timeouts
    res.assumptions += [
        "rand, time and goroutine scheduling are excluded by the property; the corresponding modules are removed from the globals",
        "the hand classification of the map-range sites (coq/model/MapSites.v) is trusted; the obligation only guarantees that no site is unclassified",
    ]
    for v in oracle[:10]:
        v["property"] = PROP
        res.violation(v)
    if oracle:
        return
    if not proved:
        res.violation({"property": PROP, "kind": "proof-obligation-broken", "theorem_file": "coq/props/C05.v", "broken": res.broken,
                       "search": "%d repeated compilations/evaluations found no nondeterminism" % evals}, nofail=True, tag="proof")


def replay(data):
    import json
    print(json.dumps(data, indent=1)[:3000])
    return 0
