"""C07 - runs on a reused VM are independent of earlier runs and their contexts."""
import json
import os
import shutil
import subprocess
import tempfile
from concurrent.futures import ThreadPoolExecutor

from lib import common as C
from lib import c07script
from lib import c07mod

PROP = "C07"
LEVEL = "proof"

LIB_BASE = ("func deep(n) { if n <= 0 { return 0 }; return deep(n-1) }\n"
            "func fact(n) { if n <= 0 { return 1 }; return 2 + fact(n-1) }\n")


# ------------------------------------------------------------------ programs: model term <-> risor source

def toks(e):
    t = e[0]
    if t in ("L", "A", "D", "F"):
        return [t, str(e[1])]
    if t in ("G", "R", "P", "T", "X"):
        return [t]
    if t in ("B", "S"):
        return [t] + toks(e[1]) + toks(e[2])
    if t in ("N", "K"):
        return [t, str(e[1])] + toks(e[2])
    if t == "C":
        return ["C"] + toks(e[1])
    raise ValueError(e)


def expr_src(e):
    t = e[0]
    if t == "L":
        return str(e[1]) if e[1] >= 0 else "(%d)" % e[1]
    if t == "G":
        return "getg()"
    if t == "A":
        return "addg(%d)" % e[1]
    if t == "B":
        return "(%s + %s)" % (expr_src(e[1]), expr_src(e[2]))
    if t == "N":
        return "[%s%s][%d]" % ("0, " * e[1], expr_src(e[2]), e[1])
    if t == "C":
        return "(func() { %s })()" % body_src(e[1])
    if t == "K":
        x = e[2]
        for _ in range(e[1]):
            x = ("C", x)
        return expr_src(x)
    if t == "R":
        return "[1][5]"
    if t == "P":
        return "boom()"
    if t == "T":
        return "gate()"
    if t == "D":
        return "deep(%d)" % e[1]
    if t == "F":
        return "fact(%d)" % e[1]
    raise ValueError("not an expression: %r" % (e,))


def body_src(e):
    """statements of a function body evaluating e"""
    if e[0] == "S":
        return "%s; %s" % (stmt_src(e[1]), body_src(e[2]))
    if e[0] == "X":
        return "for { spin() }"
    return "return %s" % expr_src(e)


def stmt_src(e):
    if e[0] == "S":
        return "%s; %s" % (stmt_src(e[1]), stmt_src(e[2]))
    if e[0] == "X":
        return "for { spin() }"
    return expr_src(e)


def top_src(e):
    """top-level program evaluating e (value of the last expression statement)"""
    if e[0] == "S":
        return "%s\n%s" % (stmt_src(e[1]), top_src(e[2]))
    if e[0] == "X":
        return "for { spin() }"
    return expr_src(e)


# ------------------------------------------------------------------ histories

class Hist:
    """Builds a history in both notations and keeps the generator's bookkeeping:
    which watcher belongs to which context, which contexts are cancelled."""

    def __init__(self, hid, g0=0):
        self.id, self.g0 = hid, g0
        self.items = []          # ("env", [kind, n]) | ("inv", api, ctx, expr, gates)
        self.ninv = 0
        self.cancelled = set()
        self.unfired = {}        # ctx -> [watcher index]
        self.tags = []

    def cancel_events(self, c):
        """cancel(ctx c) followed by every watcher of c getting to run"""
        evs = [["c", c]]
        self.cancelled.add(c)
        for w in self.unfired.get(c, []):
            evs.append(["f", w])
        self.unfired[c] = []
        return evs

    def env_cancel(self, c):
        for ev in self.cancel_events(c):
            self.items.append(("env", ev))

    def inv(self, api, ctx, expr, gates_fn=None, imp=False):
        """gates_fn(h, w) -> list of event lists, called after the watcher w of this start is registered;
        imp: the program begins with `import math` (math is a module among the VM's globals)"""
        w = self.ninv
        self.ninv += 1
        if ctx in self.cancelled:
            # the watcher runs at once: the program is held in a gate until it has
            expr = ("S", ("T",), expr)
            gates = [[["f", w]]]
        else:
            self.unfired.setdefault(ctx, []).append(w)
            gates = gates_fn(self, w) if gates_fn else []
        self.items.append(("inv", api, ctx, expr, gates, imp))

    def model_line(self):
        out = [self.id, str(self.g0)]
        for it in self.items:
            if it[0] == "env":
                out += ["E", it[1][0], str(it[1][1])]
            else:
                _, api, ctx, expr, gates, imp = it
                out += ["I", api, str(ctx), "1" if imp else "0", str(len(gates))]
                for evs in gates:
                    out.append(str(len(evs)))
                    for ev in evs:
                        out += [ev[0], str(ev[1])]
                out += toks(expr)
        return " ".join(out)

    def impl_json(self):
        lib = LIB_BASE
        items = []
        k = 0
        for it in self.items:
            if it[0] == "env":
                items.append({"k": "env", "ev": it[1]})
            else:
                _, api, ctx, expr, gates, imp = it
                d = {"k": "inv", "api": api, "ctx": ctx, "gates": gates}
                if api == "CL":
                    fn = "c%d" % k
                    lib += "func %s() { %s%s }\n" % (fn, "import math; " if imp else "", body_src(expr))
                    d["fn"] = fn
                    d["src"] = ""
                else:
                    d["src"] = ("import math\n" if imp else "") + top_src(expr)
                k += 1
                items.append(d)
        return {"id": self.id, "g0": self.g0, "lib": lib, "items": items, "plain": sorted(getattr(self, "plain", []))}


KINDS = ["normal", "gated", "err", "panic", "frames", "stack", "spin"]
APIS = ["RC", "CL", "RN"]


def kind_expr(kind, rng, k):
    """program of the given kind; k makes values differ between invocations"""
    if kind == "normal":
        return rng.choice([
            ("S", ("A", k + 1), ("B", ("G",), ("L", 10 * k))),
            ("B", ("G",), ("C", ("B", ("L", k), ("A", 2)))),
            ("N", 3, ("B", ("G",), ("L", k))),
            ("F", 3 + k % 4),
        ])
    if kind == "gated":
        return ("S", ("A", 1), ("S", ("T",), ("B", ("G",), ("L", 100 + k))))
    if kind == "err":
        d, p = rng.below(4), rng.choice([0, 1, 5, 40])
        return ("S", ("A", 3), ("K", d, ("N", p, ("R",)))) if rng.chance(1, 2) else ("K", d, ("B", ("L", 1), ("N", p, ("R",))))
    if kind == "panic":
        d, p = rng.below(4), rng.choice([0, 2, 30])
        return ("S", ("T",), ("K", d, ("N", p, ("P",)))) if rng.chance(1, 2) else ("K", d, ("N", p, ("P",)))
    if kind == "frames":
        return ("S", ("A", 1), ("D", 1100 + k))
    if kind == "stack":
        return ("B", ("L", 1), ("F", 1100 + k))
    if kind == "spin":
        return ("S", ("A", 5), ("S", ("T",), ("X",)))
    raise ValueError(kind)


def uses_lib(e):
    return e[0] in ("D", "F") or any(uses_lib(x) for x in e[1:] if isinstance(x, tuple))


def has_gate(e):
    return e[0] in ("T",) or any(has_gate(x) for x in e[1:] if isinstance(x, tuple))


def gen_history(hid, rng, length, kinds=None, apis=None, repl=None):
    """One history: `length` invocations with contexts shared or not, and cancellations of earlier contexts
    placed after their run, between later runs, or inside a later run (at its gate / while it spins)."""
    h = Hist(hid, g0=rng.below(5))
    # reuse protocol: embedding (RunCode+Call), REPL (Run+Call), or mixed
    proto = repl if repl is not None else rng.choice(["embed", "embed", "repl", "mixed"])
    pending = []       # contexts of finished invocations not yet cancelled
    nctx = 0
    loader_ok = False
    seen_rn = False
    main_live = False   # the library functions defined by the first Run are still assigned in the main code's globals
    for k in range(length):
        kind = kinds[k] if kinds else rng.choice(KINDS)
        if apis:
            api = apis[k]
        else:
            first = "RC" if proto != "repl" else "RN"
            pool = {"embed": ["RC", "CL", "CL"], "repl": ["RN", "CL", "RN"], "mixed": ["RC", "RN", "CL"]}[proto]
            api = first if k == 0 else rng.choice(pool)
        if k == 0 and api == "CL":
            api = "RC"
        expr = kind_expr(kind, rng, k)
        # context: a new one, or the one of an earlier invocation (possibly already cancelled)
        if nctx > 0 and rng.chance(1, 4):
            ctx = rng.below(nctx)
        else:
            ctx = nctx
            nctx += 1
        # stale cancellations between the runs
        for c in list(pending):
            if rng.chance(1, 3):
                h.env_cancel(c)
                pending.remove(c)
                h.tags.append("cancel-between")
        # a Call needs the function table of the code loaded last: that load must have got past its definitions
        if api == "CL" and not loader_ok:
            api = "RC" if proto != "repl" else "RN"
        if api == "RC":
            loader_ok = ctx not in h.cancelled
            main_live = False          # resetForNewCode drops the main code's script-level globals (by design)
        elif api == "RN":
            if not seen_rn:
                seen_rn = True
                main_live = ctx not in h.cancelled
            elif not main_live:
                # script-level definitions are gone: the piece must stand on its own
                if kind in ("frames", "stack"):
                    kind = "err"
                for _ in range(8):
                    if not uses_lib(expr):
                        break
                    expr = kind_expr(kind, rng, k)
                if uses_lib(expr):
                    expr = ("S", ("A", 1), ("B", ("G",), ("L", k)))
            loader_ok = main_live
        imp = rng.chance(1, 3)

        def gates_fn(hh, w, kind=kind, ctx=ctx):
            gates = []
            if has_gate(expr):
                evs = []
                for c in list(pending):
                    if c != ctx and rng.chance(1, 2):
                        evs += hh.cancel_events(c)
                        pending.remove(c)
                        hh.tags.append("stale-inside")
                if rng.chance(1, 6):
                    evs.append(["r", 0])              # malformed use: a concurrent invocation on the running VM
                    hh.tags.append("reenter")
                if kind == "gated" and rng.chance(1, 4):
                    evs += hh.cancel_events(ctx)      # its own context, mid-run
                    hh.tags.append("own-midrun")
                gates.append(evs)
            if kind == "spin":
                # the loop spins; stale cancellations first, then (usually) its own
                for c in list(pending):
                    if c != ctx and rng.chance(1, 2):
                        gates.append(hh.cancel_events(c))
                        pending.remove(c)
                        hh.tags.append("stale-inside-spin")
                gates.append([])
                if rng.chance(29, 30):
                    gates.append(hh.cancel_events(ctx))
                else:
                    hh.tags.append("diverge")
            return gates

        h.inv(api, ctx, expr, gates_fn, imp=imp)
        h.tags.append(kind + ":" + api + (":import" if imp else ""))
        if ctx not in h.cancelled and ctx not in pending:
            pending.append(ctx)
        if "diverge" in h.tags:
            break
    # some of the contexts that are never cancelled are context.Background() itself: no Done channel, no watcher
    used = {}
    for it in h.items:
        if it[0] == "inv":
            used.setdefault(it[2], []).append(it)
    h.plain = [c for c in sorted(used) if c not in h.cancelled and "diverge" not in h.tags and rng.chance(1, 2)]
    return h


def module_histories():
    """an invocation whose `import` fails with a recovered Go panic inside the module's top-level code (a panicking host
    builtin, frame exhaustion), followed by invocations that import the same module again: outside the Coq model
    (it has no importer), judged by the new-VM oracle only"""
    out = []
    n = 0
    for mod, val in (("pm", 7), ("po", 8)):
        for a1 in ("RC", "RN"):
            for a2 in ("RC", "RN", "CL"):
                for again in (False, True):
                    lib = LIB_BASE
                    items = [{"k": "inv", "api": a1, "ctx": 0, "gates": [], "src": "addg(200)\nimport %s\n%s.val" % (mod, mod)}]
                    if a2 == "CL":
                        lib += "func c1() { addg(-500); import %s; return %s.val }\n" % (mod, mod)
                        items.append({"k": "inv", "api": "CL", "ctx": 1, "gates": [], "fn": "c1", "src": ""})
                    else:
                        items.append({"k": "inv", "api": a2, "ctx": 1, "gates": [], "src": "addg(-500)\nimport %s\n%s.val" % (mod, mod)})
                    if again:
                        items.append({"k": "inv", "api": "RC", "ctx": 2, "gates": [], "src": "import %s\n%s.val + 1" % (mod, mod)})
                    out.append({"id": "mp%d" % n, "g0": 0, "lib": lib, "items": items, "plain": [2] if again else []})
                    n += 1
    return out


def judge_script(h, expect, line):
    """new-VM oracle + the generator's account of the globals on one script-global history; returns (violation or None, judged)"""
    parts = [p.split("|") for p in line.split(";")] if line else []
    if len(parts) != len(h["items"]) or any(len(p) != 4 for p in parts):
        return {"why": "the harness gave no (complete) answer for this history: %r" % line[:200]}, 0
    judged = 0
    for k, ((shared, g, fresh, fg), (ev, eg)) in enumerate(zip(parts, expect)):
        if "TIMEOUT" in shared or "TIMEOUT" in fresh or "HARNESS" in fresh:
            return None, judged          # a wall-clock bound: not an observation
        judged += 1
        it = h["items"][k]
        what = ("Run of piece %d" % k if it["api"] == "RN" else "Call of %s" % it["fn"] if it["api"] == "CL"
                else "Call of the function the host kept as %s" % it["reg"])
        known = ",".join(x for x in g.split(",") if not x.endswith("=?"))
        why = None
        if shared != fresh or g != fg:
            why = "invocation %d (%s) on the reused VM gave %s (globals %s); a new VM given the same globals and definitions gives %s (globals %s)" % (
                k, what, shared, g, fresh, fg)
        elif (ev == "E" and not shared.startswith("E")) or (ev not in ("E", None) and shared != ev) or known != eg:
            why = "invocation %d (%s) on the reused VM gave %s (globals %s); the current values of the globals make it %s (globals %s)" % (
                k, what, shared, g, "an error" if ev == "E" else ev, eg)
        if why:
            return {"k": k, "shared": shared, "g_shared": g, "fresh": fresh, "g_fresh": fg, "expected": ev, "g_expected": eg, "why": why}, judged
    return None, judged


def enumerate_pairs(rng):
    """every (kind, api) followed by every (kind, api), with the first context cancelled after its run,
    inside the second run, or not at all"""
    out = []
    n = 0
    for k1 in KINDS:
        for a1 in ("RC", "RN"):
            for k2 in KINDS:
                for a2 in APIS:
                    for place in ("never", "after", "inside"):
                        h = Hist("p%d" % n, g0=1)
                        n += 1
                        e1 = kind_expr(k1, rng, 0)
                        e2 = kind_expr(k2, rng, 1)

                        def g1(hh, w, k1=k1):
                            gs = [[]] if has_gate(e1) else []
                            if k1 == "spin":
                                gs += [[], hh.cancel_events(0)]
                            return gs
                        h.inv(a1, 0, e1, g1, imp=(n % 2 == 1))
                        if place == "after" and 0 not in h.cancelled:
                            h.env_cancel(0)

                        def g2(hh, w, k2=k2, place=place):
                            gs = []
                            if has_gate(e2):
                                evs = []
                                if place == "inside" and 0 not in hh.cancelled:
                                    evs += hh.cancel_events(0)
                                gs.append(evs)
                            if k2 == "spin":
                                if place == "inside" and 0 not in hh.cancelled:
                                    gs.append(hh.cancel_events(0))
                                gs += [[], hh.cancel_events(1)]
                            return gs
                        h.inv(a2, 1, e2, g2, imp=(n % 3 == 1))
                        h.tags += [k1 + ":" + a1, k2 + ":" + a2, "place-" + place]
                        out.append(h)
    return out


WITNESSES = [
    # (name, builder) : the refutation / regression histories of props/C07.v, replayed on the implementation
    ("w_stale", lambda: _w_stale()),
    ("w_overflow", lambda: _w_overflow()),
    ("w_residue", lambda: _w_residue()),
    ("w_leak", lambda: _w_leak()),
    ("w_run_runcode_run", lambda: _w_rrr()),
    ("w_import_twice", lambda: _w_import()),
]


def _w_stale():
    h = Hist("w_stale")
    h.inv("RC", 0, ("L", 5))
    h.inv("RC", 1, ("S", ("T",), ("L", 7)), lambda hh, w: [hh.cancel_events(0)])
    return h


def _w_overflow():
    h = Hist("w_overflow")
    h.inv("RC", 0, ("L", 5))
    h.inv("CL", 1, ("F", 5))
    h.inv("CL", 2, ("F", 1100))
    h.inv("CL", 3, ("F", 5))
    return h


def _w_residue():
    h = Hist("w_residue")
    h.inv("RC", 0, ("N", 600, ("R",)))
    h.inv("CL", 1, ("N", 600, ("L", 1)))
    return h


def _w_leak():
    h = Hist("w_leak")
    h.inv("RC", 0, ("L", 5))
    for _ in range(1100):
        h.inv("CL", 0, ("B", ("L", 1), ("R",)))
    h.inv("CL", 0, ("L", 7))
    return h


def _w_rrr():
    h = Hist("w_run_runcode_run")
    h.inv("RN", 0, ("L", 5))
    h.inv("RC", 0, ("N", 3, ("L", 6)))
    h.inv("RN", 0, ("L", 7))
    return h


def _w_import():
    h = Hist("w_import_twice")
    h.inv("RC", 0, ("L", 5), imp=True)
    h.inv("RC", 0, ("L", 6), imp=True)
    h.inv("CL", 0, ("L", 7), imp=True)
    return h


# ------------------------------------------------------------------ running both sides

def run_sharded(exe, lines, work, tag, args=()):
    n = max(1, min(C.NCPU, len(lines) // 40 + 1))
    shards = [lines[i::n] for i in range(n)]
    files = []
    for i, sh in enumerate(shards):
        p = os.path.join(work, "%s_in_%d" % (tag, i))
        with open(p, "w") as f:
            f.write("\n".join(sh) + "\n")
        files.append(p)

    def one(p):
        with open(p, "rb") as fin:
            r = subprocess.run([exe] + list(args), stdin=fin, stdout=subprocess.PIPE, stderr=subprocess.PIPE, timeout=1500)
        return r.returncode, r.stdout.decode("utf-8", "replace"), r.stderr.decode("utf-8", "replace")

    res = {}
    errs = []
    with ThreadPoolExecutor(max_workers=n) as ex:
        for rc, out, err in ex.map(one, files):
            if rc != 0:
                errs.append(err[-1500:])
            for line in out.splitlines():
                hid, _, rest = line.partition("\t")
                res[hid] = rest
    return res, errs


def load_known_c():
    out = []
    for name in ("known_findings.c.jsonl", "known_findings.jsonl"):
        p = os.path.join(C.VERIF, name)
        if os.path.exists(p):
            for line in open(p):
                line = line.strip()
                if line and not line.startswith("#"):
                    j = json.loads(line)
                    if j.get("property") == PROP and not j.get("fixed"):
                        out.append(j)
            if out or name == "known_findings.c.jsonl":
                pass
    return out


def known_class(h, k):
    """no known finding is left for C07: every difference from a new VM is a violation"""
    return None


def run(res):
    tier = res.tier
    cov = res.coverage
    obs, err = C.go_build("c07obs")
    if not obs:
        res.violation({"property": PROP, "kind": "harness-build-failed", "stage": "go build c07obs", "log": err[-3000:]},
                      nofail=True, tag="build")
        return
    proved = C.prove(res, PROP)
    model, err = C.build_extracted("vmrun", "ExtractVmRun.v", "vmrun_driver.ml")
    if not model:
        res.violation({"property": PROP, "kind": "model-build-failed", "stage": "extraction", "log": err[-3000:],
                       "broken": getattr(res, "broken", None)}, nofail=True, tag="extract")
        return
    os.makedirs(C.WORK, exist_ok=True)
    work = tempfile.mkdtemp(prefix="c07-", dir=C.WORK)
    try:
        _body(res, tier, obs, model, work, proved)
    finally:
        shutil.rmtree(work, ignore_errors=True)


def _body(res, tier, obs, model, work, proved):
    cov = res.coverage
    rng = C.Rng(res.seed)
    hs = []
    for name, mk in WITNESSES:
        hs.append(mk())
    hs += enumerate_pairs(rng)
    nrand = {3: 900, 4: 900} if tier == "quick" else {3: 15000, 4: 25000, 5: 30000, 6: 40000}
    n = 0
    for length, cnt in sorted(nrand.items()):
        for _ in range(cnt):
            hs.append(gen_history("r%d" % n, rng, length))
            n += 1
    by_id = {h.id: h for h in hs}
    mlines = [h.model_line() for h in hs]
    ilines = [json.dumps(h.impl_json()) for h in hs]
    C.log("C07: %d histories" % len(hs))
    with ThreadPoolExecutor(max_workers=2) as ex:
        fi = ex.submit(run_sharded, obs, ilines, work, "impl")
        fm = ex.submit(run_sharded, model, mlines, work, "model", ("current",))
        impl, ierrs = fi.result()
        mod, merrs = fm.result()
    # observations that contain a wall-clock timeout depend on the load of the machine: such histories are run again,
    # one at a time, and the second observation is the one that is judged
    redo = [h for h in hs if "TIMEOUT" in impl.get(h.id, "")]
    if redo and not ierrs:
        C.log("C07: %d histories hit a wall-clock bound; re-running them one at a time" % len(redo))
        for h in redo[:200]:
            rc2, o2, e2 = C.run([obs], input=(json.dumps(h.impl_json()) + "\n").encode(), timeout=300)
            for line in o2.splitlines():
                hid, _, rest = line.partition("\t")
                if hid == h.id:
                    impl[hid] = rest
        cov["rerun_after_timeout"] = len(redo)
    # histories with importer modules: oracle only
    mhs = module_histories()
    mimpl, merrs2 = run_sharded(obs, [json.dumps(h) for h in mhs], work, "mods")
    module_viol = []
    module_evals = 0
    for h in mhs:
        line = mimpl.get(h["id"], "")
        parts = [p.split("|") for p in line.split(";")] if line else []
        if len(parts) != len(h["items"]) or any(len(p) != 4 for p in parts):
            module_viol.append({"history": h, "why": "the harness gave no (complete) answer for this history: %r" % line[:200]})
            continue
        for k, (shared, g, fresh, fg) in enumerate(parts):
            module_evals += 1
            if "TIMEOUT" in shared or "TIMEOUT" in fresh:
                continue
            if shared != fresh or g != fg:
                module_viol.append({"history": h, "k": k, "shared": shared, "g_shared": g, "fresh": fresh, "g_fresh": fg,
                                    "why": "invocation %d on the reused VM gave %s (global %s); a new VM gives %s (global %s)" % (k, shared, g, fresh, fg)})
                break
    cov["module_histories"] = {"histories": len(mhs), "invocations": module_evals}
    # histories over script-level globals (REPL protocol Run + Call): code objects of every kind loaded by an earlier
    # invocation must see the current globals; judged by the new-VM oracle and by the generator's own account of the globals
    nscript = 700 if tier == "quick" else 30000
    shs = [c07script.gen_history("g%d" % i, rng) for i in range(nscript)]
    simpl, serrs = run_sharded(obs, [json.dumps(h[0]) for h in shs], work, "script")
    redo = [h for h in shs if "TIMEOUT" in simpl.get(h[0]["id"], "")]
    for h in redo[:100]:
        rc2, o2, e2 = C.run([obs], input=(json.dumps(h[0]) + "\n").encode(), timeout=300)
        for line in o2.splitlines():
            hid, _, rest = line.partition("\t")
            if hid == h[0]["id"]:
                simpl[hid] = rest
    script_evals = 0
    script_reuse = set()
    for h, expect, tags in shs:
        bad, judged = judge_script(h, expect, simpl.get(h["id"], ""))
        script_evals += judged
        script_reuse.update(t for t in tags if t.startswith("reuse"))
        if bad:
            bad["history"] = h
            module_viol.append(bad)
    if serrs:
        res.violation({"property": PROP, "kind": "harness-run-failed", "stage": "script-global histories", "impl_errors": serrs[:3]}, nofail=True, tag="run")
        return
    cov["script_global_histories"] = {"histories": len(shs), "invocations": script_evals, "rerun_after_timeout": len(redo),
                                      "kinds_of_code_object_reused_after_an_earlier_invocation": sorted(script_reuse)}
    # histories over file modules behind risor's own importers (one importer shared by all invocations and by up to two VMs):
    # an invocation ends inside a module's top-level code or inside the importer's load of it (error, panic, frame
    # exhaustion, cancellation, expiry), later invocations import the module again
    nmod = 400 if tier == "quick" else 12000
    ntimed = 12 if tier == "quick" else 150
    mods = [c07mod.gen_history("m%d" % i, rng) for i in range(nmod)] + [c07mod.gen_timed("t%d" % i, rng) for i in range(ntimed)]
    oimpl, oerrs = run_sharded(obs, [json.dumps(h[0]) for h in mods], work, "modimp")
    if oerrs:
        res.violation({"property": PROP, "kind": "harness-run-failed", "stage": "module histories", "impl_errors": oerrs[:3]}, nofail=True, tag="run")
        return
    mod_evals = 0
    mod_tags = set()
    for h, expect, tags in mods:
        bad, judged = c07mod.judge(h, expect, oimpl.get(h["id"], ""))
        mod_evals += judged
        mod_tags.update(tags)
        if bad:
            bad["history"] = h
            module_viol.append(bad)
    cov["importer_module_histories"] = {"histories": len(mods), "invocations_judged": mod_evals, "situations": sorted(mod_tags)}
    if ierrs or merrs or len(impl) != len(hs) or len(mod) != len(hs):
        res.violation({"property": PROP, "kind": "harness-run-failed", "impl_errors": ierrs[:3], "model_errors": merrs[:3],
                       "impl_lines": len(impl), "model_lines": len(mod), "expected": len(hs)}, nofail=True, tag="run")
        return

    evals = 0
    oracle_viol = list(module_viol)
    known_hits = {}
    corr_diffs = []
    nontrivial = set()
    unpredicted = 0
    skipped = 0
    settle_to = 0
    outcome_hist = {}
    samples = []
    for h in hs:
        if impl[h.id].startswith("SKIPPED"):
            skipped += 1
            continue
        iparts = [p.split("|") for p in impl[h.id].split(";")] if impl[h.id] else []
        mparts = [p.split("|") for p in mod[h.id].split(";")] if mod[h.id] else []
        invs = [it for it in h.items if it[0] == "inv"]
        wild = False
        abnormal_before = False
        for k, ip in enumerate(iparts):
            if len(ip) != 4:
                corr_diffs.append({"history": h.id, "k": k, "impl": ip, "why": "malformed harness output"})
                break
            shared, g, fresh, fg = ip
            evals += 1
            if "SETTLE-TIMEOUT" in shared or "SETTLE-TIMEOUT" in fresh:
                settle_to += 1
            oc = "V" if shared.startswith("V ") else shared.split("(")[0]
            outcome_hist[oc] = outcome_hist.get(oc, 0) + 1
            # oracle: the property itself, on the implementation's observations only
            if shared != fresh or g != fg:
                cls = known_class(h, k)
                v = {"history": h.impl_json(), "model_line": h.model_line(), "k": k, "shared": shared, "g_shared": g,
                     "fresh": fresh, "g_fresh": fg,
                     "why": "invocation %d on the reused VM gave %s (global %s); a new VM gives %s (global %s)" % (k, shared, g, fresh, fg)}
                if cls:
                    known_hits.setdefault(cls, []).append(v)
                else:
                    oracle_viol.append(v)
            # correspondence with the model, as far as the model predicts
            if not wild:
                if k >= len(mparts):
                    corr_diffs.append({"history": h.id, "k": k, "impl": ip, "model": None, "model_line": h.model_line()})
                    break
                mo, mg = mparts[k]
                if mo != shared or mg != g:
                    corr_diffs.append({"history": h.id, "k": k, "impl": [shared, g], "model": [mo, mg],
                                       "model_line": h.model_line(), "impl_json": h.impl_json()})
                    break
            if k >= 1 and (abnormal_before or "stale-inside" in h.tags or "cancel-between" in h.tags or "place-inside" in h.tags
                           or "place-after" in h.tags or "stale-inside-spin" in h.tags):
                nontrivial.add((tuple(h.tags), k))
            if not shared.startswith("V"):
                abnormal_before = True
        if not wild and len(mparts) != len(iparts) and not corr_diffs:
            corr_diffs.append({"history": h.id, "impl_n": len(iparts), "model_n": len(mparts), "model_line": h.model_line()})
        if len(samples) < 6 and h.id.startswith("r") and len(invs) >= 3:
            samples.append({"history": h.impl_json(), "model_line": h.model_line(), "impl": impl[h.id], "model": mod[h.id]})

    # regression witnesses: what the model of the code BEFORE each repair predicts, for the evidence
    wl = [by_id[n].model_line() for n, _ in WITNESSES]
    pre = {}
    for cfgname in ("pinned", "nopush", "nodrop", "norunip", "nomods"):
        r, e = run_sharded(model, wl, work, "w_" + cfgname, (cfgname,))
        pre[cfgname] = {k: _short(v) for k, v in r.items()}
    cov["evaluations"] = evals + cov.get("script_global_histories", {}).get("invocations", 0) + mod_evals
    cov["distinct_nontrivial"] = len(nontrivial) + len(mod_tags)
    cov["rule"] = ("histories on ONE shared VM through vm.New/NewEmpty, RunCode, Run (REPL protocol), Call: the 6 witness histories of "
                   "props/C07.v; every (kind,api) x (kind,api) pair x {first context never cancelled, cancelled after its run, "
                   "cancelled inside the second run} (%d histories); seeded random histories of length 3..%d with kinds "
                   "{normal, gated, error at depth d with p operands pending, host panic at depth d, frame exhaustion, stack "
                   "exhaustion, spin until cancelled} with or without a leading `import math` of a module global, contexts shared or not, earlier contexts cancelled between runs / inside a "
                   "later run's host builtin / while a later run spins, own context cancelled before or during the run. Each "
                   "invocation is also run on a VM created for it (same global, own-context events only) = oracle; the extracted "
                   "model predicts outcome and global of every invocation. Script-global histories (REPL protocol Run + Call): top-level functions, literals nested "
                   "1-3 deep in factories, captured-variable closures, callbacks, deferred / named inner / recursive functions, functions held in maps "
                   "and lists, wide functions (> 8 locals, with closures, ending by an error) and closure factories called at use time in frame slots of every size, "
                   "run directly, through try, on threads, one frame deeper in small and wide frames, by the host's Call and - for factory products the host kept - by Call on the kept function; "
                   "handles an earlier invocation made under ITS context and left in a global (finished threads with a value / an error / a closure made on the thread, "
                   "buffered channels filled by main code or a thread, list / int / string / map iterators, bound methods) used by later invocations after that context "
                   "was cancelled by the host (right after the invocation, at the end, or by a later piece through the host builtin cancel_ctx(i) just before the use); all these "
                   "read and write int globals that other invocations assign, "
                   "declare or leave half-changed by a failing piece; each invocation is repeated on a new VM that runs everything earlier as one "
                   "program in one Run, and its result and the globals must also equal the generator's own account. Non-trivial = distinct (tag sequence, position) with an "
                   "earlier abnormal end or a stale cancellation in play. Importer-module histories: modules ma/mb/mc (random bodies, mb and mc may import others at top level) "
                   "served by importer.NewLocalImporter (directory) or importer.NewFSImporter (in-memory fs whose Open is a host hook), ONE importer for all invocations "
                   "of a history and for its 1-2 VMs; the host's fuse ends an invocation at a chosen tick(module, point) call of a module's top-level code (0-5 frames deep: error value, "
                   "Go panic, frame exhaustion, cancel / expiry of the invocation's context with the watcher waited for) or at the importer's read of a module file (cancel, expiry, "
                   "read error), or a real deadline falls inside the load of a 12000-statement module (that invocation is not judged); later Run / Call / RunCode invocations on the "
                   "same or the other VM import the modules again and must equal a new VM behind a new importer and the generator's own account." % (len(enumerate_pairs(C.Rng(1))), max(nrand)))
    cov["samples"] = samples
    cov["correspondence"] = {"invocations": evals, "differences": len(corr_diffs),                              "settle_timeouts": settle_to,
                             "histories_skipped_after_a_hang": skipped}
    cov["input_distribution"] = {"histories": len(hs), "outcomes_on_shared_vm": outcome_hist}
    cov["witness_predictions_before_repairs"] = pre
    cov["witness_on_implementation"] = {n: _short(impl[n]) for n, _ in WITNESSES}
    res.assumptions += [
        "a watcher goroutine runs as soon as its context is cancelled; the harness waits for it (goroutine count settles), so the schedules "
        "realised are those in which every cancel is followed by its watchers' stores; the theorem covers all placements",
        "programs are modelled by expression trees whose stack use approximates the bytecode's up to a constant per call; the generator "
        "stays >= 70 frames/slots away from the 1024 bounds except in the exhaustion kinds",
        "Run() is exercised with the REPL's protocol of cmd/risor/repl (one compiler, code appended, SetIP after an error); after a RunCode has dropped the main code's script-level globals the pieces given to Run define everything they use",
        "script-level globals are not carried between invocations by RunCode; the 'current values of global variables' are host globals",
    ]
    known = load_known_c()
    for cls, vs in known_hits.items():
        match = [kf for kf in known if kf.get("id") == cls]
        if match:
            res.known_finding("%s (%d invocations, e.g. history %s invocation %d: %s vs %s)" % (
                match[0]["what"], len(vs), vs[0]["history"]["id"], vs[0]["k"], vs[0]["shared"], vs[0]["fresh"]))
        else:
            oracle_viol += vs
    for v in oracle_viol[:10]:
        v.update({"property": PROP, "kind": "oracle-violation"})
        res.violation(v)
    if oracle_viol:
        return
    if proved and tier == "thorough":
        if not C.coqchk(res, PROP):
            proved = False
            res.broken = {"log_tail": res.coverage.get("coqchk", {}).get("tail", ""), "errors": []}
    if not proved:
        res.violation({"property": PROP, "kind": "proof-obligation-broken", "theorem_file": "coq/props/C07.v",
                       "broken": res.broken, "search": "%d invocations in %d histories: no failing input" % (evals, len(hs))},
                      nofail=True, tag="proof")
        return
    if corr_diffs:
        res.violation({"property": PROP, "kind": "correspondence-broken", "first_difference": corr_diffs[0],
                       "differences": corr_diffs[:10], "count": len(corr_diffs),
                       "search": "oracle (shared VM vs new VM) evaluated on all %d invocations: no failing input" % evals},
                      nofail=True, tag="corr")
        return
    if settle_to:
        res.notes.append("%d invocations hit the goroutine-settling timeout" % settle_to)


def _short(line):
    parts = line.split(";")
    if len(parts) > 8:
        return ";".join(parts[:3]) + ";...(%d more)...;" % (len(parts) - 5) + ";".join(parts[-2:])
    return line


def replay(data):
    print(json.dumps({k: v for k, v in data.items() if k != "history"}, indent=1)[:3000])
    obs, err = C.go_build("c07obs")
    if not obs:
        print(err)
        return 2
    h = data.get("history") or (data.get("first_difference") or {}).get("impl_json")
    if not h:
        print("no history in the replay file")
        return 0
    if h.get("mode") == "mod":
        for name, src in sorted(h["mods"].items()):
            print("--- module %s (%s importer)\n%s" % (name, h["imp"], src[:1500]))
        for k, it in enumerate(h["items"]):
            print("--- invocation %d: VM %d %s ctx=%s fuse=%s: %s" % (k, it["vm"], it["api"], it["ctx"], it["fuse"], it.get("fn") or it.get("src")))
        rc, o, e = C.run([obs], input=(json.dumps(h) + "\n").encode(), timeout=120)
        line = o.strip().split("\t")[-1]
        print("implementation now (reused VM|new VM per invocation): " + line)
        bad = [p for p in line.split(";") if len(p.split("|")) == 2 and p.split("|")[1] != "-" and p.split("|")[0] != p.split("|")[1]]
        print("invocations that differ from a new VM behind a new importer: %d" % len(bad))
        return 1 if bad else 0
    if h.get("mode") == "script":
        for k, it in enumerate(h["items"]):
            print("--- invocation %d: %s" % (k, "Run of the piece" if it["api"] == "RN" else "Call %s%s" % (it.get("fn") or it.get("reg"), tuple(it.get("args") or ()))))
            if it["api"] == "RN":
                print(it["src"])
    rc, o, e = C.run([obs], input=(json.dumps(h) + "\n").encode(), timeout=120)
    print("implementation now: " + o.strip())
    bad = [p for p in o.strip().split("\t")[-1].split(";") if len(p.split("|")) == 4 and (p.split("|")[0] != p.split("|")[2] or p.split("|")[1] != p.split("|")[3])]
    print("invocations that differ from a new VM: %d" % len(bad))
    return 1 if bad else 0
