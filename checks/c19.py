"""C19 - standard-library wrappers agree with Go, and encoders invert their decoders."""
import base64
import binascii
import gzip
import json
import os
import re
import struct
import subprocess
import urllib.parse
import zlib
from concurrent.futures import ThreadPoolExecutor
from fractions import Fraction

from lib import common as C

PROP = "C19"
LEVEL = "proof"

BYTE_CODECS = ["base64", "base32", "hex", "gzip", "urlquery"]


# ------------------------------------------------------------------ plumbing

def repo_dir():
    """The risor tree the harness is built against: the replace line of harness/go.mod."""
    try:
        for line in open(os.path.join(C.HARNESS, "go.mod")):
            m = re.match(r"\s*replace\s+github.com/risor-io/risor\s*=>\s*(\S+)", line)
            if m:
                return m.group(1)
    except OSError:
        pass
    return C.REPO


def load_known():
    """Known (not yet repaired) findings of this property, from known_findings.jsonl."""
    return C.load_known(PROP)


def build_model(gen_text):
    """C.build_extracted caches on the model .vo files only; the extracted table comes from coq/gen, so the
    cache is invalidated here when the generated table changed."""
    d = os.path.join(C.BUILD, "ocaml", "c19")
    os.makedirs(d, exist_ok=True)
    import hashlib
    key = hashlib.sha256(gen_text.encode()).hexdigest()
    mark = os.path.join(d, "gen.key")
    old = open(mark).read() if os.path.exists(mark) else ""
    if old != key:
        try:
            os.remove(os.path.join(d, "stamp"))
        except OSError:
            pass
    exe, err = C.build_extracted("c19", "ExtractC19.v", "c19_driver.ml")
    if exe:
        open(mark, "w").write(key)
    return exe, err


# ------------------------------------------------------------------ value tokens

def parse_value(toks, pos):
    t = toks[pos]
    pos += 1
    tag, _, rest = t.partition(":")
    if tag == "n":
        return ("n",), pos
    if tag in ("T", "F"):
        return ("B", tag == "T"), pos
    if tag == "i":
        return ("i", int(rest)), pos
    if tag == "y":
        return ("y", int(rest)), pos
    if tag == "f":
        return ("f", rest), pos
    if tag in ("s", "b", "U", "r", "e", "P"):
        return (tag, bytes.fromhex(rest)), pos
    if tag == "l":
        items = []
        for _ in range(int(rest)):
            v, pos = parse_value(toks, pos)
            items.append(v)
        return ("l", items), pos
    if tag == "m":
        items = []
        for _ in range(int(rest)):
            k = bytes.fromhex(toks[pos].partition(":")[2])
            v, pos = parse_value(toks, pos + 1)
            items.append((k, v))
        return ("m", items), pos
    return ("o", rest), pos


def parse_values(s):
    toks = s.split()
    out = []
    pos = 0
    while pos < len(toks):
        v, pos = parse_value(toks, pos)
        out.append(v)
    return out


def parse_one(s):
    try:
        vs = parse_values(s)
    except (ValueError, IndexError):
        return ("o", "unparsable")
    return vs[0] if len(vs) == 1 else ("o", "not-one-value")


def float_fraction(bits):
    """exact value of a float token; None for nan/inf"""
    if bits == "nan":
        return None
    f = struct.unpack(">d", bytes.fromhex(bits))[0]
    if f != f or f in (float("inf"), float("-inf")):
        return None
    return Fraction(f)


def bits_of(f):
    if f != f:
        return "nan"
    return struct.pack(">d", f).hex()


def veq(a, b):
    """Equality used for codecs: numbers as exact rationals, strings/bytes by content, containers structurally."""
    ka, kb = a[0], b[0]
    num = ("i", "y", "f")
    if ka in num and kb in num:
        if ka == "f" and kb == "f":
            fa, fb = float_fraction(a[1]), float_fraction(b[1])
            if fa is None or fb is None:
                return a[1] == b[1]
            return fa == fb
        xa = float_fraction(a[1]) if ka == "f" else Fraction(a[1])
        xb = float_fraction(b[1]) if kb == "f" else Fraction(b[1])
        return xa is not None and xb is not None and xa == xb
    text = ("s", "b", "U")
    if ka in text and kb in text:
        return a[1] == b[1]
    if ka != kb:
        return False
    if ka == "n":
        return True
    if ka == "B":
        return a[1] == b[1]
    if ka == "l":
        return len(a[1]) == len(b[1]) and all(veq(x, y) for x, y in zip(a[1], b[1]))
    if ka == "m":
        da, db = sorted(a[1]), sorted(b[1])
        return len(da) == len(db) and all(x[0] == y[0] and veq(x[1], y[1]) for x, y in zip(da, db))
    return False


def walk(v):
    yield v
    if v[0] == "l":
        for x in v[1]:
            yield from walk(x)
    elif v[0] == "m":
        for k, x in v[1]:
            yield ("s", k)
            yield from walk(x)


def valid_utf8(b):
    try:
        b.decode("utf-8")
        return True
    except UnicodeDecodeError:
        return False


def json_encodable(v):
    """the values the JSON part of the property quantifies over: nil, bool, numbers (finite), strings, byte slices,
    lists, maps of those"""
    for x in walk(v):
        if x[0] in ("n", "B", "i", "y", "s", "b", "l", "m"):
            continue
        if x[0] == "f" and float_fraction(x[1]) is not None:
            continue
        return False
    return True


# ------------------------------------------------------------------ known-finding classes (decidable on the case)

def class_of_wrapper(fname, args, direct):
    """Known classes for a wrapper case; args are parsed values (receiver first)."""
    return None   # every wrapper class found so far has been repaired (see the fixed lines of known_findings.jsonl)


def classes_of_json(v):
    out = set()
    for x in walk(v):
        if x[0] == "i" and abs(x[1]) > 2 ** 53:
            out.add("json-int-above-2^53")
        if x[0] == "s" and not valid_utf8(x[1]):
            out.add("json-invalid-utf8")
        if x[0] == "b":
            out.add("json-byte-slice")
    return out


# ------------------------------------------------------------------ generators

STR_POOL = [b"", b"a", b"ab", b"abc", b"abcabc", b"aaa", b" ", b"  a b  ", b"\t\n", b"a\nb", "é".encode(), "ée".encode(),
            "世界".encode(), "😀".encode(), "a😀b".encode(), "a\ufffdb".encode(), "\ufffd".encode(), b"ab\xffcd", b"\xff", b"\xc3", b"a\xffb", b"\xed\xa0\x80", b"\x00", b"a\x00b",
            b"A", b"ABC", "İ".encode(), "ß".encode(), "ǅ".encode(), "ſ".encode(), "K".encode(), "ς".encode(), b",", b"a,b,,c",
            b"/", b"../a", b"/a/b/../c", b"a/b.txt", b".", b"..", b"a:b", b"/a:/b", b"a//b/", b".bashrc", b"a.tar.gz",
            b"[a-z]*", b"a+", b"(", b"*", b"?", b"[", b"\\", b"[]a]", b"[^a]", b"a-c", b"%41", b"%zz", b"+", b"a b+c",
            b"12", b"-12", b"+12", b"0x1f", b"1e3", b"1.5", b".5", b"true", b"TRUE", b"1", b"t", b"F", b"NaN", b"inf", b"-Inf",
            b"9223372036854775807", b"9223372036854775808", b"-9223372036854775808", b"1_000", b" 12", b"0b101", b"0o17",
            b"012", b"1e400", b"1e-400", b"0x1p-2", b"z", b"Zz", b"7f", b"127", b"128", b"-129", b"$1", b"${1}x", b"$"]
INT_POOL = [0, 1, -1, 2, 3, 5, 8, 10, 16, 36, 37, 64, 63, 65, 32, 255, 256, 100, -5, 2 ** 31, 2 ** 32, 2 ** 53, 2 ** 53 + 1,
            -(2 ** 53 + 1), 2 ** 62, 2 ** 63 - 1, -(2 ** 63)]
REPEAT_COUNTS = [0, 1, 2, 3, 5, 7, 0, 1, 2, 3, -1, -5, -(2 ** 63), 2 ** 63 - 1, 2 ** 62]
FLOAT_POOL = [0.0, -0.0, 1.0, -1.0, 0.5, 1.5, 2.5, -2.5, 3.5, 1e300, -1e300, 5e-324, 1.7976931348623157e308, float("inf"),
              float("-inf"), float("nan"), 3.141592653589793, 2.0 ** 53, 2.0 ** 53 + 2, 1e-10, 100.0, 308.0, 309.0, -324.0,
              -323.0, 0.1, 1e22, 4.0, -4.0, 1e19, -1e19, 2.0 ** 63, 0.49999999999999994, 4503599627370497.5]
PATTERNS = [b"a+", b"[a-z]+", b"(a)(b)?", b"", b"\\d+", "é".encode(), b".", b"^", b"a|b", b"(?i)abc", b"\\s*", b"x*", b",", b"(\\w)(\\w)"]
WRONG = ["n", "T", "i:5", "f:3ff8000000000000", "l:0", "l:1 i:1", "m:0", "o:set", "o:time", "o:builtin", "y:65", "s:61",
         "b:61", "U:61", "l:1 s:61", "l:2 s:61 i:1"]


def gen_bytes(rng, ctx):
    first = ctx.get("first")
    r = rng.below(100)
    if first is not None and len(first) > 0 and r < 45:
        i = rng.below(len(first))
        j = i + 1 + rng.below(min(4, len(first) - i))
        return first[i:j]
    if r < 52:
        return b""
    if r < 80:
        return rng.choice(STR_POOL)
    k = 1 + rng.below(4)
    out = b""
    for _ in range(k):
        if rng.chance(3, 4):
            out += rng.choice(STR_POOL)
        else:
            out += bytes(rng.below(256) for _ in range(1 + rng.below(3)))
    return out[:64]


def text_tok(rng, b, strict=None):
    if strict:
        return strict + ":" + b.hex()
    r = rng.below(100)
    tag = "s" if r < 70 else ("b" if r < 85 else "U")
    return tag + ":" + b.hex()


def in_base(n, base):
    digits = "0123456789abcdefghijklmnopqrstuvwxyz"
    if n == 0:
        return "0"
    out = ""
    m = abs(n)
    while m:
        out = digits[m % base] + out
        m //= base
    return ("-" if n < 0 else "") + out


# integers next to the limits of the bit sizes a parser may be asked for
WIDTH_EDGES = [w for b in (7, 8, 15, 16, 31, 32, 63, 64) for w in (2 ** b - 1, 2 ** b, -(2 ** b), -(2 ** b) - 1)]


def gen_number_text(rng):
    r = rng.below(14)
    if r >= 10:
        # texts whose reading depends on the base: base prefixes with digits of that base, leading zeros, digit separators,
        # numerals written in bases 2..36, values at the limits of the integer widths
        k = rng.below(6)
        n = rng.choice(WIDTH_EDGES) if rng.chance(1, 3) else (rng.below(1 << (1 + rng.below(40))) * (1 if rng.chance(3, 4) else -1))
        if k == 0:
            pre, base = rng.choice([("0x", 16), ("0X", 16), ("0b", 2), ("0B", 2), ("0o", 8), ("0O", 8), ("0", 8)])
            t = ("-" if n < 0 else rng.choice(["", "", "+"])) + pre + in_base(abs(n), base)
        elif k == 1:
            t = ("-" if n < 0 else "") + "0" * (1 + rng.below(3)) + str(abs(n))
        elif k == 2:
            body = in_base(abs(n), rng.choice([2, 8, 10, 16]))
            cut = 1 + rng.below(max(1, len(body) - 1))
            t = rng.choice(["", "0x", "0b", "0o", "0"]) + body[:cut] + "_" + body[cut:]
        elif k == 3:
            t = in_base(n, 2 + rng.below(35))
        elif k == 4:
            t = in_base(n, rng.choice([2, 8, 16, 36])).upper()
        else:
            t = str(n)
        return t.encode()
    if r < 3:
        t = str(rng.choice(INT_POOL) if rng.chance(1, 2) else rng.next() - 2 ** 63)
    elif r < 6:
        bits = rng.next()
        f = struct.unpack(">d", struct.pack(">Q", bits))[0]
        t = repr(f) if f == f else "NaN"
    elif r < 7:
        t = rng.choice(["0.1", "3.14159", "1e300", "16777217", "1e39", "-2.5e-45", "0.30000000000000004", "1e23", "5e-324",
                        "2.2250738585072011e-308", "179769313486231580793728971405303415079934132710037826936173778980444968292764750946649017977587207096330286416692887910946555547851940402630657488671505820681908902000708383676273854845817711531764475730270069855571366959622842914819860834936475292719074168444365510704342711559699508093042880177904174497791.9999999999999999999999999999999999999999999999999999999999999999999999"])
    elif r < 8:
        t = rng.choice(["0x", "0X", "0b", "0o", "-0x", "+0b"]) + "%x" % rng.below(1 << 20)
    elif r < 9:
        t = "%d_%03d" % (rng.below(1000), rng.below(1000))
    else:
        t = rng.choice(["true", "false", "T", "f", "True", "FALSE", "0", "1", "yes", "tRUE"])
    if rng.chance(1, 12):
        t = rng.choice([" ", "+", "-", "\t"]) + t
    return t.encode()


def gen_arg(rng, fname, kind, ctx):
    if kind == "str" and fname.startswith("strconv.") and rng.chance(2, 3):
        return text_tok(rng, gen_number_text(rng))
    if kind in ("str", "bytes"):
        b = gen_bytes(rng, ctx)
        ctx.setdefault("first", b)
        return text_tok(rng, b)
    if kind == "recv-str":
        b = gen_bytes(rng, ctx)
        ctx.setdefault("first", b)
        return "s:" + b.hex()
    if kind in ("recv-bs", "bsonly"):
        b = gen_bytes(rng, ctx)
        ctx.setdefault("first", b)
        return "b:" + b.hex()
    if kind == "recv-re":
        ctx.setdefault("first", rng.choice([b"aab abc", b"a1b22", "é,a".encode(), b"xyz", b""]))
        return "r:" + rng.choice(PATTERNS).hex()
    if kind == "int":
        if fname.endswith(".repeat"):
            return "i:%d" % rng.choice(REPEAT_COUNTS)
        if rng.chance(1, 12):
            return "y:%d" % rng.below(256)
        return "i:%d" % rng.choice(INT_POOL)
    if kind in ("float", "num", "fonly"):
        r = rng.below(100)
        if kind == "float" and r < 8:
            return "y:%d" % rng.below(256)
        if r < (30 if kind != "fonly" else 12):
            return "i:%d" % rng.choice(INT_POOL)
        if rng.chance(1, 6):
            bits = rng.next()
            return "f:%016x" % bits if (bits >> 52) & 0x7ff != 0x7ff or bits & ((1 << 52) - 1) == 0 else "f:nan"
        return "f:" + bits_of(rng.choice(FLOAT_POOL))
    if kind == "bool":
        return rng.choice(["T", "F"])
    if kind == "strs":
        k = rng.below(5)
        return " ".join(["l:%d" % k] + [text_tok(rng, gen_bytes(rng, {})) for _ in range(k)])
    if kind == "rune1":
        r = rng.below(100)
        if r < 55:
            first = ctx.get("first") or b"a"
            asc = [c for c in first if c < 0x80] or [97]
            b = bytes([rng.choice(asc) if rng.chance(1, 2) else 32 + rng.below(95)])
        elif r < 75:
            b = rng.choice(["é", "世", "😀", "ß", "\u0080", "\ufffd", "\ufffd", "\u07ff", "\U0010ffff"]).encode()
        elif r < 85:
            b = bytes([0x80 + rng.below(0x80)])
        else:
            b = rng.choice([b"", b"ab", "éa".encode(), b"\xc3\xa9\xc3"])
        return text_tok(rng, b)
    if kind == "byte1":
        r = rng.below(100)
        if r < 80:
            first = ctx.get("first") or b"a"
            b = bytes([rng.choice(list(first)) if first and rng.chance(1, 2) else rng.below(256)])
        else:
            b = rng.choice([b"", b"ab", "é".encode()])
        return text_tok(rng, b)
    return "n"


def optional_boundaries(kind, default):
    """boundary values of one optional parameter: zero, negative, the extremes, small values, and the value the wrapper uses
    when the argument is absent (with its neighbours) - a wrapper must hand each of them to the Go function as it is"""
    if kind == "bool":
        return ["T", "F"]
    if kind == "int":
        vals = [0, 1, -1, 2, 3, 7, 8, 10, 16, 32, 36, 37, 63, 64, 65, 2 ** 31, 2 ** 63 - 1, -(2 ** 63)]
        try:
            d = int(default)
            vals += [d, d - 1, d + 1, -d]
        except (TypeError, ValueError):
            pass
        seen, out = set(), []
        for v in vals:
            if v not in seen and -(2 ** 63) <= v < 2 ** 63:
                seen.add(v)
                out.append("i:%d" % v)
        return out
    if kind in ("float", "num", "fonly"):
        return ["f:" + bits_of(x) for x in (0.0, -0.0, 1.0, -1.0, float("inf"), float("-inf"), 5e-324, 1.7976931348623157e308)] + ["f:nan", "i:0", "i:-1"]
    return []


def gen_optional_sweep(rng, specs, defaults, k):
    """every function with optional parameters, at every arity it accepts, with every boundary value of each optional parameter
    (the other arguments drawn as usual, k times): a wrapper that treats a legitimate explicit value as 'absent', clamps it, or
    shifts the optional arguments by one shows here"""
    cases = []
    for name, callee, kinds, nopt, variadic in specs:
        if not nopt or variadic:
            continue
        nreq = len(kinds) - nopt
        dflt = defaults.get(name, [])
        for n in range(nreq, len(kinds) + 1):
            ks = kinds[:n]
            if n == nreq:
                for _ in range(k):
                    ctx = {}
                    cases.append((name, [gen_arg(rng, name, kk, ctx) for kk in ks]))
                continue
            for oi in range(nreq, n):
                d = dflt[oi - nreq] if oi - nreq < len(dflt) else None
                for bv in optional_boundaries(kinds[oi], d):
                    for _ in range(k):
                        ctx = {}
                        args = [gen_arg(rng, name, kk, ctx) for kk in ks]
                        args[oi] = bv
                        # the other optional arguments: half of the time at a boundary of their own
                        for oj in range(nreq, n):
                            if oj != oi and rng.chance(1, 2):
                                dj = dflt[oj - nreq] if oj - nreq < len(dflt) else None
                                args[oj] = rng.choice(optional_boundaries(kinds[oj], dj) or [args[oj]])
                        cases.append((name, args))
    return cases


def gen_wrapper_cases(rng, specs, per_fn):
    """-> list of (fname, [arg tokens]) ; every tuple later runs through both routes"""
    cases = []
    for name, callee, kinds, nopt, variadic in specs:
        for _ in range(per_fn):
            ctx = {}
            if variadic:
                n = rng.below(5)
                ks = [kinds[0]] * n
            else:
                n = len(kinds) - (rng.below(nopt + 1) if nopt else 0)
                ks = kinds[:n]
            args = [gen_arg(rng, name, k, ctx) for k in ks]
            r = rng.below(100)
            if r < 12 and args:
                i = rng.below(len(args))
                if not (i == 0 and ks[0].startswith("recv")):
                    args[i] = rng.choice(WRONG)
            elif r < 15 and args and not ks[0].startswith("recv") and not variadic:
                args.pop()
            elif r < 15 and len(args) > 1 and not variadic:
                args.pop()
            elif r < 18 and not variadic:
                args.append(rng.choice(WRONG))
            cases.append((name, args))
    return cases


def gen_json_value(rng, depth):
    r = rng.below(100)
    if depth > 0 and r < 22:
        k = rng.below(4)
        return " ".join(["l:%d" % k] + [gen_json_value(rng, depth - 1) for _ in range(k)])
    if depth > 0 and r < 40:
        k = rng.below(4)
        keys = set()
        while len(keys) < k:
            keys.add(rng.choice([b"a", b"b", b"k1", "é".encode(), b"", b"x y", b"A", "世".encode(), b"<&>", b"\"q\""]))
        parts = ["m:%d" % k]
        for key in sorted(keys):
            parts += ["k:" + key.hex(), gen_json_value(rng, depth - 1)]
        return " ".join(parts)
    if r < 45:
        return "n"
    if r < 52:
        return rng.choice(["T", "F"])
    if r < 70:
        if rng.chance(1, 3):
            return "i:%d" % (rng.next() - 2 ** 63)
        return "i:%d" % rng.choice(INT_POOL + [2 ** 53 - 1, -(2 ** 53), 2 ** 53 + 2, 10 ** 15, 9007199254740993, 12345])
    if r < 82:
        if rng.chance(1, 3):
            bits = rng.next()
            if (bits >> 52) & 0x7ff == 0x7ff:
                bits &= ~(1 << 62)
            return "f:%016x" % bits
        return "f:" + bits_of(rng.choice(FLOAT_POOL))
    if r < 84:
        return "y:%d" % rng.below(256)
    if r < 88:
        return "b:" + gen_bytes(rng, {}).hex()
    b = gen_bytes(rng, {})
    if rng.chance(1, 4):
        b = rng.choice(["<script>&amp;", "\u2028x", "a\"b\\c", "\x01\x1f", "tab\there", "日本語", "\ufffd"]).encode()
    return "s:" + b.hex()


def gen_codec_values(rng, n):
    out = []
    for _ in range(n):
        r = rng.below(100)
        if r < 8:
            out.append(rng.choice(WRONG[:10]))
            continue
        if r < 20:
            b = bytes(rng.below(256) for _ in range(rng.below(40)))
        elif r < 26:
            b = bytes(rng.below(256) for _ in range(200 + rng.below(3000)))
        elif r < 30:
            b = rng.choice([b"a", b"abc"]) * (1 + rng.below(2000))
        else:
            b = gen_bytes(rng, {})
        out.append(text_tok(rng, b))
    return out


def mutate(rng, b, alphabet_bad):
    if not b:
        return rng.choice(alphabet_bad)
    r = rng.below(8)
    i = rng.below(len(b))
    if r == 0:
        return b[:i]
    if r == 1:
        return b[:i] + rng.choice(alphabet_bad) + b[i + 1:]
    if r == 2:
        return b[:i] + rng.choice(alphabet_bad) + b[i:]
    if r == 3:
        return b + rng.choice([b"=", b"==", b"A", b"0", b" ", b"\n"])
    if r == 4:
        return b[:i] + b"\n" + b[i:]
    if r == 5:
        return b[:-1]
    if r == 6:
        return b.swapcase()
    return b[:i] + bytes([rng.below(256)]) + b[i + 1:]


def gen_malformed(rng, codec, n):
    out = []
    for _ in range(n):
        plain = gen_bytes(rng, {}) if rng.chance(3, 4) else bytes(rng.below(256) for _ in range(rng.below(24)))
        if codec == "base64":
            b = mutate(rng, base64.b64encode(plain), [b"!", b"-", b"_", b"=", b" ", b"\xff", b"\r"])
        elif codec == "base32":
            b = mutate(rng, base64.b32encode(plain), [b"1", b"8", b"a", b"=", b" ", b"!", b"0", b"\r"])
        elif codec == "hex":
            b = mutate(rng, plain.hex().encode(), [b"g", b"G", b" ", b"x", b"\xff", b"-"])
        elif codec == "urlquery":
            b = mutate(rng, urllib.parse.quote_plus(plain).encode(), [b"%", b"%z", b"%4", b"%zz", b"+", b"%%", b"\xff"])
        else:
            g = gzip.compress(plain, mtime=0)
            r = rng.below(7)
            if r == 0:
                b = g[:rng.below(len(g))]
            elif r == 1:
                b = b"\x1f\x8c" + g[2:]
            elif r == 2:
                b = g[:-8] + bytes([g[-8] ^ 1]) + g[-7:]
            elif r == 3:
                b = g[:-4] + bytes([g[-4] ^ 1]) + g[-3:]
            elif r == 4:
                b = bytes(rng.below(256) for _ in range(rng.below(30)))
            elif r == 5:
                b = g + g
            else:
                i = 10 + rng.below(max(1, len(g) - 18))
                b = g[:i] + bytes([g[i] ^ (1 << rng.below(8))]) + g[i + 1:]
        if rng.chance(1, 10):
            b = gen_bytes(rng, {})
        out.append(text_tok(rng, b))
    return out


JSON_TEXTS = [b'{"a":[1,2,{"b":null}],"c":"x"}', b"[1, 2.5, -0, 1e3, true, false, null]", b'"str"', b"12", b"-0.0", b"{}", b"[]",
              b'{"a":1,"a":2}', b'"\\u00e9\\ud83d\\ude00"', b'"\\ud800"', b" [1] ", b"1e308", b"123456789012345678901234567890",
              b'{"k":{"k":{"k":[[[]]]}}}', b'"\\/\\b\\f\\n\\r\\t"', b"9007199254740993", b"0.1", b'{"":""}']
JSON_BAD = [b"", b" ", b"{", b"[1,2", b"[1,]", b"{'a':1}", b"NaN", b"Infinity", b"01", b"1.", b".5", b"+1", b'"a', b'"\x01"', b'"\\x41"',
            b"[1] x", b"[1][2]", b"nul", b"True", b'{"a"}', b'{"a":}', b"{1:2}", b"1e999", b"-1e999", b"[1 2]", b"\xff", b'"\\u12"',
            b"--1", b"1e", b"0x10", b"[" * 20, b"//c\n1", b'{"a":1,}']


def gen_json_texts(rng, n):
    out = []
    for _ in range(n):
        r = rng.below(10)
        if r < 4:
            b = rng.choice(JSON_TEXTS)
        elif r < 7:
            b = rng.choice(JSON_BAD)
        else:
            b = rng.choice(JSON_TEXTS)
            i = rng.below(len(b) + 1)
            m = rng.below(4)
            if m == 0:
                b = b[:i]
            elif m == 1:
                b = b[:i] + rng.choice([b",", b"}", b"]", b'"', b"\\", b"\x00", b"\xff", b"e", b"-", b":"]) + b[i:]
            elif m == 2 and b:
                j = min(i, len(b) - 1)
                b = b[:j] + b[j + 1:]
            else:
                b = b + rng.choice([b" ", b"\n", b"x", b",", b"]"])
        out.append(text_tok(rng, b))
    return out


# ------------------------------------------------------------------ independent references (Python standard library)

def b64_wellformed(b, alphabet, pad_required=True):
    s = bytes(c for c in b if c not in (13, 10))
    if len(s) % 4 != 0:
        return None
    body = s.rstrip(b"=")
    npad = len(s) - len(body)
    if npad > 2 or any(c not in alphabet for c in body):
        return None
    if npad and len(body) % 4 != 4 - npad:
        return None
    return body, npad


B64_ALPHA = set(b"ABCDEFGHIJKLMNOPQRSTUVWXYZabcdefghijklmnopqrstuvwxyz0123456789+/")
B32_ALPHA = set(b"ABCDEFGHIJKLMNOPQRSTUVWXYZ234567")


def ref_decode(codec, b):
    """-> ('ok', bytes) | ('bad',) | ('unknown',)  judged independently of Go"""
    try:
        if codec == "hex":
            if len(b) % 2 == 0 and all(c in b"0123456789abcdefABCDEF" for c in b):
                return ("ok", bytes.fromhex(b.decode()))
            return ("bad",)
        if codec == "base64":
            w = b64_wellformed(b, B64_ALPHA)
            if w is None:
                return ("bad",)
            s = bytes(c for c in b if c not in (13, 10))
            return ("ok", base64.b64decode(s, validate=True))
        if codec == "base32":
            s = bytes(c for c in b if c not in (13, 10))
            if len(s) % 8 != 0:
                return ("bad",)
            body = s.rstrip(b"=")
            npad = len(s) - len(body)
            if any(c not in B32_ALPHA for c in body) or npad not in (0, 1, 3, 4, 6):
                return ("bad",)
            return ("ok", base64.b32decode(s))
        if codec == "urlquery":
            i = 0
            out = bytearray()
            while i < len(b):
                c = b[i]
                if c == 0x25:
                    h = b[i + 1:i + 3]
                    if len(h) != 2 or any(x not in b"0123456789abcdefABCDEF" for x in h):
                        return ("bad",)
                    out.append(int(h, 16))
                    i += 3
                elif c == 0x2b:
                    out.append(32)
                    i += 1
                else:
                    out.append(c)
                    i += 1
            return ("ok", bytes(out))
        if codec == "gzip":
            if len(b) < 18:
                return ("bad",)   # header 10 + empty deflate block 2 + trailer 8 (Python accepts the empty string)
            try:
                return ("ok", gzip.decompress(b))
            except (OSError, EOFError, zlib.error, struct.error):
                return ("bad",)
    except (binascii.Error, ValueError):
        return ("bad",)
    return ("unknown",)


def ref_encode(codec, b):
    if codec == "hex":
        return b.hex().encode()
    if codec == "base64":
        return base64.b64encode(b)
    if codec == "base32":
        return base64.b32encode(b)
    if codec == "urlquery":
        return urllib.parse.quote_plus(b, safe="").encode()
    return None


class _Reject(Exception):
    pass


def ref_json(b):
    """strict JSON referee: ('ok', value) | ('bad',) | ('unknown',)"""
    try:
        t = b.decode("utf-8")
    except UnicodeDecodeError:
        return ("unknown",)
    if "\\u" in t or "\x00" in t:
        # surrogate halves and NUL are handled differently by the two libraries: not refereed
        return ("unknown",)

    def num(s):
        f = float(s)
        if f in (float("inf"), float("-inf")):
            raise _Reject()
        return ("f", bits_of(f))

    def const(s):
        raise _Reject()

    def conv(x):
        if x is None:
            return ("n",)
        if x is True or x is False:
            return ("B", x)
        if isinstance(x, tuple):
            return x
        if isinstance(x, str):
            return ("s", x.encode("utf-8", "surrogatepass"))
        if isinstance(x, list):
            return ("l", [conv(y) for y in x])
        if isinstance(x, dict):
            return ("m", sorted((k.encode("utf-8", "surrogatepass"), conv(y)) for k, y in x.items()))
        raise _Reject()

    try:
        v = json.loads(t, parse_float=num, parse_int=num, parse_constant=const)
        return ("ok", conv(v))
    except _Reject:
        return ("bad",)
    except RecursionError:
        return ("unknown",)
    except ValueError:
        return ("bad",)


# ------------------------------------------------------------------ running both sides

def run_tool(cmd, lines):
    p = subprocess.run(cmd, input=("\n".join(lines) + "\n").encode(), stdout=subprocess.PIPE, stderr=subprocess.PIPE)
    out = {}
    for line in p.stdout.decode("utf-8", "replace").splitlines():
        f = line.split("\t")
        if len(f) >= 2:
            out[f[0]] = dict(x.partition("=")[::2] for x in f[1:])
    return p.returncode, out, p.stderr.decode("utf-8", "replace")[-2000:]


def run_sharded(cmd, lines, nshards):
    if not lines:
        return 0, {}, ""
    nshards = max(1, min(nshards, (len(lines) + 199) // 200))
    shards = [lines[i::nshards] for i in range(nshards)]
    with ThreadPoolExecutor(max_workers=nshards) as ex:
        results = list(ex.map(lambda sh: run_tool(cmd, sh), shards))
    out = {}
    rc = 0
    err = ""
    for r, o, e in results:
        rc = rc or r
        out.update(o)
        err = err or e
    return rc, out, err


def native_to_value(tok):
    """what the result constructor of the wrapper is specified to produce from the Go result"""
    tag, _, r = tok.partition(":")
    if tag == "S":
        return "s:" + r
    if tag == "Y":
        return "b:" + r
    if tag == "I":
        return "i:" + r
    if tag == "D":
        return "f:" + r
    if tag == "B":
        return r
    if tag == "L":
        k, _, body = r.partition(";")
        items = body.split(",") if int(k) else []
        return " ".join(["l:%d" % len(items)] + ["s:" + x for x in items])
    if tag == "R":
        return "r:" + r
    if tag == "E":
        return "e:" + r
    return "?"


def err_class(impl, direct):
    """map an error object of the implementation to the model's small enum"""
    msg = bytes.fromhex(impl[2:])
    if msg.startswith(b"args error"):
        return "e:args"
    if msg.startswith(b"type error"):
        return "e:type"
    m = re.match(rb"encoding/hex: invalid byte: U\+([0-9A-F]{4})", msg)
    if m:
        return "e:go:01%02x" % int(m.group(1), 16)
    if msg == b"encoding/hex: odd length hex string":
        return "e:go:02"
    if direct.startswith("E:") and direct[2:] == impl[2:]:
        return "e:go:" + impl[2:]
    return "e:value"


def run(res):
    tier = res.tier
    quick = tier == "quick"
    cov = res.coverage
    repo = repo_dir()

    # 1. build
    obs, err = C.go_build("c19obs")
    gen, err2 = C.go_build("c19gen")
    if not obs or not gen:
        res.violation({"property": PROP, "kind": "harness-build-failed", "stage": "go build c19obs/c19gen",
                       "log": (err + err2)[-3000:]}, nofail=True, tag="build")
        return
    # 2. regenerate the wrapper table from the current source
    rc, gen_text, gerr = C.run([gen, repo, "coq"], timeout=120)
    rc2, gen_json, gerr2 = C.run([gen, repo, "json"], timeout=120)
    if rc != 0 or rc2 != 0 or "gen_wrappers" not in gen_text:
        res.violation({"property": PROP, "kind": "translator-failed", "stage": "c19gen", "log": (gerr + gerr2)[-3000:]},
                      nofail=True, tag="gen")
        return
    C.write_if_changed(os.path.join(C.COQ, "gen", "GenWrappers.v"), gen_text)
    records = json.loads(gen_json)
    # 3. prove
    proved = C.prove(res, PROP)
    okg, glog = C.coq_make(["gen/GenWrappers.vo"])
    model, err = build_model(gen_text) if okg else (None, glog)
    if not model:
        res.violation({"property": PROP, "kind": "model-build-failed", "stage": "extraction", "log": (err or "")[-3000:],
                       "broken": getattr(res, "broken", None)}, nofail=True, tag="extract")
        return
    if not quick and proved:
        if not C.coqchk(res, PROP):
            proved = False
            res.broken = {"log_tail": "coqchk rejected the compiled proofs: " + str(res.coverage.get("coqchk")), "errors": []}
    _body(res, quick, obs, model, records, proved, repo)


def _body(res, quick, obs, model, records, proved, repo):
    cov = res.coverage
    rng = C.Rng(res.seed)
    known = {k["id"]: k for k in load_known()}
    rc, o, e = C.run([obs, "names"])
    specs = []
    spec_defaults = {}
    for line in o.splitlines():
        f = line.split("\t")
        specs.append((f[0], f[1], f[2].split(","), int(f[3]), f[4] == "true"))
        spec_defaults[f[0]] = [d for d in f[5].split(",") if d] if len(f) > 5 else []
    spec_names = {s[0] for s in specs}
    regular = {r["name"] for r in records if r["regular"]}
    irregular = sorted(r["name"] for r in records if not r["regular"])

    per_fn = 500 if quick else 4500
    ncodec = 1200 if quick else 10000
    nmal = 800 if quick else 8000
    njson = 3000 if quick else 30000
    ntext = 2500 if quick else 20000

    # ---- cases (corpus first, then generated)
    lines = []
    meta = {}

    def add(kind, fields, info):
        cid = "%s%d" % (kind, len(meta))
        lines.append("\t".join([kind, cid] + fields))
        info["kind"] = kind
        meta[cid] = info
        return cid

    corpus = {"W": [], "C": [], "D": [], "J": [], "K": []}
    cpath = os.path.join(C.VERIF, "corpus", PROP, "cases.tsv")
    if os.path.exists(cpath):
        for line in open(cpath):
            f = line.rstrip("\n").split("\t")
            if f[0] in corpus and len(f) >= 2:
                corpus[f[0]].append(f[1:])
    wcases = [(f[0], f[1].split(" ") if len(f) > 1 and f[1] else []) for f in corpus["W"]] + gen_wrapper_cases(rng, specs, per_fn) \
        + gen_optional_sweep(rng, specs, spec_defaults, 24 if quick else 200)
    for fname, args in wcases:
        for route in ("api", "script"):
            add("W", [fname, route, " ".join(args)], {"fname": fname, "route": route, "args": args})
    for codec in BYTE_CODECS:
        for v in [f[1] for f in corpus["C"] if f[0] == codec] + gen_codec_values(rng, ncodec):
            for route in ("api", "script"):
                add("C", [codec, route, v], {"codec": codec, "route": route, "value": v})
        for v in [f[1] for f in corpus["D"] if f[0] == codec] + gen_malformed(rng, codec, nmal):
            for route in ("api", "script"):
                add("D", [codec, route, v], {"codec": codec, "route": route, "value": v})
    # histories: several values encoded before any is decoded
    for codec in BYTE_CODECS:
        pool_vals = gen_codec_values(rng, max(12, ncodec // 8))
        for k in range(0, len(pool_vals) - 2, 3):
            for route in ("api", "script"):
                add("H", [codec, route, "|".join(pool_vals[k:k + 3])], {"codec": codec, "route": route, "values": pool_vals[k:k + 3]})
    jvals = [gen_json_value(rng, 3) for _ in range(njson)]
    for v in [f[1] for f in corpus["C"] if f[0] == "json"] + jvals:
        for route in ("api", "script"):
            add("C", ["json", route, v], {"codec": "json", "route": route, "value": v})
    for v in [f[0] for f in corpus["J"]] + jvals:
        for route in ("api", "script"):
            add("J", [route, v], {"route": route, "value": v})
    for v in [f[0] for f in corpus["K"]] + gen_json_texts(rng, ntext):
        for route in ("api", "script"):
            add("K", [route, v], {"route": route, "value": v})

    C.log("C19: %d cases" % len(lines))
    rc, impl, err = run_sharded([obs, "run"], lines, C.NCPU)
    if rc != 0 or len(impl) < len(lines):
        res.violation({"property": PROP, "kind": "harness-run-failed", "stage": "c19obs run", "rc": rc, "got": len(impl),
                       "expected": len(lines), "stderr": err}, nofail=True, tag="run")
        return
    C.log("C19: implementation done")

    # ---- model input needs the direct Go results
    mlines = []
    for line in lines:
        f = line.split("\t")
        cid = f[1]
        ob = impl[cid]
        if f[0] == "W":
            if f[2] in regular:
                mlines.append("\t".join(["W", cid, f[2], f[4], ob.get("direct", "-")]))
        elif f[0] == "C":
            mlines.append("\t".join(["C", cid, f[2], f[4], ob.get("denc", "-"), ob.get("ddec", "-")]))
        elif f[0] == "D":
            mlines.append("\t".join(["D", cid, f[2], f[4], ob.get("ddec", "-")]))
        elif f[0] == "J":
            mlines.append("\t".join(["J", cid, f[3]]))
    rc, mod, err = run_sharded([model], mlines, C.NCPU)
    if rc != 0 or len(mod) < len(mlines):
        res.violation({"property": PROP, "kind": "harness-run-failed", "stage": "model_c19", "rc": rc, "got": len(mod),
                       "expected": len(mlines), "stderr": err}, nofail=True, tag="run")
        return
    C.log("C19: model done")

    # ---- judge
    oracle_viol = []
    known_hits = {}
    corr = []
    nontrivial = set()
    observations = {"wrapper_accepts_more_than_specified": 0, "string_came_back_as_byte_slice": 0, "int_came_back_as_float": 0, "out_of_domain_value_returned": 0}
    stats = {"W": 0, "C": 0, "D": 0, "J": 0, "K": 0, "H": 0, "in_kind": 0, "rejected": 0, "go_errors": 0, "model_compared": 0}
    samples = []

    def viol(cid, why, klass=None):
        m = dict(meta[cid])
        m.update({"case": cid, "why": why, "impl": impl[cid]})
        if klass and klass in known:
            known_hits.setdefault(klass, []).append(m)
        else:
            if klass:
                m["class"] = klass + " (no matching entry in the known findings)"
            oracle_viol.append(m)

    def diff(cid, what, a, b):
        if len(corr) < 60:
            m = dict(meta[cid])
            m.update({"case": cid, "what": what, "impl": a, "model": b})
            corr.append(m)

    for cid, info in meta.items():
        ob = impl[cid]
        kind = info["kind"]
        stats[kind] += 1
        mo = mod.get(cid)
        if "crashed" in ob or "harness-panic" in ob:
            viol(cid, "the case killed the worker process or the harness: %r" % ob)
            continue
        if kind == "W":
            fname, args = info["fname"], info["args"]
            pargs = parse_values(" ".join(args))
            direct, out = ob.get("direct", "-"), ob.get("impl", "?")
            klass = class_of_wrapper(fname, pargs, direct)
            if fname in spec_names:
                if direct == "-":
                    stats["rejected"] += 1
                    if out.startswith("P:"):
                        viol(cid, "panic instead of a script error on arguments outside the function's domain: %s"
                             % bytes.fromhex(out[2:]).decode("utf-8", "replace"), klass)
                    elif not out.startswith("e:"):
                        observations["out_of_domain_value_returned"] += 1
                elif direct.startswith("P:"):
                    stats["in_kind"] += 1
                    if not out.startswith("e:"):
                        viol(cid, "the Go function is not defined on these arguments (it panics: %s); the wrapper must report a "
                                  "script error, it gave %s" % (bytes.fromhex(direct[2:]).decode("utf-8", "replace"),
                                                                "a panic" if out.startswith("P:") else out), klass)
                else:
                    stats["in_kind"] += 1
                    want = native_to_value(direct)
                    if direct.startswith("E:"):
                        stats["go_errors"] += 1
                    if out != want:
                        viol(cid, "wrapper result differs from the direct call of %s: got %s, Go gives %s"
                             % (ob.get("callee"), out, want), klass)
                    else:
                        nontrivial.add((fname, " ".join(args)))
            elif out.startswith("P:"):
                viol(cid, "panic: %s" % bytes.fromhex(out[2:]).decode("utf-8", "replace"), klass)
            # correspondence with the model
            if mo is not None and "out" in mo:
                stats["model_compared"] += 1
                exp = out
                if out.startswith("e:"):
                    exp = err_class(out, direct)
                if direct == "-" and mo.get("dargs") != "-":
                    # the wrapper converts an argument the specification does not list (a wider domain):
                    # outside the property, there is no Go result to compare with
                    observations["wrapper_accepts_more_than_specified"] += 1
                else:
                    if mo.get("callee") != ob.get("callee"):
                        diff(cid, "callee", ob.get("callee"), mo.get("callee"))
                    if mo.get("dargs") != ob.get("dargs"):
                        diff(cid, "arguments handed to the Go function", ob.get("dargs"), mo.get("dargs"))
                    if mo["out"] != exp:
                        diff(cid, "result", exp, mo["out"])
            elif mo is not None and "driver-failure" in mo:
                diff(cid, "model driver", "", mo["driver-failure"])
        elif kind == "C":
            codec = info["codec"]
            v = parse_one(info["value"])
            enc, dec = ob.get("enc", "?"), ob.get("dec", "-")
            if enc.startswith("P:") or dec.startswith("P:"):
                viol(cid, "panic in %s codec: enc=%s dec=%s" % (codec, enc[:80], dec[:80]))
                continue
            if codec == "json":
                kl = classes_of_json(v)
                if json_encodable(v):
                    if enc.startswith("e:") or dec.startswith("e:") or dec == "-":
                        viol(cid, "json codec failed on a value of the JSON domain: enc=%s dec=%s" % (enc[:80], dec[:80]),
                             sorted(kl)[0] if kl else None)
                    else:
                        back = parse_one(dec)
                        if not veq(back, v):
                            viol(cid, "decode(encode(v, json), json) differs from v: got %s" % dec[:200], sorted(kl)[0] if kl else None)
                        else:
                            nontrivial.add(("json", info["value"]))
                            if any(x[0] == "i" for x in walk(v)):
                                observations["int_came_back_as_float"] += 1
            else:
                if v[0] in ("s", "b", "U"):
                    if enc.startswith("e:") or dec.startswith("e:") or dec == "-":
                        viol(cid, "%s codec failed on bytes: enc=%s dec=%s" % (codec, enc[:80], dec[:80]))
                    else:
                        back = parse_one(dec)
                        if not veq(back, v):
                            viol(cid, "decode(encode(v)) differs from v: got %s" % dec[:200])
                        else:
                            nontrivial.add((codec, info["value"]))
                            if v[0] == "s" and back[0] == "b":
                                observations["string_came_back_as_byte_slice"] += 1
                        ref = ref_encode(codec, v[1])
                        e = parse_one(enc)
                        if ref is not None and e[0] in ("s", "b") and e[1] != ref:
                            viol(cid, "%s encoding differs from the reference encoder: %s" % (codec, enc[:200]))
                        if codec == "gzip" and e[0] in ("s", "b"):
                            try:
                                if gzip.decompress(e[1]) != v[1]:
                                    viol(cid, "gzip output does not decompress to the input")
                            except Exception as ex:  # noqa
                                viol(cid, "gzip output rejected by the reference decoder: %s" % ex)
                elif not enc.startswith("e:"):
                    observations["out_of_domain_value_returned"] += 1
            if mo is not None and "dec" in mo:
                stats["model_compared"] += 1
                me, md = mo.get("enc"), mo.get("dec")
                ie = err_class(enc, "-") if enc.startswith("e:") else enc
                idc = err_class(dec, ob.get("ddec", "-")) if dec.startswith("e:") else dec
                if codec == "json":
                    if me == "e:value" and not enc.startswith("e:"):
                        diff(cid, "json encode", enc, me)
                    if me == "?" and enc.startswith("e:"):
                        diff(cid, "json encode", enc, me)
                    if md != "-" and md != idc:
                        diff(cid, "json decode(encode v)", idc, md)
                else:
                    if me != ie:
                        diff(cid, "encode", ie, me)
                    if md != idc:
                        diff(cid, "decode(encode v)", idc, md)
        elif kind == "H":
            codec = info["codec"]
            for i, vt in enumerate(info["values"]):
                v = parse_one(vt)
                enc, now, dec = ob.get("enc%d" % i, "?"), ob.get("now%d" % i, "?"), ob.get("dec%d" % i, "?")
                if enc.startswith("P:") or dec.startswith("P:"):
                    viol(cid, "panic in %s codec (history): enc=%s dec=%s" % (codec, enc[:80], dec[:80]))
                    break
                if v[0] not in ("s", "b", "U") or enc.startswith("e:"):
                    continue
                if now != enc:
                    viol(cid, "the value returned by encode(v%d, %s) changed after later encodes: %s -> %s" % (i, codec, enc[:80], now[:80]))
                    break
                if dec.startswith("e:") or dec == "-" or not veq(parse_one(dec), v):
                    viol(cid, "decode(encode(v%d)) differs from v%d when other values were encoded in between: got %s" % (i, i, dec[:120]))
                    break
            else:
                nontrivial.add(("history", codec, "|".join(info["values"])))
        elif kind == "D":
            codec = info["codec"]
            v = parse_one(info["value"])
            dec = ob.get("dec", "?")
            if dec.startswith("P:"):
                viol(cid, "panic in %s decoder: %s" % (codec, dec[:80]))
                continue
            if v[0] in ("s", "b", "U"):
                ref = ref_decode(codec, v[1])
                if ref[0] == "bad":
                    stats["rejected"] += 1
                    if not dec.startswith("e:"):
                        viol(cid, "malformed %s input accepted: decoded to %s" % (codec, dec[:200]))
                elif ref[0] == "ok":
                    back = parse_one(dec)
                    if dec.startswith("e:"):
                        viol(cid, "well-formed %s input rejected: %s" % (codec, bytes.fromhex(dec[2:]).decode("utf-8", "replace")))
                    elif back[0] not in ("s", "b") or back[1] != ref[1]:
                        viol(cid, "%s input decoded to %s, the reference decoder gives %s" % (codec, dec[:200], ref[1].hex()[:200]))
                    else:
                        nontrivial.add((codec + "-decode", info["value"]))
            if mo is not None and "dec" in mo:
                stats["model_compared"] += 1
                idc = err_class(dec, ob.get("ddec", "-")) if dec.startswith("e:") else dec
                if mo["dec"] != idc:
                    diff(cid, "decode", idc, mo["dec"])
        elif kind == "J":
            v = parse_one(info["value"])
            mar, enc, un, dec = (ob.get(k, "?") for k in ("marshal", "encode", "unmarshal", "decode"))
            if any(x.startswith("P:") for x in (mar, enc, un, dec)):
                viol(cid, "panic in json: %r" % ob)
                continue
            kl = classes_of_json(v)
            if json_encodable(v):
                agree_kl = sorted(kl & {"json-byte-slice"})
                if mar != enc:
                    viol(cid, "json.marshal and encode(_, \"json\") differ: %s vs %s" % (mar[:200], enc[:200]),
                         agree_kl[0] if agree_kl else None)
                elif mar.startswith("e:"):
                    viol(cid, "json.marshal failed on a value of the JSON domain: %s" % mar[:200])
                else:
                    nontrivial.add(("json-agree", info["value"]))
                if un != "-" and dec != "-" and not (un.startswith("e:") and dec.startswith("e:")):
                    if un.startswith("e:") or dec.startswith("e:") or not veq(parse_one(un), parse_one(dec)):
                        viol(cid, "json.unmarshal and decode(_, \"json\") differ: %s vs %s" % (un[:200], dec[:200]),
                             agree_kl[0] if agree_kl else None)
            if mo is not None and "agree" in mo:
                stats["model_compared"] += 1
                if (mo["agree"] == "T") != (mar == enc or (mar.startswith("e:") and enc.startswith("e:"))):
                    diff(cid, "json.marshal = json codec", mar + " | " + enc, mo["agree"])
                for key in ("unmarshal", "decode"):
                    iv = ob.get(key, "-")
                    if iv == "-":
                        continue
                    if iv.startswith("e:"):
                        iv = "e:value"
                    if mo.get(key) != iv:
                        diff(cid, "json " + key, iv, mo.get(key))
        elif kind == "K":
            v = parse_one(info["value"])
            un, dec = ob.get("unmarshal", "?"), ob.get("decode", "?")
            if un.startswith("P:") or dec.startswith("P:"):
                viol(cid, "panic in json decoder: %r" % ob)
                continue
            if v[0] in ("s", "b", "U"):
                if un.startswith("e:") != dec.startswith("e:"):
                    viol(cid, "json.unmarshal and decode(_, \"json\") disagree on acceptance: %s vs %s" % (un[:200], dec[:200]))
                elif not un.startswith("e:") and not veq(parse_one(un), parse_one(dec)):
                    viol(cid, "json.unmarshal and decode(_, \"json\") give different values: %s vs %s" % (un[:200], dec[:200]))
                ref = ref_json(v[1])
                if ref[0] == "bad":
                    stats["rejected"] += 1
                    if not dec.startswith("e:"):
                        viol(cid, "malformed JSON accepted: %s" % dec[:200])
                elif ref[0] == "ok":
                    if dec.startswith("e:"):
                        viol(cid, "well-formed JSON rejected: %s" % bytes.fromhex(dec[2:]).decode("utf-8", "replace"))
                    elif not veq(parse_one(dec), ref[1]):
                        viol(cid, "JSON text decoded to %s, the reference parser gives something else" % dec[:200])
                    else:
                        nontrivial.add(("json-text", info["value"]))
        if len(samples) < 14 and int(cid[1:]) % max(1, len(meta) // 14) == 0:
            samples.append({"case": lines[int(cid[1:])], "impl": ob, "model": mo})

    evals = len(meta)
    cov["evaluations"] = evals
    cov["distinct_nontrivial"] = len(nontrivial)
    cov["rule"] = (
        "%d wrapped functions (modules strings, strconv, math, bytes, base64, filepath, regexp; methods of string, byte_slice, "
        "regexp object) x %d seeded argument tuples each (strings from a pool of Unicode / invalid UTF-8 / path / number / pattern "
        "texts and random bytes, carried as string, byte_slice or buffer; second arguments often substrings of the first; boundary "
        "ints and floats, random float bit patterns; 12%% one argument of a wrong type, 6%% wrong arity; every function with optional parameters "
        "also at every arity it accepts with every boundary value of each optional parameter - 0, +-1, small values, the extremes, the "
        "value the specification uses when the argument is absent and its neighbours -, number texts with base prefixes, leading "
        "zeros, digit separators, numerals in bases 2..36 and values at the limits of the integer widths), each through the object "
        "API (GetAttr(name).(*object.Builtin).Call) and through a script (try-wrapped call on globals), beside a direct call of the "
        "Go function on the converted arguments; 5 byte codecs x %d values round trip + %d malformed inputs each, JSON: %d nested "
        "values (round trip, json.marshal vs codec) and %d texts (json.unmarshal vs codec, strict referee), both routes. Oracle "
        "(Python, independent of the model): wrapper result == result constructor applied to the direct Go result, Go panic => "
        "script error required, no panic anywhere; decode(encode v) == v with numbers as exact rationals; encodings == Python "
        "standard-library encodings; malformed inputs (judged by Python predicates) rejected. Correspondence: extracted "
        "run_wrapper on the regenerated record of every regular wrapper (callee, arguments handed over, result/error class), "
        "extracted hex/JSON/codec glue. Non-trivial = distinct in-domain tuples whose result equals the Go result, distinct "
        "values that round trip, distinct malformed/well-formed decoder inputs judged." % (
            len(specs), per_fn, ncodec, nmal, njson, ntext))
    cov["samples"] = samples
    cov["correspondence"] = {"cases_compared_with_model": stats["model_compared"], "differences": len(corr),
                             "regular_records": len(regular), "irregular_records": irregular}
    cov["input_distribution"] = dict(stats, wrapper_functions=len(specs), observations=observations,
                                     known_finding_cases={k: len(v) for k, v in known_hits.items()})
    cov["trusted_base"] = cov.get("trusted_base", []) + [
        "the Go standard library is a parameter F of the wrapper theorems and the law dec(enc b) = b of base64/base32/gzip/urlquery "
        "(for base32 also: the encoder's output has length EncodedLen) is a hypothesis of C19_codec_inverse (tested on every run "
        "against Python's codecs); hex is proved in Gallina",
        "harness/cmd/c19gen (go/ast) reads the wrapper shape out of the source; its records are re-validated on every run by "
        "executing them (extracted run_wrapper) against the implementation",
        "the specification table of harness/cmd/c19obs (function -> Go callee, argument kinds) and of Wrappers.expected_callee",
    ]
    res.assumptions += [
        "float64(int64) and int(float64) are modelled as on amd64 (round to nearest even; CVTTSD2SQ)",
        "JSON is modelled at tree level: the text produced by encoding/json parses back to the same tree (checked by the round trip "
        "on the real code and by a strict Python referee on texts)",
        "map keys in JSON cases are valid UTF-8 and distinct",
        "strings.repeat / bytes.repeat / byte_slice.repeat refuse results above maxRepeatLen (2^30 bytes) although Go could "
        "allocate some of them; such sizes are not exercised (the generated counts are small, negative or overflowing)",
        "filepath.abs, filepath.walk_dir, math.sum, bytes.clone/equals are not wrappers of one standard-library function and are "
        "outside the property; math.abs/ceil/floor are compared with Go on float arguments only",
    ]
    if set(irregular) - {"base64.decode", "base64.encode", "base64.url_decode", "base64.url_encode", "byte_slice.clone",
                         "byte_slice.contains", "byte_slice.equals", "bytes.clone", "bytes.contains", "bytes.equals",
                         "filepath.abs", "filepath.join", "filepath.split", "filepath.walk_dir", "math.abs", "math.ceil",
                         "math.floor", "math.sum", "string.contains", "byte_slice.contains_rune", "byte_slice.index_rune",
                         "bytes.contains_rune", "bytes.index_rune"}:
        res.notes.append("wrappers whose source no longer has the regular shape (differential run only): "
                         + ", ".join(sorted(set(irregular))))

    # ---- decide
    for klass, hits in sorted(known_hits.items()):
        h = hits[0]
        res.known_finding("%s [%s]: %s (%d cases; e.g. %s %s via %s)" % (
            known[klass].get("what", klass), klass, h["why"][:160], len(hits),
            h.get("fname") or h.get("codec") or "json", " ".join(h.get("args", [])) or h.get("value", ""), h.get("route")))
    oracle_viol.sort(key=lambda m: len(lines[int(m["case"][1:])]))   # shortest failing inputs first
    for v in oracle_viol[:10]:
        v.update({"property": PROP, "kind": "oracle-violation", "input": lines[int(v["case"][1:])],
                  "replay_cmd": "printf '<input>\\n' | build/bin/c19obs run"})
        res.violation(v)
    if oracle_viol:
        return
    if not proved:
        res.violation({"property": PROP, "kind": "proof-obligation-broken", "theorem_file": "coq/props/C19.v",
                       "broken": res.broken, "search": "%d cases: no failing input" % evals,
                       "first_model_difference": corr[:3]}, nofail=True, tag="proof")
        return
    if corr:
        res.violation({"property": PROP, "kind": "correspondence-broken", "stage": corr[0]["what"],
                       "first_difference": corr[0], "differences": corr[:20],
                       "search": "oracle evaluated on all %d implementation outputs: no failing input" % evals},
                      nofail=True, tag="corr")


def replay(data):
    print(json.dumps(data, indent=1, default=str))
    obs, err = C.go_build("c19obs")
    if not obs:
        print(err)
        return 2
    inp = data.get("input")
    if inp:
        rc, o, e = C.run([obs, "run"], input=(inp + "\n").encode())
        print(o)
    return 0
