"""C04 - statements are stack-neutral: iteration count never exhausts VM capacity."""
import os
import shutil
import tempfile

from lib import common as C, core, gen, gen_forms
from lib.sexp import parse_sexp

PROP = "C04"
LEVEL = "proof"

OPERAND_NODES = {"list", "set", "map", "args", "infix", "index", "slice", "in", "notin", "pipe", "send", "str",
                 "exprs", "prefix", "tern", "getattr", "ocall", "assignidx", "setattr"}


def control_under_operand(ast_line):
    """Known-finding class #7: break/continue/return placed in an operand position of an expression
    (earlier operands of that expression are still on the stack when control leaves)."""
    try:
        tree = parse_sexp(ast_line)
    except Exception:
        return False

    def walk(n, pending):
        if not isinstance(n, list) or not n:
            return False
        head = n[0] if isinstance(n[0], str) else ""
        if head in ("break", "continue", "return") and pending:
            return True
        if head == "func":
            pending = False           # a function body is its own frame
        child_pending = pending or head in OPERAND_NODES
        if head == "return":
            child_pending = pending
        return any(walk(c, child_pending) for c in n[1:])

    return walk(tree, False)


def loop_programs(rng, n):
    """bodies executed 3 times and 3000 times: same outcome class required"""
    out = []
    for _ in range(n):
        g = gen.Gen(rng, budget=25)
        sc = gen.Scope()
        pre = ["log := []", "func t(k, v) { return v }", "acc := 0", "xs := [1, 2, 3]"]
        sc.vars.update({"acc": "i", "xs": "l", "log": "x", "t": "x"})
        inner = gen.Scope(sc)
        inner.vars["i"] = "c"
        form = rng.below(4)
        body = "; ".join(g.stmt(inner, True, False, 1) for _ in range(1 + rng.below(3)))
        if form == 0:
            loop = "for i := 0; i < @@N@@; i++ { " + body + " }"
        elif form == 1:
            loop = "i := 0\nfor i < @@N@@ { i++; " + body + " }"
        elif form == 2:
            loop = "for i := range @@N@@ { " + body + " }"
        else:
            loop = "for _, i := range @@N@@ { " + body + " }"
        out.append("\n".join(pre) + "\n" + loop + "\nacc")
    return out


MODULES = {"m1": "x := 1\nx\n", "m2": "func f(a) { return a + 1 }\nf(2)\n", "m3": "y := [1, 2]\n", "m4": "import m1\nz := m1.x + 1\n[z, z]\n"}


def error_loops(rng, n):
    """loop bodies that catch errors raised in the middle of expressions (operands pending in the failing frame), call
    functions that fail at several depths, and import modules: run 3 and 3000 times"""
    fails = ["[1][5]", "{}[\"k\"]", "1 / 0", "nil()", "error(\"boom\")", "deep(3)", "xs[9]"]
    out = []
    for _ in range(n):
        f = rng.choice(fails)
        pend = rng.choice(["1 + %s", "[1, 2, %s]", "t(1, %s)", "{\"a\": 1, \"b\": %s}", "xs[0] + (2 * %s)", "%s", "[t(1, 2), [3, %s]]"]) % f
        catch = rng.choice(["try(func() { x := %s }, 1)", "acc += try(func() { return %s }, 1)", "try(func() { %s }, func(e) { return 2 })",
                            "v := try(func() { return %s }, func(e) { return [1][7] }, 5)", "try(func() { t(0, %s) })",
                            "try(func() { for j := 0; j < 2; j++ { x := %s } }, 0)",
                            "try(func() { switch 1 { case 1: x := %s } }, 0)"]) % pend
        extra = rng.choice(["", "", "; acc++", "; import m1", "; import m2; acc += m2.f(1)", "; import m4", "; xs[0] = acc"])
        form = rng.below(3)
        body = catch + extra
        if form == 0:
            loop = "for i := 0; i < @@N@@; i++ { " + body + " }"
        elif form == 1:
            loop = "for i := range @@N@@ { " + body + " }"
        else:
            loop = "func once() { " + body + " }\nfor i := 0; i < @@N@@; i++ { once() }"
        pre = ["func t(k, v) { return v }", "func deep(n) { if n == 0 { return 1 + [1][5] }; return 1 + deep(n - 1) }", "acc := 0", "xs := [1, 2, 3]"]
        if rng.chance(1, 4):
            pre.append(rng.choice(["import m1", "import m2", "import m3", "import m4\nimport m1"]))
        out.append("\n".join(pre) + "\n" + loop + "\nacc")
    return out


# ------------------------------------------------------------------ sessions: many invocations on one VM

SESSION_LIB = ("x := 0\nacc := 0\nxs := [1, 2, 3]\n"
               "func t(k, v) { return v }\n"
               "func f(a) { return a + x }\n"
               "func deep(n) { if n == 0 { return 1 + [1][5] }; return 1 + deep(n - 1) }\n"
               "func rec(n) { return rec(n + 1) }\n"
               "func caught() { return try(func() { return [1, 2, [1][5]] }, 7) }\n"
               "func defers() { defer func() { acc = acc + 1 }(); return [acc, 1] }\n"
               "func pend(a, b) { return [a, b, [a, {\"k\": b, \"l\": xs[7]}]] }\n"
               "func mk(k) { return func(v) { return v + k + x } }\n"
               "h := mk(2)\n")
# pieces that end normally (the text @@R@@ is the number of the repetition: data only, never control flow)
S_OK = ["x = @@R@@; x + 1", "f(@@R@@)", "acc = acc + 1", "t(1, [x, acc])", "xs[0] = @@R@@", "caught()", "x", "func() { return x }()",
        "switch x { case 1: 5\n default: 6 }", "", "nil", "defers()", "for i := range 3 { acc += i }", "if true { x = 2 }", "h(@@R@@)",
        "[1, 2, 3].map(func(v) { return v + x })", "try(func() { return 1 + deep(2) }, 0)", "x = 1", "1; 2; 3", "v@@R@@ := @@R@@; v@@R@@ + 1",
        "func g@@R@@() { return @@R@@ }", "t(1, 2) + t(3, 4)", "acc = 0; for i := 0; i < 40; i++ { acc += try(func() { return [1][5] }, 1) }; acc",
        "x > 0 ? [1, 2] : [3]", "{\"a\": [x, acc], \"b\": f(1)}", "mk(@@R@@)(1)", "[f(1), caught(), h(1)][2]"]
S_OK_MOD = ["import m1", "import m2; m2.f(1)", "import m4", "import m3; m3.y[0]"]
# pieces that end with an error while operands are pending / in a deeper frame / by a recovered Go panic
S_FAIL = ["[1, 2, [1][5]]", "1 + deep(3)", "t(1, {\"a\": 1, \"b\": nil()})", "rec(0)", "x.nope", "error(\"boom\")", "1 + [1, f(2), xs[9]][0]",
          "pend(1, 2)", "[1, [2, [3, rec(0)]]]", "f(1, 2, 3)", "x = [1][5]", "for i := range 5 { t(i, [i, i, xs[5 + i]]) }",
          "switch 1 { case 1: [1, 2, 1 / 0] }", "[1, 2, 3].map(func(v) { return [v, v / 0] })", "defers() + [1]", "h(1, 2)", "mk(1)(nil)"]
# standalone pieces (they use nothing that an earlier invocation declared)
S_ALONE_OK = ["1 + 2", "[1, 2, 3][1]", "len(\"abc\")", "w@@R@@ := @@R@@; w@@R@@ * 2", "func() { return [1, 2] }()", "", "try(func() { return [1][5] }, 4)",
              "for i := range 4 { len([i]) }", "{\"a\": 1}[\"a\"]"]
S_ALONE_FAIL = ["[1, 2, [1][5]]", "1 + [1, 2, {}[\"k\"]][0]", "nil()", "len(1, [2, [3][4]])", "error(\"boom\")",
                "[1, 2, func() { return [3, [1][9]] }()]", "func r(n) { return r(n + 1) }\n[1, r(0)]"]
S_CALLS = [("f", [3]), ("caught", []), ("deep", [2]), ("rec", [0]), ("defers", []), ("t", [1, 2]), ("pend", [1, 2]), ("h", [4]), ("f", []), ("mk", [1])]


def session_cases(rng, tier):
    """REPL-style, embedding-style and mixed sessions: a prelude and a block of invocations that is repeated on the same VM.
    Most are short (the stack is looked at after every invocation); some run for more invocations than the stack has slots."""
    nshort, nlong = (90, 14) if tier == "quick" else (1500, 150)
    longn = 1150 if tier == "quick" else 3300
    out = [{"id": "sk0", "family": "repl", "pre": [{"api": "RN", "src": "w := 1"}],
            "block": [{"api": "RN", "src": "w := 2; w * 2"}, {"api": "RN", "src": "1 + 2"}, {"api": "RN", "src": "w"}], "reps": 4}]
    for i in range(nshort + nlong):
        fam = ("repl", "repl", "embed", "mixed")[i % 4]
        nb = 1 + rng.below(4)
        block = []
        if fam == "repl":
            pre = [{"api": "RN", "src": SESSION_LIB + "x + 1"}]
            for _ in range(nb):
                c = rng.below(10)
                if c < 4:
                    block.append({"api": "RN", "src": rng.choice(S_OK)})
                elif c < 5:
                    block.append({"api": "RN", "src": rng.choice(S_OK_MOD)})
                elif c < 8:
                    block.append({"api": "RN", "src": rng.choice(S_FAIL)})
                else:
                    fn, args = rng.choice(S_CALLS)
                    block.append({"api": "CL", "fn": fn, "args": args})
        elif fam == "embed":
            pre = [{"api": "RC", "src": SESSION_LIB + "x + 1"}]
            for _ in range(nb):
                c = rng.below(10)
                if c < 3:
                    block.append({"api": "RC", "src": SESSION_LIB + rng.choice(S_OK + S_OK_MOD)})
                elif c < 6:
                    block.append({"api": "RC", "src": SESSION_LIB + rng.choice(S_FAIL)})
                else:
                    fn, args = rng.choice(S_CALLS)
                    block.append({"api": "CL", "fn": fn, "args": args})
        else:
            pre = [{"api": "RN", "src": "1"}]
            last_rc = False
            for _ in range(nb + 1):
                c = rng.below(10)
                if c < 3:
                    block.append({"api": "RN", "src": rng.choice(S_ALONE_OK if rng.chance(1, 2) else S_ALONE_FAIL)})
                    last_rc = False
                elif c < 7 or not last_rc:
                    block.append({"api": "RC", "src": SESSION_LIB + rng.choice(S_OK if rng.chance(1, 2) else S_FAIL)})
                    last_rc = True
                else:
                    fn, args = rng.choice(S_CALLS)
                    block.append({"api": "CL", "fn": fn, "args": args})
        if i < nshort:
            reps = 3 + rng.below(20)
        else:
            reps = longn // len(block) + 1
        out.append({"id": "s%d" % i, "family": fam, "pre": pre, "block": block, "reps": reps})
    return out


def run_sessions(c04obs, sessions, moddir):
    import json
    import subprocess
    from concurrent.futures import ThreadPoolExecutor
    # long sessions first, spread over the shards
    order = sorted(range(len(sessions)), key=lambda k: -sessions[k]["reps"] * len(sessions[k]["block"]))
    nsh = max(1, min(C.NCPU, len(sessions)))
    shards = [[sessions[k] for k in order[j::nsh]] for j in range(nsh)]

    def one(sh):
        inp = "".join(json.dumps({k: v for k, v in s.items() if k != "family"}) + "\n" for s in sh)
        p = subprocess.run([c04obs, "session", moddir], input=inp.encode(), stdout=subprocess.PIPE, stderr=subprocess.PIPE)
        return p.stdout.decode("utf-8", "replace").splitlines()
    lines = {}
    with ThreadPoolExecutor(max_workers=nsh) as ex:
        for ls in ex.map(one, shards):
            for l in ls:
                sid, _, rest = l.partition("\t")
                lines[sid] = rest
    return lines


def after_compile_reject(obs, k):
    """Known-finding class `repl-compile-reject-leftover-code` (the C18 finding `compile-rejected-piece-not-rolled-back` seen from
    the stack): the Run at position k is the first Run after one or more pieces that the COMPILER rejected on the same
    compiler.  The instructions the rejected piece had already emitted stay in the main code and are executed by this Run
    together with its own, so it may leave their operands beside its result.  Decided on the observations alone."""
    j = k - 1
    seen = False
    while j >= 0:
        if obs[j][0] == "RN":
            if obs[j][1] == "ERR COMPILE":
                seen = True
            elif obs[j][1] != "ERR PARSE":
                break
        j -= 1
    return seen


def judge_session(s, line):
    """The property on the observations of one session.  Returns (why, index of the invocation) or None; and the number of
    invocations judged."""
    obs = [o.split(":") for o in line.split(";")] if line else []
    npre, nb = len(s["pre"]), len(s["block"])
    if len(obs) != npre + nb * s["reps"] or any(len(o) != 5 for o in obs):
        return ("the harness gave no (complete) answer for this session: %r" % line[:200], -1), 0
    if any("TIMEOUT" in o[1] or "context" in o[1] for o in obs):
        return None, 0          # a wall-clock bound was hit: not an observation
    judged = 0
    for k, (api, outcome, entry, mx, sp) in enumerate(obs):
        entry, mx, sp = int(entry), int(mx), int(sp)
        if outcome.startswith("HARNESS") or outcome in ("ERR PARSE", "ERR COMPILE"):
            continue            # nothing was invoked
        if api == "RN" and after_compile_reject(obs, k):
            continue            # known finding (see after_compile_reject); counted by the caller
        judged += 1
        if "GOPANIC" in outcome:
            return ("a Go panic escaped the invocation: " + outcome, k), judged
        if entry > 0:
            return ("invocation %d (%s) began with %d operands of earlier invocations on the stack" % (k, api, entry), k), judged
        if outcome == "OK":
            if api in ("RN", "RC") and sp != 0 and not (entry < 0 and sp == -1):
                return ("invocation %d (%s) ended normally and left %d values on the stack instead of exactly its result" % (k, api, sp + 1), k), judged
            if api == "CL" and sp > 0:
                return ("invocation %d (Call) returned its result and left %d values on the stack" % (k, sp + 1), k), judged
        if k >= npre + 2 * nb:
            # the block behaves the same in every repetition: same outcome class, same stack use as in repetition 1
            ref = obs[k - ((k - npre) // nb - 1) * nb]
            if ref[1] != outcome:
                return ("invocation %d (%s, repetition %d of the block) ended with %s; the same invocation ended with %s in repetition 1: "
                        "the number of earlier invocations alone changed the outcome" % (k, api, (k - npre) // nb, outcome, ref[1]), k), judged
            if int(ref[3]) != mx:
                return ("invocation %d (%s, repetition %d of the block) used %d stack slots; the same invocation used %s in repetition 1" % (
                    k, api, (k - npre) // nb, mx, ref[3]), k), judged
    return None, judged


def load_known_all():
    """open known findings of this property: the shared file plus the per-agent files known_findings.<agent>.jsonl"""
    import glob
    import json
    out = list(C.load_known(PROP))
    for p in sorted(glob.glob(os.path.join(C.VERIF, "known_findings.*.jsonl"))):
        for line in open(p):
            line = line.strip()
            if line and not line.startswith("#"):
                j = json.loads(line)
                if j.get("property") == PROP and not j.get("fixed"):
                    out.append(j)
    return out


def run(res):
    tier = res.tier
    nprog = 3000 if tier == "quick" else 60000
    nloop = 400 if tier == "quick" else 5000
    cov = res.coverage

    ok, log = C.translate("ops", "GenOps.v")
    if not ok:
        res.violation({"property": PROP, "kind": "translator-failed", "stage": "GenOps.v", "log": log[-2000:]},
                      nofail=True, tag="translate")
        return
    tools = core.build(res, PROP, go_tools=["astobs", "evalobs"], models=[])
    if tools is None:
        return
    ov, err = C.make_overlay()
    if not ov:
        res.violation({"property": PROP, "kind": "hook-anchor-missing", "stage": "overlay of vm/vm.go", "log": err},
                      nofail=True, tag="overlay")
        return
    c04obs, err = C.go_build("c04obs", overlay=ov)
    if not c04obs:
        res.violation({"property": PROP, "kind": "harness-build-failed", "stage": "go build c04obs (overlay)",
                       "log": err[-3000:]}, nofail=True, tag="build")
        return
    proved = C.prove(res, PROP)
    verifier, err = C.build_extracted("verify", "ExtractVerify.v", "verify_driver.ml")
    if not verifier:
        res.violation({"property": PROP, "kind": "model-build-failed", "stage": "extraction of the certified checker",
                       "log": err[-3000:], "broken": getattr(res, "broken", None)}, nofail=True, tag="extract")
        return

    rng = C.Rng(res.seed)
    srcs = []
    stats = {}
    for i in range(nprog):
        g = gen.Gen(rng, budget=45, features=["defer"] if i % 4 == 0 else [])
        srcs.append(g.program())
        for k, v in g.stats.items():
            stats[k] = stats.get(k, 0) + v
    # every expression form of the grammar (every template shape among them) in every operand position: own random stream
    frng = C.Rng(res.seed ^ 0x666f726d73)
    forms = gen_forms.Forms(frng)
    nform = 1500 if tier == "quick" else 40000
    form_srcs = [forms.program() for _ in range(nform)]
    srcs += form_srcs
    stats["expression-form programs"] = nform
    corpus = []
    for f in ("harvest.hex", "semgen.hex", "edge.hex"):
        for line in open(os.path.join(C.VERIF, "corpus", "core", f)):
            line = line.strip()
            if line:
                corpus.append(bytes.fromhex(line).decode("utf-8", "surrogateescape"))
    known_dir = os.path.join(C.VERIF, "corpus", "C04")
    witnesses = []
    if os.path.isdir(known_dir):
        for f in sorted(os.listdir(known_dir)):
            witnesses.append(open(os.path.join(known_dir, f)).read())
    allsrc = witnesses + corpus + srcs

    work = tempfile.mkdtemp(prefix="c04-", dir=C.WORK)
    try:
        st = core.stages(allsrc, tools, work, want=("code",))
        # certified checker on the real bytecode
        hexf = os.path.join(work, "all.hex")
        import subprocess
        from concurrent.futures import ThreadPoolExecutor
        nsh = C.NCPU
        code_lines = st["code_go"]

        def cert_shard(k):
            chunk = code_lines[k::nsh]
            p = subprocess.run([verifier], input=("\n".join(chunk) + "\n").encode(), stdout=subprocess.PIPE)
            return p.stdout.decode("utf-8", "replace").splitlines()
        with ThreadPoolExecutor(max_workers=nsh) as ex:
            cparts = list(ex.map(cert_shard, range(nsh)))
        cert = [""] * len(code_lines)
        for k in range(nsh):
            for j, l in enumerate(cparts[k]):
                cert[k + j * nsh] = l
        with open(hexf, "w") as f:
            for s in allsrc:
                f.write(s.encode("utf-8", "surrogateescape").hex() + "\n")
        # traces of the real VM (sharded)
        lines = open(hexf).read().splitlines()
        chunks = [lines[i::nsh] for i in range(nsh)]

        def tr(k):
            p = subprocess.run([c04obs, "trace"], input=("\n".join(chunks[k]) + "\n").encode(), stdout=subprocess.PIPE)
            return p.stdout.decode("utf-8", "replace").splitlines()
        with ThreadPoolExecutor(max_workers=nsh) as ex:
            parts = list(ex.map(tr, range(nsh)))
        trace = [None] * len(lines)
        for k in range(nsh):
            for j, l in enumerate(parts[k]):
                trace[k + j * nsh] = l
        # scaled loops
        loops = loop_programs(rng, nloop)
        small = [p.replace("@@N@@", "3") for p in loops]
        big = [p.replace("@@N@@", "3000") for p in loops]
        # error-catching and importing loops, with the final stack pointer
        moddir = os.path.join(work, "mods")
        os.makedirs(moddir, exist_ok=True)
        for name, text in MODULES.items():
            with open(os.path.join(moddir, name + ".risor"), "w") as mf:
                mf.write(text)
        eloops = error_loops(rng, nloop)
        # loop bodies made of expression forms in operand positions (same judgement: 3 vs 3000 iterations, final stack pointer)
        eloops += [forms.loop_program() for _ in range(nloop // 2)]

        def outcome_run(sources):
            shards = [sources[k::nsh] for k in range(nsh)]

            def one(k):
                if not shards[k]:
                    return []
                inp = "\n".join(x.encode("utf-8", "surrogateescape").hex() for x in shards[k]) + "\n"
                return subprocess.run([c04obs, "outcome", moddir], input=inp.encode(), stdout=subprocess.PIPE).stdout.decode("utf-8", "replace").splitlines()
            with ThreadPoolExecutor(max_workers=nsh) as ex2:
                ps = list(ex2.map(one, range(nsh)))
            outl = [""] * len(sources)
            for k in range(nsh):
                for j, l in enumerate(ps[k]):
                    outl[k + j * nsh] = l
            return outl
        e_small = outcome_run([p.replace("@@N@@", "3") for p in eloops])
        e_big = outcome_run([p.replace("@@N@@", "3000") for p in eloops])
        res.eloops = (eloops, e_small, e_big)
        sessions = session_cases(rng, tier)
        res.sessions = (sessions, run_sessions(c04obs, sessions, moddir))
        st_small = core.stages(small, tools, os.path.join(work, "ls"), want=("eval",))
        st_big = core.stages(big, tools, os.path.join(work, "lb"), want=("eval",))
        def scale_eval(sources):
            """the whole program as the body of a loop, run 3 and 3000 times: [(outcome_3, outcome_3000)]"""
            wrap = ["for zq_i := 0; zq_i < @@N@@; zq_i++ {\n" + s0 + "\n}" for s0 in sources]
            a = core.stages([w.replace("@@N@@", "3") for w in wrap], tools, os.path.join(work, "ss"), want=("eval",))["eval_go"]
            b = core.stages([w.replace("@@N@@", "3000") for w in wrap], tools, os.path.join(work, "sb"), want=("eval",))["eval_go"]
            return [(w.replace("@@N@@", "3000"), x, y) for w, x, y in zip(wrap, a, b)]
        _decide(res, allsrc, len(witnesses), st, cert, trace, loops, st_small, st_big, stats, proved, scale_eval)
    finally:
        shutil.rmtree(work, ignore_errors=True)


def _decide(res, allsrc, nwit, st, cert, trace, loops, st_small, st_big, stats, proved, scale_eval=None):
    cov = res.coverage
    known = C.load_known(PROP)
    certified = rejected = notcompiled = 0
    tie_bad = []
    oracle = []
    traced_points = 0
    distinct_codes = set()
    samples = []
    for i, src in enumerate(allsrc):
        c = cert[i] if i < len(cert) else ""
        code_line = st["code_go"][i]
        if not code_line.startswith("code "):
            notcompiled += 1
            continue
        distinct_codes.add(code_line.split(" consts=")[0][-200:] if False else hash(code_line))
        if c.startswith("REJECT"):
            rejected += 1
            if control_under_operand(st["ast"][i]):
                res.known_finding("break/continue/return in an operand position of an expression leaves the "
                                  "operands already pushed on the stack (class: control flow under an unfinished "
                                  "expression; e.g. `[1, if c { continue }, 3]` inside a loop)")
                continue
            oracle.append({"kind": "oracle-violation", "stage": "certified checker on the real bytecode",
                           "source": src, "verdict": c,
                           "why": "some control path through this program's bytecode reaches a pc with two "
                                  "different stack heights, underflows, or ends main with more than its result "
                                  "(why: 1 underflow, 2 inconsistent join, 3 backward target, 6/7 end height)"})
            continue
        if not c.startswith("CERT"):
            tie_bad.append({"stage": "verifier output", "source": src, "line": c})
            continue
        certified += 1
        labels = {}
        for part in c[5:].split(" "):
            if not part:
                continue
            cid, _, rest = part.partition("=")
            mx, _, ls = rest.partition(":")
            labels[cid] = {int(a): int(b) for a, b in (x.split(".") for x in ls.split(",") if x)}
        t = trace[i]
        if not t:
            continue
        f = t.split("\t")
        outcome = f[0]
        conflict = f[2][len("conflict="):] if len(f) > 2 else ""
        if outcome == "OK" and ";sp=" in f[1] and f[1].split(";sp=")[1] != "0":
            oracle.append({"kind": "oracle-violation", "stage": "final stack pointer of the real VM", "source": src,
                           "why": "a finished evaluation left %s values under its result" % f[1].split(";sp=")[1]})
            continue
        if conflict:
            oracle.append({"kind": "oracle-violation", "stage": "trace of the real VM", "source": src,
                           "why": "the same instruction was reached with two different relative stack heights: " + conflict})
            continue
        pts = f[3].split(",") if len(f) > 3 and f[3] else []
        for p in pts:
            cid, ip, h = p.split(":")
            traced_points += 1
            if cid not in labels:
                continue          # a code object that is not part of this program's dump (imported module)
            want = labels[cid].get(int(ip))
            if want is None or want != int(h):
                tie_bad.append({"stage": "abstract height machine vs real VM", "source": src, "code": cid, "ip": int(ip),
                                "observed_height": int(h), "certified_height": want})
                break
        if len(samples) < 6 and i >= nwit and i % 997 == 0:
            samples.append({"source": src, "certificate": c[:200], "trace_outcome": outcome})
    # scaled loops
    scaled_bad = 0
    scaled_run = 0
    for p, a, b in zip(loops, st_small["eval_go"], st_big["eval_go"]):
        if a.startswith("SKIP"):
            continue
        scaled_run += 1
        ca = a.split(" TRACE")[0].split(" ")[0:2]
        cb = b.split(" TRACE")[0].split(" ")[0:2]
        small_ok = a.startswith("OK")
        if small_ok and (b.startswith("ERR XPanic") or "GOPANIC" in b):
            scaled_bad += 1
            oracle.append({"kind": "oracle-violation", "stage": "scaled loop bound", "source": p.replace("@@N@@", "3000"),
                           "outcome_3_iterations": a[:200], "outcome_3000_iterations": b[:300],
                           "why": "the loop succeeds for 3 iterations and fails for 3000 with a VM fault"})
    eloops, e_small, e_big = getattr(res, "eloops", ([], [], []))
    eloop_run = 0
    for p, a, b in zip(eloops, e_small, e_big):
        if not a.startswith("OK"):
            continue
        eloop_run += 1
        why = None
        if not a.endswith("sp=0"):
            why = "a finished evaluation left values under its result (%s)" % a
        elif b.startswith("ERR XPanic") or "GOPANIC" in b or not b:
            why = "the loop succeeds for 3 iterations and fails for 3000 with a VM fault"
        elif b.startswith("OK") and not b.endswith("sp=0"):
            why = "a finished evaluation left values under its result (%s)" % b
        if why:
            scaled_bad += 1
            oracle.append({"kind": "oracle-violation", "stage": "error-catching / importing loop", "source": p.replace("@@N@@", "3000"),
                           "outcome_3_iterations": a[:200], "outcome_3000_iterations": b[:300], "why": why})
    cov["error_loops"] = {"generated": len(eloops), "run": eloop_run}
    sessions, slines = getattr(res, "sessions", ([], {}))
    sess_inv = 0
    sess_bad = 0
    fam_hist = {}
    known_ids = set(kf.get("id") for kf in load_known_all())
    for s in sessions:
        bad, judged = judge_session(s, slines.get(s["id"], ""))
        sobs = [o.split(":") for o in slines.get(s["id"], "").split(";")]
        if "repl-compile-reject-leftover-code" in known_ids and not bad and any(
                len(o) == 5 and o[0] == "RN" and o[1] == "OK" and o[4] != "0" and after_compile_reject(sobs, k) for k, o in enumerate(sobs)):
            res.known_finding("a Run that follows a piece rejected by the compiler also executes the instructions that piece had already "
                              "emitted (they are not rolled back: C18's compile-rejected-piece-not-rolled-back) and ends with their operands "
                              "beside its result, e.g. REPL inputs `w := 1`, `w := 2; w * 2`, `1 + 2`: the third Run leaves 2 values")
        sess_inv += judged
        fam_hist[s["family"]] = fam_hist.get(s["family"], 0) + judged
        if bad:
            sess_bad += 1
            why, k = bad
            obs = slines.get(s["id"], "").split(";")
            oracle.append({"kind": "oracle-violation", "stage": "session of invocations on one VM", "session": s, "invocation": k,
                           "observations_around": obs[max(0, k - 3):k + 2] if k >= 0 else obs[:5],
                           "observation_format": "api:outcome:operands before the first instruction:most operands:stack pointer afterwards",
                           "why": why})
    cov["sessions"] = {"sessions": len(sessions), "invocations_judged": sess_inv, "per_family": fam_hist, "violating": sess_bad,
                       "longest": max([len(s["pre"]) + len(s["block"]) * s["reps"] for s in sessions] or [0])}
    if len(samples) < 8 and loops:
        samples.append({"scaled_loop_program": loops[0].replace("@@N@@", "3000"), "outcome_3": st_small["eval_go"][0][:120],
                        "outcome_3000": st_big["eval_go"][0][:120]})

    cov["evaluations"] = len(allsrc) + 2 * len(loops) + 2 * len(getattr(res, "eloops", ([],))[0]) + sess_inv
    cov["distinct_nontrivial"] = len(distinct_codes)
    cov["rule"] = ("seeded grammar-directed programs (every loop form x switch x if x break/continue/return x expression "
                   "contexts) plus the harvested corpus; each is compiled by the real compiler, every code object is run "
                   "through the extracted proved-sound certificate checker (all control paths), executed on the real VM with "
                   "the verif trace hook (observed (code, ip, height) must equal the certified label), and loop bodies are run "
                   "with bounds 3 and 3000 (> stack capacity 1024); loops that catch errors raised under pending operands (try), fail at several call "
                   "depths and import modules are run the same way, and every successful run must end with exactly its result on the stack; "
                   "sessions (REPL protocol Run / RunCode / Call, mixed; invocations that end normally, with an error under pending operands, in a deeper "
                   "frame or by a recovered panic) repeat a block of invocations on ONE VM, some for more invocations than the stack has slots: every "
                   "invocation must begin on an empty stack, a normal end must leave exactly the result (Call: nothing), and outcome and stack use "
                   "of the block must not change with the repetition. Non-trivial = distinct compiled programs.")
    cov["samples"] = samples
    cov["programs_certified"] = certified
    cov["programs_rejected"] = rejected
    cov["programs_not_compiled"] = notcompiled
    cov["traced_points_checked"] = traced_points
    cov["scaled_loops"] = {"run": scaled_run, "diverging": scaled_bad}
    cov["input_distribution"] = dict(sorted(stats.items(), key=lambda kv: -kv[1])[:50])
    res.assumptions += [
        "astep models vm.eval's dispatch loop for non-call instructions; calls are assumed to return with exactly one "
        "value pushed (checked dynamically by the trace comparison on every executed instruction)",
        "the certified checker runs per code object; frames are independent (each call starts at relative height 0)",
    ]
    for v in oracle[:10]:
        v["property"] = PROP
        res.violation(v)
    if oracle:
        return
    if not proved:
        res.violation({"property": PROP, "kind": "proof-obligation-broken", "theorem_file": "coq/props/C04.v",
                       "broken": res.broken,
                       "search": "%d programs certified and traced, %d scaled loops: no failing input" % (certified, scaled_run)},
                      nofail=True, tag="proof")
        return
    if tie_bad and scale_eval:
        # search for a failing input: where the real VM's height at a pc differs from the height every static path assigns,
        # repeat the whole program as a loop body - a leak of one slot per iteration overflows the 1024-slot stack
        cand = []
        for tb in tie_bad:
            if tb.get("source") and tb["source"] not in cand:
                cand.append(tb["source"])
        found = []
        for wsrc, a, b in scale_eval(cand[:40]):
            if a.startswith("OK") and (b.startswith("ERR XPanic") or "GOPANIC" in b):
                found.append({"kind": "oracle-violation", "stage": "program repeated as a loop body", "source": wsrc,
                              "outcome_3_iterations": a[:200], "outcome_3000_iterations": b[:300],
                              "why": "the program succeeds as the body of a 3-iteration loop and fails with a VM fault for 3000 "
                                     "iterations: iteration count alone produces a stack failure"})
        for v in found[:10]:
            v["property"] = PROP
            res.violation(v)
        if found:
            return
    if tie_bad:
        res.violation({"property": PROP, "kind": "correspondence-broken", "first_difference": tie_bad[0],
                       "count": len(tie_bad),
                       "search": "no pc with two heights observed, no diverging scaled loop, the differing programs repeated 3000 times do not fail: no failing input"},
                      nofail=True, tag="corr")


def replay(data):
    import json
    print(json.dumps(data, indent=1)[:3000])
    s = data.get("session")
    if not s:
        return 0
    ov, err = C.make_overlay()
    exe, err2 = C.go_build("c04obs", overlay=ov) if ov else (None, err)
    if not exe:
        print(err or err2)
        return 2
    os.makedirs(C.WORK, exist_ok=True)
    work = tempfile.mkdtemp(prefix="c04r-", dir=C.WORK)
    try:
        for name, text in MODULES.items():
            with open(os.path.join(work, name + ".risor"), "w") as mf:
                mf.write(text)
        line = run_sessions(exe, [s], work).get(s["id"], "")
    finally:
        shutil.rmtree(work, ignore_errors=True)
    bad, judged = judge_session(s, line)
    print("implementation now: %d invocations judged; %s" % (judged, bad[0] if bad else "the session obeys the property"))
    return 1 if bad else 0
